"""Driver: `bin/check <Cnn> [--tier quick|thorough] [--replay <path>]`."""
import argparse
import importlib
import json
import os
import sys
import traceback

HERE = os.path.dirname(os.path.dirname(os.path.abspath(__file__)))
sys.path.insert(0, HERE)
os.chdir(HERE)


def main():
    ap = argparse.ArgumentParser()
    ap.add_argument("prop")
    ap.add_argument("--tier", default=os.environ.get("VERIF_TIER", "quick"))
    ap.add_argument("--replay", default=None)
    a = ap.parse_args()
    seed = int(os.environ.get("VERIF_SEED", "0") or 0)
    if a.tier not in ("quick", "thorough"):
        a.tier = "quick"
    try:
        mod = importlib.import_module(f"checks.{a.prop}")
        if a.replay:
            rc = mod.replay(a.replay)
        else:
            rc = mod.run(a.tier, seed)
    except SystemExit:
        raise
    except Exception:
        traceback.print_exc()
        print(f"CHECKER-CRASH property={a.prop}")
        rc = 3
    sys.exit(rc)


if __name__ == "__main__":
    main()
