#!/bin/sh
# usage: try_seed2.sh <patch.diff> <demo.py> <prop> [<prop> ...]  -- like try_seed.sh but on a scratch copy of /repo's working tree under /tmp
# (MYGRAD_REPO / VERIF_OUT), so /repo and /verif/evidence are untouched and several can run at once
PATCH=$1; DEMO=$2; shift 2
w=$(mktemp -d /tmp/ts2_XXXXXX); mkdir -p $w/repo $w/out
(cd /repo && git ls-files -z | xargs -0 cp --parents -t $w/repo 2>/dev/null)
(cd $w/repo && patch -p1 -s < "$PATCH") || { echo "patch does not apply"; rm -rf $w; exit 3; }
PYTHONPATH=$w/repo/src /venv/bin/python "$DEMO" > $w/demo.txt 2>&1; echo "demo rc=$?"; tail -3 $w/demo.txt | cut -c1-200
for p in "$@"; do
  (cd /verif && MYGRAD_REPO=$w/repo VERIF_OUT=$w/out bin/check $p --tier quick > $w/seed_$p.txt 2>&1); rc=$?
  echo "== $p rc=$rc viol=$(grep -c '^VIOLATION' $w/seed_$p.txt) $(grep '^VIOLATION' $w/seed_$p.txt | sed 's/.*obligation=//' | sort | uniq -c | sort -rn | head -5 | tr '\n' ';')"
  grep -E "^(UNDECIDED|OUT-OF-SUBSET|CHECKER-CRASH)" $w/seed_$p.txt | head -3
done
rm -rf $w
