#!/bin/sh
cd /verif
for p in C01 C02 C03 C04 C05 C06 C07 C08 C09 C10 C11 C12 C13 C14 C15 C16 C17 C18; do
  s=$(date +%s)
  bin/check $p --tier ${1:-quick} > /tmp/out_$p.txt 2>&1
  rc=$?
  e=$(date +%s)
  echo "$p rc=$rc $((e-s))s $(grep -c '^VIOLATION' /tmp/out_$p.txt) viol; $(grep '^\[' /tmp/out_$p.txt | tail -1 | cut -c1-200)"
done
