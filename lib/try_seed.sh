#!/bin/sh
# usage: try_seed.sh <patch.diff> <demo.py> <prop> [<prop> ...]  -- applies the patch to /repo, runs demo + checks, reverts
PATCH=$1; DEMO=$2; shift 2
cd /repo || exit 3
if ! git diff --quiet; then echo "repo dirty"; exit 3; fi
git apply "$PATCH" || { echo "patch does not apply"; exit 3; }
echo "== demo with patch:"; PYTHONPATH=/repo/src /venv/bin/python "$DEMO" > /tmp/demo_out.txt 2>&1; echo "demo rc=$?"; tail -3 /tmp/demo_out.txt
for p in "$@"; do
  cd /verif && bin/check $p --tier quick > /tmp/seed_$p.txt 2>&1; rc=$?
  echo "== $p rc=$rc viol=$(grep -c '^VIOLATION' /tmp/seed_$p.txt) $(grep '^VIOLATION' /tmp/seed_$p.txt | sed 's/.*obligation=//' | sort | uniq -c | sort -rn | head -4 | tr '\n' ';')"
  grep -E "^(UNDECIDED|OUT-OF-SUBSET|CHECKER-CRASH)" /tmp/seed_$p.txt | head -3
done
cd /repo && git checkout -- . && git status --short | head -3
echo "== demo without patch:"; PYTHONPATH=/repo/src /venv/bin/python "$DEMO" > /tmp/demo_out2.txt 2>&1; echo "demo rc=$?"
