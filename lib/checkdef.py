"""Generic property check: deductive obligations (selected by name) + enumerations + bounded scripts."""
from __future__ import annotations

import importlib
import json
import re

from lib.report import Report, run_bounded
from pyvc import solve

_cache = {}


def contract_obligations(modname, tier):
    if (modname, tier) not in _cache:
        m = importlib.import_module(f"contracts.{modname}")
        _cache[(modname, tier)] = m.obligations(tier)
    return _cache[(modname, tier)]


def run_property(prop, tier, seed, level, deductive=(), bounded=(), enumerations=(), trusted=(), assumptions=(), explanation="",
                 min_obligations=1, replay=None, timeout_ms=30000):
    rep = Report(prop, tier, seed, level=level)
    for (modname, pattern) in deductive:
        obls, info = contract_obligations(modname, tier)
        rx = re.compile(pattern) if pattern else None
        sel = [o for o in obls if rx is None or rx.search(o.name)]
        rep.add_functions(info.get("functions", {}))
        rep.unsupported += [f"{modname}: {u}" for u in info.get("unsupported", [])]
        rep.extra["paths"] = rep.extra.get("paths", 0) + info.get("paths", 0)
        if not sel:
            rep.undecided.append((f"{modname}/{pattern}", "no obligation selected (vacuity guard)"))
            continue
        # thorough: three times the solver budget and every verdict of z3 re-asked of cvc5 (a disagreement is "undecided")
        results = solve.discharge(sel, timeout_ms=timeout_ms if tier == "quick" else 3 * timeout_ms, cross_check=(tier == "thorough"))
        rep.add_deductive(results, (lambda r: replay(rep, r)) if replay else None)
    for en in enumerations:
        name, items, failures, note = en(rep)
        rep.add_enumeration(name, items, failures, note)
    for (script, args) in bounded:
        rep.add_bounded(run_bounded(script, tier, seed, extra_args=args))
    rep.trusted += list(trusted)
    rep.assumptions += list(assumptions)
    rep.extra["explanation"] = explanation
    if tier == "thorough":
        rep.run_canaries(sorted({m for (m, _p) in deductive}))
    return rep.finish(min_obligations=min_obligations)


def default_replay_cmd(path):
    """`bin/check <id> --replay <file>`: prints the replay record; for a failing input found by a bounded run-time contract the same
    bounded script is run again on the CURRENT tree (same tier and seed, failure cap lifted) and the exit status says whether that
    input still fails (1) or not (0).  Records of deductive obligations carry their native replay outcome (`confirmed`)."""
    import os

    d = json.load(open(path))
    print(json.dumps(d, indent=1, default=str)[:4000])
    rr = d.get("rerun")
    if d.get("kind") == "bounded" and rr:
        os.environ["VERIF_FAIL_CAP"] = "1000000"
        b = run_bounded(rr["script"], rr["tier"], rr["seed"], extra_args=rr.get("args", ()))
        same = [f for f in b.get("failures", []) if f.get("name") == d.get("name") and f.get("input") == d.get("input")]
        print(f"REPLAY on the current tree: input {'STILL FAILS' if same else 'no longer fails'} ({len(b.get('failures', []))} failing inputs in total, errors: {b.get('errors', [])[:2]})")
        if same:
            print(json.dumps(same[0], default=str)[:1500])
        return 1 if same else 0
    return 1 if d.get("confirmed") else 0
