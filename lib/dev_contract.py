import sys, time, importlib
sys.path.insert(0,'/verif')
mod = importlib.import_module('contracts.'+sys.argv[1])
from pyvc import solve
t=time.time()
obls, info = mod.obligations()
print(len(obls), 'obligations', info['paths'],'paths', round(time.time()-t,2))
for u in info['unsupported']: print('UNSUP', u)
res = solve.discharge(obls, timeout_ms=20000)
from collections import Counter
print(Counter(r.status for r in res), round(time.time()-t,2))
for r in res:
    if r.status!='discharged': print(r.name, r.status, r.backend, round(r.ms), r.reason, {k:v for k,v in r.meta.items() if k not in('function',)}, str(r.model)[:300] if r.status=='refuted' else '')
