"""Regenerates MANIFEST.json from the table below (kept in one place so it stays valid)."""
import json
import os

HERE = os.path.dirname(os.path.dirname(os.path.abspath(__file__)))

CHECKS = {}


def _c(pid, category, text, ref, note, technique):
    CHECKS[pid] = dict(category=category, text=text, design_ref=ref, note=note, technique=technique)


_T = "contract-based deductive verification: PyVC symbolic execution of the real function ASTs -> VCs discharged by z3 (cvc5 for unknowns)"
_c("C01", "other", "Operation.backward (symbolic arity, arbitrary aliasing and prior gradients, all result kinds of backward_var) and reduce_broadcast / grad_post_process_fn are discharged deductively; "
   "whole-program exactness additionally rests on C02 and the chain-rule lemma and is cross-checked by a bounded run-time contract against the numeric derivative of the NumPy twin.",
   "DESIGN.md §6 C01, §14", "trusted: pyvc/graphdom.py NumPy axioms, abstract backward_var contract, chain rule; reals for floats; pointwise value abstraction; topological collector not yet under contract (bounded)", _T + "; bounded program catalogue")
_c("C02", "other", "Every elementwise op/activation (own __call__/backward_var ASTs) has VJP, frame and alias contracts discharged by z3 for all real inputs; the 16 rearrangement / joining operations "
   "(transpose family, roll, reshape family, broadcast_to, concatenate, stack) and Sum / Mean have their VJP discharged in the index-function domain for symbolic extents and shifts (ranks and axis arguments enumerated); every other "
   "Operation subclass (complete AST enumeration) is under a bounded run-time VJP contract over an enumerated catalogue, reported separately.",
   "DESIGN.md §6 C02, §14", "trusted: contracts/derivative_table.py, identity basis in pyvc/realdom.py, NumPy kernels = mathematical namesakes, pyvc/idxdom.py (NumPy's definitions of the rearrangement routines over index tuples), reals for floats, "
   "mathematical integers for shifts; bounded: numeric central differences as oracle", _T + " (NRA / LIA with proved multiplication lemma instances); bounded VJP contract for the remaining kernels")
_c("C03", "other", "Kernel-forwarding contracts of UnaryUfunc/BinaryUfunc/Sequential.__call__ for every concrete op class are discharged; the forward of the 15 rearrangement / joining operations equals NumPy's definition of the same call "
   "in shape and in every element for symbolic extents (C03.struct, index-function domain); value/shape/dtype agreement with NumPy over operand kinds x options is a bounded contract with NumPy as oracle.",
   "DESIGN.md §6 C03, §14", "trusted: NumPy as oracle; casting in Tensor._op and thin wrappers bounded only; known finding F9", _T + "; bounded differential contract vs NumPy")
_c("C04", "other", "mirror_tensor and reroute_ops_through (symbolic consumer sets / operand tuples, loop invariant) discharged; NumPy-mirror claim for whole statements is a bounded per-statement contract over programs and enumerated histories.",
   "DESIGN.md §6 C04, §14", "trusted: NumPy as oracle, heap model; _in_place_op / shape.setter as wholes bounded only", _T + "; bounded history enumeration vs NumPy")
_c("C05", "other", "ApplyMask / UnView backward rules discharged; graph consistency under in-place updates is a bounded contract against the numeric derivative of the NumPy twin.",
   "DESIGN.md §6 C05, §14", "trusted: NumPy in-place semantics as specification; SetItem VJP and graph surgery bounded", _T + "; bounded functional-twin contract")
_c("C06", "other", "Layout/ownership invariant of every gradient stored by Operation.backward discharged; availability/value/sharing of view gradients is a bounded contract over view chains x contribution orders x C/F layouts.",
   "DESIGN.md §6 C06, §14", "trusted: layout axioms of np.copy/astype/empty_like; getter Tensor.grad bounded only", _T + "; bounded view-chain contract")
_c("C07", "other", "clear_graph (per call, own contract for recursion), null_grad and pull-before-clear discharged; release by refcount, staleness and bit-identical repetition are bounded (weakrefs, gc disabled).",
   "DESIGN.md §6 C07, §14", "trusted: CPython refcounting; closure over the whole graph follows by induction (not machine-checked)", _T + "; bounded liveness contract")
_c("C08", "other", "Per-call contracts of array_is_tracked, lock_arr_writeability and the decision part of _release_lock_on_arr_writeability discharged for arbitrary table contents; history-level invariant is bounded.",
   "DESIGN.md §6 C08, §14", "assumes id() injective, atomic finalizers; waiting-view loop and unique_arrs_and_bases bounded only", _T + " (symbolic dict/Counter/defaultdict); bounded history enumeration")
_c("C09", "other", "Raise condition of the back-propagation step discharged for all arities; history-level claim is a bounded interleaving contract; known finding F4.",
   "DESIGN.md §6 C09, §14", "stale-consumer invariant over histories not provable on this tree (F4)", _T + "; bounded interleavings")
_c("C10", "other", "Dtype gate / default flag of Tensor.__init__, _resolve_constant and no-gradient-for-constants in Operation.backward discharged; inference over programs is bounded.",
   "DESIGN.md §6 C10, §14", "trusted: abstract dtype lattice = NumPy issubclass tests", _T + "; bounded flag lattice")
_c("C11", "other", "Operator call-equivalence (all arithmetic/indexing dunders) discharged on the AST; dispatch registries enumerated completely; spellings x options compared boundedly.",
   "DESIGN.md §6 C11, §14", "trusted: NumPy dispatch protocol; known finding F9 shared with C03", _T + "; exhaustive registry enumeration; bounded spelling comparison")
_c("C12", "other", "Ownership/no-alias invariant (OWNG) of Operation.backward and the write frames of all elementwise backward rules discharged; checksums and pairwise shares_memory over catalogue and every registered op are bounded; known finding F6.",
   "DESIGN.md §6 C12, §14", "frames of non-elementwise kernels (incl. numba) bounded only", _T + "; bounded checksum contract")
_c("C13", "other", "Lock/release round trip and rerouting primitive discharged; no-trace for whole statements is a bounded fault-injection contract (every position x 15 failing kinds x epochs).",
   "DESIGN.md §6 C13, §14", "Tensor._op / _in_place_op exceptional paths bounded only", _T + "; bounded fault injection")
_c("C14", "other", "I1 (type/shape/dtype) for Operation.backward and reduce_broadcast discharged; all writers of _grad enumerated from the AST on every run; seeding identities bounded; known finding F5b.",
   "DESIGN.md §6 C14, §14", "seed path of Tensor.backward and GRU writers bounded only", _T + "; AST writer enumeration; bounded seeding contract")
_c("C15", "proof", "Every obligation the property rests on -- enter/exit/decorator contracts of the three managers for arbitrary depth, state accessors, toggles, nesting lemma, untracked fast paths of _op/_in_place_op/backward/shape.setter -- is discharged by PyVC+z3; bounded nesting enumeration is a cross-check.",
   "DESIGN.md §6 C15, §14", "trusted: Python `with` semantics as encoded in the executor; lemma is over contracts", _T)
_c("C16", "other", "sliding_window_view (acceptance, shape, element identity as byte offsets for arbitrarily strided inputs under NumPy's contiguity-flag definition, in-bounds, read-only) and conv/pool validity incl. callee precondition discharged for unbounded integer values (enumerated dimension counts); layer values are a bounded contract vs naive formulas; known finding F8.",
   "DESIGN.md §6 C16, §14", "trusted: as_strided addressing, definition of flags.C_CONTIGUOUS, ascontiguousarray; numeric kernels bounded", _T + " (NIA); bounded naive-formula contract")
_c("C17", "other", "tensor()/astensor()/asarray() return-as-is rules and the Tensor.__init__ gate discharged; aliasing/dtype/creation agreement with NumPy is bounded over the input lattice.",
   "DESIGN.md §6 C17, §14", "np.array/np.asarray aliasing is an axiom checked boundedly", _T + "; bounded input lattice")
_c("C18", "other", "save/load call structure discharged with the savez/load axiom; end-to-end round trip bounded.",
   "DESIGN.md §6 C18, §14", "trusted: np.savez/np.load round trip; known finding F39 (load inside no_autodiff)", _T + "; bounded round trips")

PENDING_REASON = "check under construction in this commit (see DESIGN.md §14 build log); not yet claimed"


def main():
    props = [json.loads(l)["id"] for l in open(os.path.join(HERE, "properties.jsonl"))]
    checks = []
    for pid in props:
        if pid not in CHECKS:
            continue
        c = CHECKS[pid]
        checks.append(
            dict(
                property_id=pid,
                quick_cmd=f"bin/check {pid} --tier quick",
                thorough_cmd=f"bin/check {pid} --tier thorough",
                evidence_file=f"/verif/evidence/{pid}.json",
                replay_cmd_template=f"bin/check {pid} --replay {{path}}",
                engine="pyvc",
                level_claimed=dict(category=c["category"], text=c["text"], design_ref=c["design_ref"]),
                level_note=c["note"],
                technique=c["technique"],
            )
        )
    na = [dict(property_id=p, reason=NOT_APPLICABLE.get(p, PENDING_REASON)) for p in props if p not in CHECKS]
    m = dict(
        version=1,
        setup_cmd="sh bin/setup",
        hooks=dict(
            guard="MYGRAD_VERIF",
            enable="no source hooks: contracts are sidecar files under /verif/contracts and monitors are attached at run time by /verif/runtime (MYGRAD_VERIF=1 is exported for them)",
            baseline_off_cmd="cd /repo && /venv/bin/python -m pytest -ra -q -p no:cacheprovider --timeout=900 --continue-on-collection-errors -n 16",
            source_commits=SOURCE_COMMITS,
            add_only=True,
        ),
        engines=[
            dict(
                name="pyvc",
                path="/verif/pyvc",
                serves_properties=sorted(CHECKS),
                kind_free_text="self-written VC generator: symbolic execution of the real function ASTs re-read from /repo on every run, "
                "sidecar contracts (/verif/contracts), obligations discharged by z3 (cvc5 for z3's unknowns); bounded run-time contract "
                "monitors (/verif/runtime, under /venv/bin/python) as labelled stand-in",
            )
        ],
        checks=checks,
        notes="Exit codes of every check: 0 held, 1 violation (VIOLATION line), 2 undecided/out-of-subset, 3 checker crash. "
        "Known findings: /verif/known_findings.json.",
        not_applicable=na,
    )
    with open(os.path.join(HERE, "MANIFEST.json"), "w") as f:
        json.dump(m, f, indent=1)
    print("MANIFEST.json written:", len(checks), "checks,", len(na), "not claimed")


NOT_APPLICABLE = {}
SOURCE_COMMITS = []

if __name__ == "__main__":
    main()
