"""Regenerates MANIFEST.json from the table below (kept in one place so it stays valid)."""
import json
import os

HERE = os.path.dirname(os.path.dirname(os.path.abspath(__file__)))

CHECKS = {
    "C02": dict(
        category="other",
        text="Mixed: every elementwise op/activation (own __call__/backward_var ASTs from /repo) has its VJP, frame and alias contracts "
        "discharged by PyVC+z3 for all real inputs; every other Operation subclass (complete AST enumeration) is under a bounded "
        "run-time VJP contract over an enumerated catalogue, reported separately and never counted as proved.",
        design_ref="DESIGN.md §6 C02, §14",
        note="trusted: contracts/derivative_table.py, identity basis in pyvc/realdom.py, NumPy kernels = mathematical namesakes, "
        "reals for floats, z3/cvc5; bounded part: numeric central differences as oracle",
        technique="contract-based deductive verification: AST->VC symbolic execution of real ops, z3 NRA; bounded run-time VJP contract for kernels",
    ),
}

PENDING_REASON = "check under construction in this commit (see DESIGN.md §14 build log); not yet claimed"


def main():
    props = [json.loads(l)["id"] for l in open(os.path.join(HERE, "properties.jsonl"))]
    checks = []
    for pid in props:
        if pid not in CHECKS:
            continue
        c = CHECKS[pid]
        checks.append(
            dict(
                property_id=pid,
                quick_cmd=f"bin/check {pid} --tier quick",
                thorough_cmd=f"bin/check {pid} --tier thorough",
                evidence_file=f"/verif/evidence/{pid}.json",
                replay_cmd_template=f"bin/check {pid} --replay {{path}}",
                engine="pyvc",
                level_claimed=dict(category=c["category"], text=c["text"], design_ref=c["design_ref"]),
                level_note=c["note"],
                technique=c["technique"],
            )
        )
    na = [dict(property_id=p, reason=NOT_APPLICABLE.get(p, PENDING_REASON)) for p in props if p not in CHECKS]
    m = dict(
        version=1,
        setup_cmd="sh bin/setup",
        hooks=dict(
            guard="MYGRAD_VERIF",
            enable="no source hooks: contracts are sidecar files under /verif/contracts and monitors are attached at run time by /verif/runtime (MYGRAD_VERIF=1 is exported for them)",
            baseline_off_cmd="cd /repo && /venv/bin/python -m pytest -ra -q -p no:cacheprovider --timeout=900 --continue-on-collection-errors -n 16",
            source_commits=SOURCE_COMMITS,
            add_only=True,
        ),
        engines=[
            dict(
                name="pyvc",
                path="/verif/pyvc",
                serves_properties=sorted(CHECKS),
                kind_free_text="self-written VC generator: symbolic execution of the real function ASTs re-read from /repo on every run, "
                "sidecar contracts (/verif/contracts), obligations discharged by z3 (cvc5 for z3's unknowns); bounded run-time contract "
                "monitors (/verif/runtime, under /venv/bin/python) as labelled stand-in",
            )
        ],
        checks=checks,
        notes="Exit codes of every check: 0 held, 1 violation (VIOLATION line), 2 undecided/out-of-subset, 3 checker crash. "
        "Known findings: /verif/known_findings.json.",
        not_applicable=na,
    )
    with open(os.path.join(HERE, "MANIFEST.json"), "w") as f:
        json.dump(m, f, indent=1)
    print("MANIFEST.json written:", len(checks), "checks,", len(na), "not claimed")


NOT_APPLICABLE = {}
SOURCE_COMMITS = []

if __name__ == "__main__":
    main()
