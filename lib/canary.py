"""Canary mutants: one-line property-breaking edits applied to a scratch copy of src/mygrad (under a
temp dir outside /repo and /verif, removed afterwards).  Each must turn a named obligation of the
deductive layer red; a canary that stays green means the *checker* is too weak (exit 3), it is not a
statement about the repository."""
from __future__ import annotations

import json
import os
import re
import shutil
import subprocess
import sys
import tempfile

HERE = os.path.dirname(os.path.dirname(os.path.abspath(__file__)))

# (id, contracts module, relative file, old text, new text, regex an obligation that must fail matches)
CANARIES = [
    ("cos-sign", "c02_elem", "math/trigonometric/ops.py", "return grad * -np.sin(a.data)", "return grad * np.sin(a.data)", r"C02\.elem\.Cos\.0\.vjp"),
    ("logaddexp-swap", "c02_elem", "math/exp_log/ops.py", "return grad / (1 + np.exp(b.data - a.data))", "return grad / (1 + np.exp(a.data - b.data))", r"C02\.elem\.Logaddexp\.0"),
    ("arccosh-plus", "c02_elem", "math/hyperbolic_trig/ops.py", "return grad / np.sqrt(a.data**2 - 1)", "return grad / np.sqrt(a.data**2 + 1)", r"C02\.elem\.Arccosh"),
    ("arctan2-cache", "c02_elem", "math/trigonometric/ops.py", "self.cached_denom = a.data**2 + b.data**2", "self.cached_denom = a.data**2 + b.data", r"C02\.elem\.Arctan2"),
    ("square-inplace-grad", "c02_elem", "math/arithmetic/ops.py", "        grad = 2 * grad\n        grad *= self.variables[index].data", "        grad *= 2 * self.variables[index].data", r"C12\.frame\.Square"),
    ("max-tie", "c02_elem", "math/misc/ops.py", "            equal_mask = a.data == b.data\n", "            equal_mask = a.data != a.data\n", r"C02\.elem\.(Maximum|Minimum)\.1"),
    ("abs-at-zero", "c02_elem", "math/misc/ops.py", "[a.data < 0, a.data == 0, a.data > 0]", "[a.data < 0, a.data != a.data, a.data >= 0]", r"C02\.elem\.Abs\.0"),
    ("sigmoid-cache", "c02_elem", "nnet/activations/sigmoid.py", "return grad * self.sigmoid * (1.0 - self.sigmoid)", "return grad * self.sigmoid * (1.0 + self.sigmoid)", r"C02\.elem\.Sigmoid"),
    ("power-where", "c02_elem", "math/arithmetic/ops.py", "np.log(np.where(x, x, 1))", "np.log(np.where(x, x, 2))", None),  # x=0 is outside the domain: must stay green
    ("swv-drop-dilation-fit", "c16_swv", "nnet/layers/utils.py", "            w * d > s\n", "            w > s\n", r"C16\.swv.*(returns_only_if_accepted|in_bounds)"),
    ("swv-shape-off-by-one", "c16_swv", "nnet/layers/utils.py", "(in_shape - ((window_shape - 1) * dilation + 1)) // step + 1", "(in_shape - ((window_shape - 1) * dilation)) // step + 1", r"C16\.swv.*out_shape"),
    ("swv-writeable", "c16_swv", "nnet/layers/utils.py", "strides=stride, writeable=False)", "strides=stride, writeable=True)", r"C16\.swv.*read_only"),
    ("swv-stride-no-dilation", "c16_swv", "nnet/layers/utils.py", "    win_stride[-len(step) :] *= dilation\n", "", r"C16\.swv.*element_offset\.window"),
    ("swv-window-fit-ge", "c16_swv", "nnet/layers/utils.py", "if any(i > j for i, j in zip(window_shape[::-1], arr.shape[::-1])):", "if any(i >= j for i, j in zip(window_shape[::-1], arr.shape[::-1])):", r"C16\.swv.*raises_only_if_rejected"),
    ("swv-no-contig", "c16_swv", "nnet/layers/utils.py", "    if not arr.flags[\"C_CONTIGUOUS\"]:\n        arr = np.ascontiguousarray(arr)\n", "", r"C16\.swv.*element_offset"),
    ("swv-nbyte-from-last-stride", "c16_swv", "nnet/layers/utils.py", "    nbyte = arr.itemsize  #", "    nbyte = arr.strides[-1]  #", r"C16\.swv.*element_offset"),
    ("swv-trailing-contig-only", "c16_swv", "nnet/layers/utils.py", "    if not arr.flags[\"C_CONTIGUOUS\"]:\n        arr = np.ascontiguousarray(arr)\n", "    if arr.strides[-1] != arr.itemsize:\n        arr = np.ascontiguousarray(arr)\n", r"C16\.swv.*element_offset"),
    ("swv-step-zero-ok", "c16_swv", "nnet/layers/utils.py", "if not all(isinstance(i, Integral) and i > 0 for i in step):", "if not all(isinstance(i, Integral) and i >= 0 for i in step):", r"C16\.swv.*(returns_only_if_accepted|raise_kind)"),
    ("step-assign-not-accumulate", "c01_step", "operation_base.py", "                var._grad += backed_grad", "                var._grad = backed_grad", r"inv_step\.(C01\.acc|C12\.OWNG)"),
    ("step-constants-get-grad", "c01_step", "operation_base.py", "            if var.constant:\n                continue\n", "", r"inv_step\.(C10\.constants_untouched|C01\.has)|C09\.raise"),
    ("step-no-cleared-check", "c01_step", "operation_base.py", "            if not var._ops:\n", "            if False:\n", r"C09\.raise\.no_silent_pass"),
    ("step-no-copy-of-grad", "c01_step", "operation_base.py", "                    or (backed_grad is grad)\n", "", r"inv_step\.C12\.OWNG\.not_incoming_grad"),
    ("step-no-copy-of-view", "c01_step", "operation_base.py", "                    backed_grad.base is not None\n                    or (backed_grad is grad)", "                    (backed_grad is grad)", r"inv_step\.C12\.OWNG\.owner"),
    ("step-no-dtype-cast", "c01_step", "operation_base.py", "                    or backed_grad.dtype != var.dtype\n", "", r"inv_step\.C14\.I1\.dtype"),
    ("step-no-layout", "c01_step", "operation_base.py", "                    or backed_grad.strides != var.data.strides\n", "", r"inv_step\.C06\.I1prime\.layout"),
    ("step-where-dropped", "c01_step", "operation_base.py", "                backed_grad = np.where(self.where, backed_grad, 0)\n", "                pass\n", r"\[?.*inv_step\.C01\.acc"),
    ("step-no-post-process", "c01_step", "operation_base.py", "            backed_grad = self.grad_post_process_fn(backed_grad, var.shape)\n", "", r"inv_step\.(C14\.I1\.shape|C01\.acc)|no_other_exception"),
    ("step-wrong-index", "c01_step", "operation_base.py", "backed_grad = self.backward_var(grad, index, **kwargs)", "backed_grad = self.backward_var(grad, 0, **kwargs)", r"backward_var_receives_index"),
    ("step-skip-swallows-all", "c01_step", "operation_base.py", "            except SkipGradient:\n                continue", "            except Exception:\n                continue", None),
    ("step-first-input-only", "c01_step", "operation_base.py", "        for index, var in enumerate(self.variables):", "        for index, var in enumerate(self.variables[:1]):", r"backward#loop0\.iterates_over_the_contracted_sequence"),
    ("step-enumerate-from-one", "c01_step", "operation_base.py", "        for index, var in enumerate(self.variables):", "        for index, var in enumerate(self.variables, 1):", r"iterates_over_the_contracted_sequence|backward_var_receives_index"),
    ("topo-first-input-only", "c01_topo", "_utils/__init__.py", "        for t_loop in t.creator.variables:", "        for t_loop in t.creator.variables[:1]:", r"iterates_over_the_contracted_sequence"),
    ("sweep-skips-last", "c14_seed", "tensor_base.py", "            for t in topo_sorted_tensors:\n                t._backward()", "            for t in list(topo_sorted_tensors)[:-1]:\n                t._backward()", r"iterates_over_the_contracted_sequence"),
    ("topo-append-right", "c01_topo", "_utils/__init__.py", "    topo_sorted_tensors.appendleft(t)", "    topo_sorted_tensors.append(t)", r"C01\.topo\.post\.(new_left_of_old|topo)|inv_step"),
    ("topo-no-seen-test", "c01_topo", "_utils/__init__.py", "    if id_ in seen:\n        return\n", "", r"C01\.topo\.post\.(old_positions_kept|distinct)"),
    ("topo-into-constants", "c01_topo", "_utils/__init__.py", "    if t.constant:\n        return\n", "", r"C01\.topo\.(post|callee_requires)\.members_nonconstant|new_members"),
    ("topo-no-nulling", "c01_topo", "_utils/__init__.py", "    t._view_grad = None\n    t._grad = None\n", "    t._view_grad = None\n", r"receiver_grads_none|C07\.null"),
    ("topo-skip-leaf-inputs", "c01_topo", "_utils/__init__.py", "            collect_all_tensors_and_clear_grads(t_loop, seen, topo_sorted_tensors)", "            if t_loop.creator is not None:\n                collect_all_tensors_and_clear_grads(t_loop, seen, topo_sorted_tensors)", r"inputs_done|closed"),
    ("topo-seen-before-recursion", "c01_topo", "_utils/__init__.py", "    _marked.remove(id_)\n    seen.add(id_)\n    topo_sorted_tensors.appendleft(t)", "    _marked.remove(id_)\n    topo_sorted_tensors.appendleft(t)", r"C01\.topo\.post\.(receiver_member|seen_grows|closed)"),
    ("op-null-on-numpy-base", "c_op", "tensor_base.py", "                if base is None:\n                    # non-view ops clear grads", "                if op_out_base is None:\n                    # non-view ops clear grads", r"C07\.null\.operand"),
    ("op-no-release-on-failure", "c_op", "tensor_base.py", "                _mem.release_writeability_lock_on_op(_uniques_bases_then_arrs)\n            raise e", "                pass\n            raise e", r"C08\.op\.failed_op_releases"),
    ("op-swallow-exception", "c_op", "tensor_base.py", "                _mem.release_writeability_lock_on_op(_uniques_bases_then_arrs)\n            raise e", "                _mem.release_writeability_lock_on_op(_uniques_bases_then_arrs)\n            raise", None),
    ("waitloop-busy-view-released", "c08_locks", "_utils/lock_management.py", "            if _array_counter[view_arr_id] > 0:\n                # view involved in new op\n                continue\n", "", r"C08\.release\.iteration\.view_in_use_keeps_waiting"),
    ("waitloop-not-removed", "c08_locks", "_utils/lock_management.py", "            _views_waiting_for_unlock[arr_id].remove(view_arr_id)\n", "", r"C08\.release\.iteration\.idle_view_leaves"),
    ("waitloop-tracker-kept", "c08_locks", "_utils/lock_management.py", "                view_arr = _array_tracker.pop(view_arr_id)()", "                view_arr = _array_tracker[view_arr_id]()", r"C08\.release\.iteration\.idle_view_leaves"),
    ("waitloop-flag-not-restored", "c08_locks", "_utils/lock_management.py", "                view_arr.flags.writeable = True\n", "                view_arr.flags.writeable = False\n", r"C08\.release\.iteration\.idle_live_view_made_writeable"),
    ("waitloop-busy-test-inverted", "c08_locks", "_utils/lock_management.py", "            if _array_counter[view_arr_id] > 0:\n", "            if _array_counter[view_arr_id] >= 0:\n", r"C08\.release\.iteration\.(idle_view_leaves|idle_live)"),
    ("lockset-single-phase", "c08_sets", "_utils/lock_management.py", "    return tuple(\n        lock_arr_writeability(arr)\n        for arr, read_only in zip(arrs, natively_read_only)\n        if not read_only\n    )", "    return tuple(lock_arr_writeability(arr) for arr in arrs)", r"C08\.lockset.*natively_read_only_array_left_alone"),
    ("lockset-ignores-tracked-base", "c08_sets", "_utils/lock_management.py", "        and (arr.base is None or not array_is_tracked(arr.base))\n        for arr in arrs", "        for arr in arrs", r"C08\.lockset.*every_other_array_locked_once"),
    ("astype-false-treated-as-unspecified", "c10_astype", "tensor_base.py", "        if cast_data is self.data and (constant is None or self.constant is constant):", "        if cast_data is self.data and (not constant or self.constant is constant):", r"C10\.astype\[self\.constant=True,constant=False,same_array=True"),
    ("astype-drops-flag", "c10_astype", "tensor_base.py", "        return type(self)(cast_data, copy=False, constant=constant)", "        return type(self)(cast_data, copy=False)", r"C10\.astype.*new_tensor_gets_the_requested_flag"),
    ("astype-copies-twice", "c10_astype", "tensor_base.py", "        return type(self)(cast_data, copy=False, constant=constant)", "        return type(self)(cast_data, constant=constant)", r"C10\.astype.*new_tensor_gets_the_requested_flag"),
    ("shape-setter-keeps-old-gradient", "c04_shape", "tensor_base.py", "        self.null_grad(_clear_view_info=True)\n\n        # create placeholders for self and all of its view-children", "        # create placeholders for self and all of its view-children", r"C07\.shape.*grad=some.*gradient_nulled_before"),
    ("shape-setter-nulls-before-validation", "c04_shape", "tensor_base.py", "        # raise here if the shape is not compatible\n        self.data.shape = newshape", "        self.null_grad(_clear_view_info=True)\n        # raise here if the shape is not compatible\n        self.data.shape = newshape", r"C13\.shape.*refused_shape_leaves_no_trace"),
    ("sweep-clears-graph-on-refusal", "c14_seed", "tensor_base.py", "            for t in topo_sorted_tensors:\n                t._backward()", "            try:\n                for t in topo_sorted_tensors:\n                    t._backward()\n            finally:\n                self.clear_graph()", r"C09\.sweep.*refusal_propagates_and_leaves_the_graph_uncleared"),
    ("op-no-release-on-refused-result", "c_op", "tensor_base.py", "            if _mem.MEM_GUARD:\n                _mem.release_writeability_lock_on_op(_uniques_bases_then_arrs)\n            raise e", "            raise e", r"C08\.op\.failed_op_releases.*refused_result"),
    ("seed-cast-skipped-for-float-seeds", "c14_seed", "tensor_base.py", "            _grad = asarray(grad, dtype=self.dtype)\n", "            _grad = asarray(grad)\n            if _grad.size <= 1 or _grad.dtype.kind != \"f\":\n                _grad = asarray(grad, dtype=self.dtype)\n", r"I1\.dtype"),
    ("op-base-of-parent-var", "c_op", "tensor_base.py", "base = parent_var if parent_var.base is None else parent_var.base", "base = parent_var", r"C04\.base\.result_base"),
    ("op-drop-shared-base-disjunct", "c_op", "tensor_base.py", "                    or (op_out_base is parent_data_base)\n", "", r"C04\.base\.(result_base|view_children)"),
    ("op-forget-view-child", "c_op", "tensor_base.py", "        if parent_var is not None:\n            parent_var._view_children.append(tensor_out)\n", "", r"C04\.base\.view_children"),
    ("op-constant-all-vs-any", "c_op", "tensor_base.py", "            if any(not var.constant for var in tensor_vars):", "            if all(not var.constant for var in tensor_vars):", r"C10\.infer"),
    ("op-lock-after-kernel", "c_op", "tensor_base.py", "            _mem.lock_arr_writeability(tensor_out.data)\n", "", r"C08\.op\.(locks_result|finalizer)"),
    ("op-wrap-copy", "c_op", "tensor_base.py", "                    cls(var, constant=True, copy=False)\n                    if not isinstance(var, Tensor)", "                    cls(var, constant=True, copy=True)\n                    if not isinstance(var, Tensor)", r"C03\.cast"),
    ("op-no-consumer-record", "c_op", "tensor_base.py", "        for var in tensor_vars:\n            var._ops.add(ref_f)\n", "        for var in tensor_vars[:1]:\n            var._ops.add(ref_f)\n", r"op\.consumer_recorded"),
    ("op-replay-constant-lost", "c_op", "tensor_base.py", "            f.replay_force_constant = constant\n", "            f.replay_force_constant = None\n", r"C04\.base\.replay_info"),
    # ---- lock primitives (c08_locks) ----------------------------------------------------------------------------------
    ("lock-count-reset", "c08_locks", "_utils/lock_management.py", "        _array_counter[arr_id] += 1\n", "        _array_counter[arr_id] = 1\n", r"C08\."),
    ("lock-flag-not-cleared", "c08_locks", "_utils/lock_management.py", "    if arr.flags.writeable is True:\n        arr.flags.writeable = False\n", "", r"C08\."),
    ("release-decrement-two", "c08_locks", "_utils/lock_management.py", "        _array_counter[arr_id] = num_active_ops - 1", "        _array_counter[arr_id] = num_active_ops - 2", r"C08\."),
    ("release-ignores-locked-base", "c08_locks", "_utils/lock_management.py", "        if arr.base is not None and arr.base.flags.writeable is False:", "        if False:", r"C08\."),
    ("release-waiting-views-on-every-release", "c08_locks", "_utils/lock_management.py", "        arr.base is None\n        and arr.flags.writeable\n        and (arr_id in _views_waiting_for_unlock)", "        arr.base is None\n        and num_active_ops > 0\n        and (arr_id in _views_waiting_for_unlock)", r"C08\.release\.waiting_views_(processed_only_when_owner_is_writeable_again|not_skipped)"),
    ("release-waiting-views-never", "c08_locks", "_utils/lock_management.py", "        and (arr_id in _views_waiting_for_unlock)\n    ):", "        and False\n    ):", r"C08\.release\.waiting_views_not_skipped"),
    ("tracked-ignores-dead-ref", "c08_locks", "_utils/lock_management.py", "    return arr_id in _array_tracker and _array_tracker[arr_id]() is not None", "    return arr_id in _array_tracker", r"C08\."),
    # ---- reduce_broadcast (c01_rb) --------------------------------------------------------------------------------------
    ("rb-keepdims-eq", "c01_rb", "_utils/__init__.py", "if i != var_shape[n])", "if i == var_shape[n])", r"C01\.rb"),
    ("rb-no-leading-sum", "c01_rb", "_utils/__init__.py", "        grad = grad.sum(axis=tuple(range(grad.ndim - len(var_shape))))\n", "", r"C01\.rb"),
    ("rb-no-keepdims", "c01_rb", "_utils/__init__.py", "        grad = grad.sum(axis=keepdims, keepdims=True)", "        grad = grad.sum(axis=keepdims)", r"C01\.rb"),
    # ---- graph primitives (c04_graph) -----------------------------------------------------------------------------------
    ("reroute-swapped", "c04_graph", "_utils/duplicating_graph.py", "            var_ if var_ is not source else target for var_ in op.variables", "            var_ if var_ is not target else source for var_ in op.variables", r"reroute_ops_through#loop0\.inv_step\.vars"),
    ("mirror-no-copy", "c04_graph", "_utils/duplicating_graph.py", "    target.__dict__ = source.__dict__.copy()", "    target.__dict__ = source.__dict__", r"C04\.mirror\.dict_is_a_fresh_copy"),
    ("reroute-first-op-only", "c04_graph", "_utils/duplicating_graph.py", "    for op in source._ops:\n        op = op()", "    for op in list(source._ops)[:1]:\n        op = op()", r"reroute_ops_through#loop0\.iterates_over"),
    ("copy-shares-grad", "c04_graph", "tensor_base.py", "        copy._grad = np.copy(self._grad) if self._grad is not None else None", "        copy._grad = self._grad", r"C04\.|C12\."),
    ("copy-constant-ignored", "c04_graph", "tensor_base.py", "            constant=(self.constant if constant is None else constant),\n        )\n        copy._grad", "            constant=self.constant,\n        )\n        copy._grad", r"C04\.|C10\."),
    # ---- ApplyMask / UnView (c05_ops) -----------------------------------------------------------------------------------
    ("applymask-not-dropped", "c05_ops", "_utils/duplicating_graph.py", "            return grad * logical_not(self._mask)", "            return grad * self._mask", r"C05\."),
    ("unview-base-not-zeroed", "c05_ops", "_utils/duplicating_graph.py", "            grad_view *= 0\n", "", r"C05\."),
    ("unview-base-no-copy", "c05_ops", "_utils/duplicating_graph.py", "            grad = grad.copy(order=\"K\")\n            grad_view = grad\n", "            grad_view = grad\n", r"C05\.|C12\."),
    # ---- clear_graph / null_grad (c07_clear) ----------------------------------------------------------------------------
    ("clear-keeps-ops", "c07_clear", "tensor_base.py", "        self._view_children.clear()\n        self._ops.clear()\n", "        self._view_children.clear()\n", r"C07\."),
    ("clear-keeps-creator", "c07_clear", "tensor_base.py", "        self._creator = None  # marks tensor as \"visited\" during graph-traversal\n\n        for var in creator.variables:", "        for var in creator.variables:", r"clear_graph#loop0\.inv_init\.own_cleared|C07\.clear\.creator_dropped_before_recursion"),
    ("clear-first-input-only", "c07_clear", "tensor_base.py", "        for var in creator.variables:  # type: \"Tensor\"\n            var.clear_graph()", "        for var in creator.variables[:1]:  # type: \"Tensor\"\n            var.clear_graph()", r"clear_graph#loop0\.iterates_over_the_contracted_sequence"),
    # ---- construction (c10_init, c17_tensor) ----------------------------------------------------------------------------
    ("resolve-constant-any", "c10_init", "tensor_base.py", "        if isinstance(other, Tensor) and not other.constant:\n            # let subsequent tensor casting infer constant from dtype\n            return None", "        if isinstance(other, Tensor) and not other.constant:\n            # let subsequent tensor casting infer constant from dtype\n            return False", r"C10\."),
    ("resolve-constant-ignores-flag", "c10_init", "tensor_base.py", "    if constant is not None:\n        return constant\n    for other in others:", "    for other in others:", r"C10\."),
    # ---- seed (c14_seed) ------------------------------------------------------------------------------------------------
    ("seed-no-dtype", "c14_seed", "tensor_base.py", "            _grad = asarray(grad, dtype=self.dtype)\n", "            _grad = asarray(grad)\n", r"C14\."),
    ("seed-ones-not-like", "c14_seed", "tensor_base.py", "            _grad = np.full_like(self.data, fill_value=1.0)\n\n        self._grad = _grad", "            _grad = np.full_like(self.data, fill_value=2.0)\n\n        self._grad = _grad", r"C14\.|C01\."),
    ("seed-mutual-broadcast-ok", "c14_seed", "tensor_base.py", "                    if _grad.shape != self.shape:\n                        # mutual broadcasting occurred\n                        raise ValueError()\n", "", r"C14\."),
    ("seed-layout-kept", "c14_seed", "tensor_base.py", "            if _grad.strides != self.data.strides:\n", "            if False:\n", r"C14\.seed.*C06\.layout"),
    ("seed-layout-empty-not-like-data", "c14_seed", "tensor_base.py", "                _seed, _grad = _grad, np.empty_like(self.data)\n", "                _seed, _grad = _grad, np.empty_like(_grad)\n", r"C14\.seed.*C06\.layout"),
    ("seed-layout-copy-forgets-values", "c14_seed", "tensor_base.py", "                _grad[...] = _seed\n", "                pass\n", r"C14\.seed.*value_of_g"),
    ("backward-no-final-clear", "c14_seed", "tensor_base.py", "                t._backward()\n\n        self.clear_graph()", "                t._backward()\n", r"C07\.|C14\.|C01\."),
    # ---- io (c18_io) ----------------------------------------------------------------------------------------------------
    ("save-drops-grad", "c18_io", "_io.py", "        np.savez(file, data=tensor.data, grad=tensor.grad)", "        np.savez(file, data=tensor.data)", r"C18\."),
    ("save-accepts-arrays", "c18_io", "_io.py", "    if not isinstance(tensor, tb.Tensor):", "    if not isinstance(tensor, (tb.Tensor, np.ndarray)):", r"C18\."),
    ("load-ignores-grad", "c18_io", "_io.py", "    if \"grad\" in loaded:\n        loaded_tensor.backward(loaded[\"grad\"])\n", "", r"C18\."),
    # ---- kernel forwarding / wrappers / dunders (c03_wrap, c03_wrappers, c11_dunder) ----------------------------------------
    ("mask-recorded-by-reference", "c03_wrap", "operation_base.py", "            self.where = np.array(where, copy=True)\n", "            self.where = where\n", r"C03\.kernel.*mask_recorded_iff_passed"),
    ("unary-drops-dtype", "c03_wrap", "operation_base.py", "        return self.numpy_ufunc(x1.data, out=out, where=where, dtype=dtype)", "        return self.numpy_ufunc(x1.data, out=out, where=where)", r"C03\."),
    ("binary-swaps-operands", "c03_wrap", "operation_base.py", "self.numpy_ufunc(x1.data, x2.data,", "self.numpy_ufunc(x2.data, x1.data,", r"C03\."),
    ("sequential-drops-ddof", "c03_wrap", "operation_base.py", "        if ddof is not _NoValue:\n            kwargs[\"ddof\"] = ddof\n", "", r"C03\."),
    ("sequential-axis-not-forwarded", "c03_wrap", "operation_base.py", "        out = self.numpy_func(a.data, axis=axis, out=out, **kwargs)", "        out = self.numpy_func(a.data, axis=None, out=out, **kwargs)", r"C03\."),
    ("var-drops-ddof", "c03_wrappers", "math/sequential/funcs.py", "        Variance,\n        x,\n        op_kwargs={\"axis\": axis, \"keepdims\": keepdims, \"ddof\": ddof},", "        Variance,\n        x,\n        op_kwargs={\"axis\": axis, \"keepdims\": keepdims, \"ddof\": 0},", r"C03\."),
    ("mean-constant-dropped", "c03_wrappers", "math/sequential/funcs.py", "        Mean, x, op_kwargs={\"axis\": axis, \"keepdims\": keepdims}, constant=constant", "        Mean, x, op_kwargs={\"axis\": axis, \"keepdims\": keepdims}, constant=None", r"C03\.|C10\."),
    ("rsub-not-reflected", "c11_dunder", "tensor_base.py", "        return self._op(Subtract, other, self)", "        return self._op(Subtract, self, other)", r"C11\."),
    ("rmatmul-not-reflected", "c11_dunder", "tensor_base.py", "        return self._op(MatMul, other, self)", "        return self._op(MatMul, self, other)", r"C11\."),
    ("neg-is-pos", "c11_dunder", "tensor_base.py", "        return self._op(Negative, self)", "        return self._op(Positive, self)", r"C11\."),
    ("isub-not-inplace", "c11_dunder", "tensor_base.py", "        self._in_place_op(Subtract, self, other)\n        return self", "        return self._op(Subtract, self, other)", r"C11\."),
    # ---- creation functions (c17_tensor) ------------------------------------------------------------------------------------
    ("astensor-copies", "c17_tensor", "tensor_base.py", "    return tensor(t, dtype=dtype, constant=constant, copy=False, ndmin=0)", "    return tensor(t, dtype=dtype, constant=constant, copy=True, ndmin=0)", r"C17\."),
    ("tensor-reuse-ignores-dtype", "c17_tensor", "tensor_base.py", "        if (constant is None or arr_like.constant is constant) and (\n            dtype is None or (arr_like.dtype == np.dtype(dtype))\n        ):", "        if (constant is None or arr_like.constant is constant):", r"C17\."),
    ("tensor-reuse-ignores-constant", "c17_tensor", "tensor_base.py", "        if (constant is None or arr_like.constant is constant) and (", "        if (True) and (", r"C17\.|C10\."),
    ("asarray-of-tensor-copies", "c17_tensor", "tensor_base.py", "        a = a.data  # faster than passing the tensor directly\n", "        a = a.data.copy()\n", r"C17\."),
    # ---- untracked paths (c15_untracked) ------------------------------------------------------------------------------------
    ("backward-ignores-tracking-switch", "c15_untracked", "tensor_base.py", "        if not _track.TRACK_GRAPH:\n            return\n\n        if self.constant:", "        if self.constant:", r"C15\."),
    ("untracked-op-keeps-creator", "c15_untracked", "tensor_base.py", "                copy=False,\n                _creator=None,\n                _base=None,\n            )", "                copy=False,\n                _creator=f,\n                _base=None,\n            )", r"C15\."),
    # ---- conv / pool validity (c16_valid) -----------------------------------------------------------------------------------
    ("conv-accepts-partial-tiling", "c16_valid", "nnet/layers/conv.py", "        if not all(i.is_integer() and i > 0 for i in out_shape):", "        if not all(i > 0 for i in out_shape):", r"C16\.valid\.conv"),
    ("conv-ignores-padding-in-validity", "c16_valid", "nnet/layers/conv.py", "            x_shape + 2 * padding - ((w_shape - 1) * dilation + 1)", "            x_shape - ((w_shape - 1) * dilation + 1)", r"C16\.valid\.conv"),
    ("pool-accepts-partial-tiling", "c16_valid", "nnet/layers/pooling.py", "        if not all(i.is_integer() and i > 0 for i in out_shape):", "        if not all(i > 0 for i in out_shape):", r"C16\.valid\.pool"),
    # ---- _in_place_op failure path (c13_inplace) and dispatch (c11_dispatch) ---------------------------------------------------
    ("inplace-except-narrowed", "c13_inplace", "tensor_base.py", "        except Exception as e:\n            graph.restore_old_graph()", "        except (ValueError, TypeError) as e:\n            graph.restore_old_graph()", r"C13\.inplace.*restore_old_graph_called_once"),
    ("inplace-no-restore", "c13_inplace", "tensor_base.py", "            graph.restore_old_graph()\n            self._grad, self._view_grad, self._base = _prior_state", "            self._grad, self._view_grad, self._base = _prior_state", r"C13\.inplace.*restore_old_graph_called_once"),
    ("inplace-prior-state-lost", "c13_inplace", "tensor_base.py", "            graph.restore_old_graph()\n            self._grad, self._view_grad, self._base = _prior_state\n", "            graph.restore_old_graph()\n", r"C13\.inplace.*prior_grad_view_grad_base_restored"),
    ("inplace-swallows", "c13_inplace", "tensor_base.py", "                _owner._grad = _prior_owner_grad\n            raise e", "                _owner._grad = _prior_owner_grad\n            return self", r"C13\.inplace.*(exception_propagates|same_exception)"),
    ("inplace-restore-twice", "c13_inplace", "tensor_base.py", "            graph.restore_old_graph()\n            self._grad,", "            graph.restore_old_graph()\n            graph.restore_old_graph()\n            self._grad,", r"C13\.inplace.*restore_old_graph_called_once"),
    ("ufunc-dispatch-asarray-const", "c11_dispatch", "tensor_base.py", "        return t.data\n    return t\n", "        return t.data\n    return asarray(t)\n", r"C11\.dispatch.*tensors_unwrapped"),
    ("ufunc-dispatch-self-only", "c11_dispatch", "tensor_base.py", "            caster = _as_constant_array\n", "            if self.constant is False:\n                raise ValueError()\n            caster = lambda t: t.data if isinstance(t, Tensor) else t\n", r"C11\.dispatch.*nonconstant_operand_rejected"),
    ("ufunc-dispatch-out-dropped", "c11_dispatch", "tensor_base.py", "            if out is not None:\n                kwargs[\"out\"] = caster(out)\n", "", r"C11\.dispatch.*out_unwrapped"),
    ("ufunc-dispatch-method-ignored", "c11_dispatch", "tensor_base.py", "            return getattr(ufunc, method)(*(caster(t) for t in inputs), **kwargs)", "            return ufunc(*(caster(t) for t in inputs), **kwargs)", r"C11\.dispatch.*method_forwarded"),
    ("function-dispatch-kwargs-not-unwrapped", "c11_dispatch", "tensor_base.py", "                    k: (v.data if isinstance(v, Tensor) else v)\n", "                    k: v\n", r"C11\.dispatch\.function.*tensors_unwrapped"),
    # ---- Tensor.grad getter (c06_getter) -----------------------------------------------------------------------------------------
    ("getter-cache-never-invalidated", "c06_getter", "tensor_base.py", "            and self._view_grad.base is self._base._grad\n", "", r"C06\.getter\.view\.window_onto_current_base_gradient"),
    ("getter-none-is-none", "c06_getter", "tensor_base.py", "            and self._base._grad is not None\n", "", r"C06\.getter\.view\.window_onto_current_base_gradient"),
    ("getter-replay-with-tracking", "c06_getter", "tensor_base.py", "        with _track.no_autodiff:\n            self._view_grad = self._replay_op(grad).data if grad is not None else None", "        if True:\n            self._view_grad = self._replay_op(grad).data if grad is not None else None", r"C06\.getter\.view\.replayed_without_graph_tracking"),
    ("getter-not-cached", "c06_getter", "tensor_base.py", "            self._view_grad = self._replay_op(grad).data if grad is not None else None\n        return self._view_grad", "            vg = self._replay_op(grad).data if grad is not None else None\n        return vg", r"C06\.getter\.view\.result_is_replayed_data_and_cached"),
    ("getter-window-onto-own-grad", "c06_getter", "tensor_base.py", "        grad = view_parent.grad\n", "        grad = view_parent._grad\n", r"C06\.getter\.view\.(replay_on_parents_gradient|window_onto)"),
    ("getter-owner-returns-cache", "c06_getter", "tensor_base.py", "            # a constant view does not take part in its base's gradient either\n            return self._grad\n", "            # a constant view does not take part in its base's gradient either\n            return self._view_grad\n", r"C06\.getter\.owner\.returns_own_grad"),
    ("getter-cache-test-against-buffer-owner", "c06_getter", "tensor_base.py", "            and self._view_grad.base is self._base._grad\n", "            and self._view_grad.base is (self._base._grad if self._base._grad.base is None else self._base._grad.base)\n", r"C06\.getter\.view\.is_the_corresponding_window"),
    # ---- lock-set helpers (c08_sets) -----------------------------------------------------------------------------------------------
    ("unique-base-after-view", "c08_sets", "_utils/lock_management.py", "            if arr.base is not None:\n                base_id = id(arr.base)\n                if base_id not in seen:\n                    seen.add(base_id)\n                    yield arr.base\n            seen.add(arr_id)\n            yield arr", "            seen.add(arr_id)\n            yield arr\n            if arr.base is not None:\n                base_id = id(arr.base)\n                if base_id not in seen:\n                    seen.add(base_id)\n                    yield arr.base", r"C08\.unique.*base_before_its_views"),
    ("unique-base-not-marked-seen", "c08_sets", "_utils/lock_management.py", "                if base_id not in seen:\n                    seen.add(base_id)\n                    yield arr.base", "                if base_id not in seen:\n                    yield arr.base", r"C08\.unique.*exactly_once"),
    ("unique-drops-bases", "c08_sets", "_utils/lock_management.py", "                    seen.add(base_id)\n                    yield arr.base\n", "                    seen.add(base_id)\n", r"C08\.unique.*exactly_once"),
    ("force-lock-target-not-forced", "c08_sets", "_utils/lock_management.py", "    lock_arr_writeability(tensor.data, force_lock=True)", "    lock_arr_writeability(tensor.data)", r"C08\.force_lock.*target_locked_last_and_forced"),
    ("force-lock-target-not-released", "c08_sets", "_utils/lock_management.py", "    tensor_refs.append(tensor.data)\n", "", r"C08\.force_lock.*finalizer_on_creator"),
    ("force-lock-finalizer-on-tensor", "c08_sets", "_utils/lock_management.py", "    finalize(\n        tensor.creator,", "    finalize(\n        tensor,", r"C08\.force_lock.*finalizer_on_creator"),
    ("release-op-skips-first", "c08_sets", "_utils/lock_management.py", "    for arr in arr_refs:\n        _release_lock_on_arr_writeability(arr)", "    for arr in list(arr_refs)[1:]:\n        _release_lock_on_arr_writeability(arr)", r"C08\.release_op.*one_release_per_live_array"),
    # ---- shape setter (c04_shape) ---------------------------------------------------------------------------------------------------
    ("shape-repoints-owner-not-parent", "c04_shape", "tensor_base.py", "            creator = graph.base.placeholder.creator.variables[0]\n", "            creator = base\n", r"C04\.shape.*(direct_parent_lists_placeholder|other_children_lists_untouched)"),
    ("shape-parent-drops-siblings", "c04_shape", "tensor_base.py", "                    w if w is not self else graph.base.placeholder\n                    for w in creator._view_children\n", "                    graph.base.placeholder\n                    for w in creator._view_children\n                    if w is self\n", r"C04\.shape.*direct_parent_lists_placeholder"),
    ("shape-out-base-not-set", "c04_shape", "tensor_base.py", "        out._base = graph.base.placeholder.base\n", "", r"C04\.shape.*self_mirrors_reshaped_placeholder_with_its_base"),
    ("shape-placeholder-does-not-adopt", "c04_shape", "tensor_base.py", "        graph.base.placeholder._view_children.append(self)\n", "", r"C04\.shape.*placeholder_adopts_self_once"),
    ("shape-views-replayed-on-self", "c04_shape", "tensor_base.py", "            parent = node.parent if node.parent is not self else unshaped\n", "            parent = node.parent\n", r"C04\.shape.*views_replayed_on_parent_or_on_unreshaped_self"),
    ("shape-views-not-rerouted", "c04_shape", "tensor_base.py", "            _dup.mirror_tensor(source=view, target=node.tensor)\n            _dup.reroute_ops_through(source=view, target=node.tensor)\n            parent._view_children.append(node.tensor)", "            _dup.mirror_tensor(source=view, target=node.tensor)\n            parent._view_children.append(node.tensor)", r"C04\.shape.*(views_replayed|nothing_else)"),
    # ---- DuplicatingGraph / restore_old_graph (c04_dupgraph) ------------------------------------------------------------------------
    ("dup-placeholder-base-is-original-base", "c04_dupgraph", "_utils/duplicating_graph.py", "                    original=child, base=self.base.placeholder\n", "                    original=child, base=self.base.tensor\n", r"C04\.dup.*placeholder_bases"),
    ("dup-children-not-placeholders", "c04_dupgraph", "_utils/duplicating_graph.py", "            [self[t].placeholder for t in tensor._view_children]", "            [t for t in tensor._view_children]", r"C04\.dup.*placeholder_children_are_placeholders"),
    ("dup-parent-is-base", "c04_dupgraph", "_utils/duplicating_graph.py", "                parent=tensor,\n", "                parent=self.base.tensor,\n", r"C04\.dup.*(one_node_per_member_with_its_parent|path_to_base)"),
    ("dup-no-reroute", "c04_dupgraph", "_utils/duplicating_graph.py", "    # point all ops involving `self` to old_tensor instead\n    reroute_ops_through(target=placeholder, source=original)\n", "", r"C04\.dup.*placeholder_mirrors_then_reroutes"),
    ("dup-first-child-only", "c04_dupgraph", "_utils/duplicating_graph.py", "        for child in tensor._view_children:\n            self._record_mapping(", "        for child in list(tensor._view_children)[:1]:\n            self._record_mapping(", r"C04\.dup"),
    ("restore-swapped", "c04_dupgraph", "_utils/duplicating_graph.py", "            reroute_ops_through(target=node.tensor, source=node.placeholder)", "            reroute_ops_through(target=node.placeholder, source=node.tensor)", r"C13\.restore.*consumers_rerouted_back"),
    ("restore-base-not-reset", "c04_dupgraph", "_utils/duplicating_graph.py", "            if node.placeholder._base is not None:\n                node.tensor._base = self.base.tensor\n", "", None),
    ("restore-base-to-placeholder", "c04_dupgraph", "_utils/duplicating_graph.py", "                node.tensor._base = self.base.tensor\n", "                node.tensor._base = self.base.placeholder\n", r"C13\.restore.*members_point_to_the_family_base_again"),
    ("restore-root-only", "c04_dupgraph", "_utils/duplicating_graph.py", "        for node in tuple(self):\n            reroute_ops_through(target=node.tensor", "        for node in tuple(self)[:1]:\n            reroute_ops_through(target=node.tensor", r"C13\.restore.*consumers_rerouted_back"),
    # ---- _in_place_op success path (c13_inplace: C04/C05/C08/C10.inplace) -------------------------------------------------------------
    ("inplace-applymask-old-contents-of-owner", "c13_inplace", "tensor_base.py", "                    graph[self].placeholder,\n", "                    graph.base.placeholder,\n", r"C05\.inplace.*masked_result_wrapped_in_ApplyMask"),
    ("inplace-unview-args-swapped", "c13_inplace", "tensor_base.py", "                _dup.UnView,\n                graph.base.placeholder,\n                placeholder_mutant_view,", "                _dup.UnView,\n                placeholder_mutant_view,\n                graph.base.placeholder,", r"C05\.inplace.*view_target_joined_to_old_owner_by_UnView"),
    ("inplace-view-fns-tracked", "c13_inplace", "tensor_base.py", "                    view_fn_sequence.append(_track.no_autodiff(f, to_numpy=True))", "                    view_fn_sequence.append(f)", r"C05\.inplace.*view_target_joined_to_old_owner_by_UnView"),
    ("inplace-views-replayed-on-owner", "c13_inplace", "tensor_base.py", "            view = node.tensor._replay_op(node.parent)\n            _dup.mirror_tensor(source=view, target=node.tensor)\n            node.parent._view_children.append(node.tensor)", "            view = node.tensor._replay_op(graph.base.tensor)\n            _dup.mirror_tensor(source=view, target=node.tensor)\n            node.parent._view_children.append(node.tensor)", r"C04\.inplace.*every_view_replayed_on_its_parent"),
    ("inplace-views-not-listed", "c13_inplace", "tensor_base.py", "            _dup.mirror_tensor(source=view, target=node.tensor)\n            node.parent._view_children.append(node.tensor)", "            _dup.mirror_tensor(source=view, target=node.tensor)", r"C04\.inplace.*every_view_replayed_on_its_parent"),
    ("inplace-flag-not-propagated", "c13_inplace", "tensor_base.py", "        placeholder_mutant_view._constant = inplace_target._constant\n", "", r"C10\.inplace.*result_takes_the_targets_flag"),
    ("inplace-no-force-lock", "c13_inplace", "tensor_base.py", "            _mem.force_lock_tensor_and_creators(placeholder_mutant_view)", "            pass", r"C08\.inplace.*result_force_locked"),
    ("inplace-inputs-not-placeholders", "c13_inplace", "tensor_base.py", "                        *(graph.get_placeholder_if_exists(t) for t in input_vars),", "                        *input_vars,", r"C04\.inplace.*attempt_on_placeholders"),
    ("inplace-attempt-guard-on", "c13_inplace", "tensor_base.py", "        try:\n            with _mem.mem_guard_off:\n                placeholder_mutant_view = (", "        try:\n            if True:\n                placeholder_mutant_view = (", r"attempt_with_memory_guarding_suspended|attempt_inside_mem_guard_off"),
    ("inplace-path-skips-nothing", "c13_inplace", "tensor_base.py", "            for node in graph.get_path_to_base(self)[::-1][1:]:  # skip base", "            for node in graph.get_path_to_base(self)[::-1]:  # skip base", r"C04\.inplace.*(target_is_the_path|attempt_on_placeholders)|C05\.inplace"),
    ("ctx-exit-no-dec", "c15_ctx", "_utils/__init__.py", "        self._depth -= 1\n        self.state = self._depth_tracker.pop(self._depth)", "        self.state = self._depth_tracker.pop(self._depth - 1)", r"C15\.ctx\..*__exit__\.depth"),
    ("ctx-enter-order", "c15_ctx", "_utils/__init__.py", "        self._depth_tracker[self._depth] = self.state\n        self._depth += 1\n        self.state = self._enter_set_value", "        self._depth += 1\n        self.state = self._enter_set_value\n        self._depth_tracker[self._depth - 1] = self.state", r"C15\.ctx\..*__enter__\.saved"),
    ("ctx-exit-swallow", "c15_ctx", "_utils/__init__.py", "        self.state = self._depth_tracker.pop(self._depth)\n", "        self.state = self._depth_tracker.pop(self._depth)\n        return True\n", r"C15\.ctx\..*(returns_falsy|exception_propagates)"),
    ("noautodiff-wrapper-outside", "c15_ctx", "_utils/graph_tracking.py", "            with self:\n                out = func(*args, **kwargs)", "            out = func(*args, **kwargs)\n            with self:\n                pass", r"C15\.ctx\._NoAutoDiff\.__call__.*body_state"),
    ("memguard-on-value", "c15_ctx", "_utils/lock_management.py", "    _enter_set_value = True", "    _enter_set_value = False", r"C15\.ctx\._WithMemGuard"),
    ("where-bwd-condition-not-inverted", "c02_elem", "indexing_routines/ops.py", "        condition = self.condition if index == 0 else ~self.condition", "        condition = self.condition", r"C02\.elem\.Where.*\.1.*vjp"),
    ("where-bwd-passes-everything", "c02_elem", "indexing_routines/ops.py", "        return np.where(condition, grad, 0)", "        return grad", r"C02\.elem\.Where.*vjp"),
    # ---- rearrangement ops (c02_struct) ------------------------------------------------------------------------------------
    ("transpose-bwd-no-argsort", "c02_struct", "tensor_manip/transpose_like/ops.py", "            grad = grad.transpose(np.argsort(self.axes))", "            grad = grad.transpose(self.axes)", r"C02\.struct\.Transpose\[r3.*\.vjp"),
    ("transpose-axes-not-normalised", "c02_struct", "tensor_manip/transpose_like/ops.py", "            self.axes = tuple(axis % a.ndim for axis in axes)", "            self.axes = tuple(axes)", r"C02\.struct\.Transpose\[r[23],axes=.*-.*\.(vjp|grad_shape)"),
    ("T-bwd-identity", "c02_struct", "tensor_manip/transpose_like/ops.py", "        return grad.T", "        return grad", r"C02\.struct\.Tensor_Transpose_Property"),
    ("moveaxis-bwd-same-direction", "c02_struct", "tensor_manip/transpose_like/ops.py", "        return np.moveaxis(grad, self.destination, self.source)", "        return np.moveaxis(grad, self.source, self.destination)", r"C02\.struct\.MoveAxis.*\.(vjp|grad_shape)"),
    ("swapaxes-bwd-order-harmless", "c02_struct", "tensor_manip/transpose_like/ops.py", "        return np.swapaxes(grad, self.axis2, self.axis1)", "        return np.swapaxes(grad, self.axis1, self.axis2)", None),
    ("swapaxes-bwd-wrong-axis", "c02_struct", "tensor_manip/transpose_like/ops.py", "        return np.swapaxes(grad, self.axis2, self.axis1)", "        return np.swapaxes(grad, self.axis2, 0)", r"C02\.struct\.SwapAxes"),
    ("roll-bwd-tuple-not-negated", "c02_struct", "tensor_manip/transpose_like/ops.py", "            else tuple(-int(i) for i in self.shift)", "            else tuple(int(i) for i in self.shift)", r"C02\.struct\.Roll\[.*shift=\(s0,s1\).*\.vjp"),
    ("roll-bwd-scalar-not-negated", "c02_struct", "tensor_manip/transpose_like/ops.py", "            -int(self.shift)\n", "            int(self.shift)\n", r"C02\.struct\.Roll\[.*shift=s0.*\.vjp"),
    ("roll-bwd-off-by-one", "c02_struct", "tensor_manip/transpose_like/ops.py", "            -int(self.shift)\n", "            1 - int(self.shift)\n", r"C02\.struct\.Roll\[.*shift=s0.*\.vjp"),
    ("preserves-order-reversed-shape", "c02_struct", "tensor_manip/array_shape/ops.py", "        return np.reshape(grad, a.shape)", "        return np.reshape(grad, a.shape[::-1])", r"C02\.struct\..*grad_shape_is_operand_shape"),
    ("preserves-order-transposes", "c02_struct", "tensor_manip/array_shape/ops.py", "        return np.reshape(grad, a.shape)", "        return np.reshape(grad.T, a.shape)", r"C02\.struct\."),
    ("broadcast-to-bwd-folds-leading-axes", "c02_struct", "tensor_manip/array_shape/ops.py", "            )\n        return grad\n", "            )\n        if grad.ndim > self.variables[0].ndim:\n            grad = grad.reshape((-1,) + self.variables[0].shape).sum(axis=0)\n        return grad\n", r"C02\.struct\.BroadcastTo.*backward_returns_incoming_gradient"),
    ("squeeze-ignores-axis", "c02_struct", "tensor_manip/array_shape/ops.py", "        return np.squeeze(a.data, axis=axis)", "        return np.squeeze(a.data)", r"C03\.struct\.Squeeze.*forward_shape_is_numpys"),  # the VJP of that forward is still exact: only the C03 obligations turn red
    ("concat-bwd-slice-short", "c02_struct", "tensor_manip/tensor_joining/ops.py", "                    else slice(self.indices[index], self.indices[index + 1])", "                    else slice(self.indices[index], self.indices[index + 1] - 1)", r"C02\.struct\.Concatenate.*grad_shape"),
    ("concat-bwd-slice-from-zero", "c02_struct", "tensor_manip/tensor_joining/ops.py", "                    else slice(self.indices[index], self.indices[index + 1])", "                    else slice(0, self.indices[index + 1] - self.indices[index])", r"C02\.struct\.Concatenate.*index=[12]\]\.vjp"),
    ("concat-axis-not-normalised", "c02_struct", "tensor_manip/tensor_joining/ops.py", "                self.axis = axis % out.ndim\n                self.indices", "                self.axis = axis\n                self.indices", r"C02\.struct\.Concatenate.*axis=-"),
    ("concat-flat-bwd-from-zero", "c02_struct", "tensor_manip/tensor_joining/ops.py", "            return grad[self.indices[index] : self.indices[index + 1]].reshape(", "            return grad[: self.indices[index + 1] - self.indices[index]].reshape(", r"C02\.struct\.Concatenate.*axis=None,index=[12]\]\.vjp"),
    ("concat-indices-drop-leading-zero", "c02_struct", "tensor_manip/tensor_joining/ops.py", "                self.indices.insert(0, 0)\n", "                self.indices.insert(0, 1)\n", r"C02\.struct\.Concatenate"),
    ("stack-bwd-first-piece", "c02_struct", "tensor_manip/tensor_joining/ops.py", "                slice(None, None, None) if dim != self.axis else index\n", "                slice(None, None, None) if dim != self.axis else 0\n", r"C02\.struct\.Stack.*index=[12]\]\.vjp"),
    ("stack-axis-not-normalised", "c02_struct", "tensor_manip/tensor_joining/ops.py", "            self.axis = axis % out.ndim\n\n        return out", "            self.axis = axis\n\n        return out", r"C02\.struct\.Stack.*axis=-"),
    ("stack-forward-axis-dropped", "c02_struct", "tensor_manip/tensor_joining/ops.py", "        out = np.stack(tuple(var.data for var in input_vars), axis=axis, out=out)", "        out = np.stack(tuple(var.data for var in input_vars), out=out)", r"C0[23]\.struct\.Stack"),
    # ---- Sum / Mean (c02_reduce) -----------------------------------------------------------------------------------------------
    ("sum-bwd-axis-not-reinserted", "c02_reduce", "math/sequential/ops.py", "                index[i] = np.newaxis\n", "                index[i] = slice(None)\n", r"C02\.reduce\.Sum"),
    ("sum-bwd-keepdims-inverted", "c02_reduce", "math/sequential/ops.py", "        if not self.keepdims:\n            index = [slice(None) for i in range(a.ndim)]", "        if self.keepdims:\n            index = [slice(None) for i in range(a.ndim)]", r"C02\.reduce\.Sum"),
    ("mean-bwd-divides-by-first-axis-only", "c02_reduce", "math/sequential/ops.py", "            else np.prod([a.shape[i] for i in self.axis])", "            else a.shape[self.axis[0]]", r"C02\.reduce\.Mean\[r[23],axis=\(.*,.*\.vjp"),
    ("mean-bwd-divides-by-size", "c02_reduce", "math/sequential/ops.py", "            else np.prod([a.shape[i] for i in self.axis])", "            else a.data.size", r"C02\.reduce\.Mean.*\.vjp"),
    ("sequential-axis-normalised-to-zero", "c02_reduce", "operation_base.py", "            self.axis = (axis,)\n", "            self.axis = (0,)\n", r"C02\.reduce\.(Sum|Mean)\[r[23],axis=(1|2|-1)"),
    ("sequential-keepdims-dropped", "c02_reduce", "operation_base.py", "            kwargs[\"keepdims\"] = keepdims\n", "            kwargs[\"keepdims\"] = False\n", r"C02\.reduce\..*keepdims=True.*kernel_receives_keepdims"),
    ("sequential-axis-not-forwarded", "c02_reduce", "operation_base.py", "        out = self.numpy_func(a.data, axis=axis, out=out, **kwargs)", "        out = self.numpy_func(a.data, axis=self.axis, out=out, **kwargs)", None),
    ("turn-off-noop", "c15_ctx", "_utils/lock_management.py", "    global MEM_GUARD\n    MEM_GUARD = False", "    MEM_GUARD = False", r"C15\.ctx\.turn_memory_guarding_off"),
]


def run_contract_module(modname, repo_root, timeout=600):
    """Runs contracts.<modname>.obligations() against repo_root and returns {name: status}."""
    code = (
        "import sys, json; sys.path.insert(0, %r)\n"
        "import importlib; from pyvc import solve\n"
        "m = importlib.import_module('contracts.%s')\n"
        "obls, info = m.obligations('quick')\n"
        "res = solve.discharge(obls, timeout_ms=20000)\n"
        "print(json.dumps(dict(status=[[r.name, r.status] for r in res], unsupported=info['unsupported'])))\n"
    ) % (HERE, modname)
    env = dict(os.environ, MYGRAD_REPO=repo_root)
    p = subprocess.run([sys.executable, "-c", code], capture_output=True, text=True, env=env, timeout=timeout)
    lines = [l for l in p.stdout.splitlines() if l.startswith("{")]
    if not lines:
        raise RuntimeError(f"contract module {modname} crashed on mutant: {p.stderr[-800:]}")
    return json.loads(lines[-1])


def _one(args):
    cid, modname, rel, old, new, expect, repo, tmp, baseline = args
    root = os.path.join(tmp, cid)
    try:
        shutil.copytree(os.path.join(repo, "src"), os.path.join(root, "src"))
        path = os.path.join(root, "src", "mygrad", rel)
        src = open(path).read()
        if old not in src:
            return dict(id=cid, module=modname, killed=None, note="pattern not found in current source (source changed); canary skipped")
        open(path, "w").write(src.replace(old, new, 1))
        r = run_contract_module(modname, root)
        # only obligations that are discharged on the unmodified source count (known findings are red on both sides)
        red = [n for n, s in r["status"] if s != "discharged" and n not in baseline]
        if expect is None:
            return dict(id=cid, module=modname, killed=(not red), expected="stays green (harmless edit)", red=red[:5])
        hit = [n for n in red if re.search(expect, n)]
        return dict(id=cid, module=modname, killed=bool(hit), expected=expect, red=red[:5], n_red=len(red), unsupported=r["unsupported"][:3])
    except Exception as e:
        return dict(id=cid, module=modname, killed=None, note=str(e)[:300])
    finally:
        shutil.rmtree(root, ignore_errors=True)


def run_canaries(only_modules=None, ids=None, jobs=4):
    """Returns list of dicts(id, killed, expected, red).  Scratch copies live under a temp dir and are removed."""
    from concurrent.futures import ThreadPoolExecutor

    repo = os.environ.get("MYGRAD_REPO", "/repo")
    todo = [c for c in CANARIES if (not only_modules or c[1] in only_modules) and (not ids or c[0] in ids)]
    tmp = tempfile.mkdtemp(prefix="mygrad-verif-canary-")
    try:
        base = {}
        for modname in sorted({c[1] for c in todo}):
            try:
                r = run_contract_module(modname, repo)
                base[modname] = {n for n, s in r["status"] if s != "discharged"}
            except Exception:
                base[modname] = set()
        with ThreadPoolExecutor(max_workers=jobs) as ex:
            out = list(ex.map(_one, [c + (repo, tmp, base[c[1]]) for c in todo]))
    finally:
        shutil.rmtree(tmp, ignore_errors=True)
    return out


if __name__ == "__main__":
    mods = sys.argv[1:] or None
    res = run_canaries(mods)
    for r in res:
        print(json.dumps(r))
    print(f"canaries: {sum(1 for r in res if r['killed'])} behaved as expected, {sum(1 for r in res if r['killed'] is False)} did not, {sum(1 for r in res if r['killed'] is None)} skipped")
