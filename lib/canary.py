"""Canary mutants: one-line property-breaking edits applied to a scratch copy of src/mygrad (under a
temp dir outside /repo and /verif, removed afterwards).  Each must turn a named obligation of the
deductive layer red; a canary that stays green means the *checker* is too weak (exit 3), it is not a
statement about the repository."""
from __future__ import annotations

import json
import os
import re
import shutil
import subprocess
import sys
import tempfile

HERE = os.path.dirname(os.path.dirname(os.path.abspath(__file__)))

# (id, contracts module, relative file, old text, new text, regex an obligation that must fail matches)
CANARIES = [
    ("cos-sign", "c02_elem", "math/trigonometric/ops.py", "return grad * -np.sin(a.data)", "return grad * np.sin(a.data)", r"C02\.elem\.Cos\.0\.vjp"),
    ("logaddexp-swap", "c02_elem", "math/exp_log/ops.py", "return grad / (1 + np.exp(b.data - a.data))", "return grad / (1 + np.exp(a.data - b.data))", r"C02\.elem\.Logaddexp\.0"),
    ("arccosh-plus", "c02_elem", "math/hyperbolic_trig/ops.py", "return grad / np.sqrt(a.data**2 - 1)", "return grad / np.sqrt(a.data**2 + 1)", r"C02\.elem\.Arccosh"),
    ("arctan2-cache", "c02_elem", "math/trigonometric/ops.py", "self.cached_denom = a.data**2 + b.data**2", "self.cached_denom = a.data**2 + b.data", r"C02\.elem\.Arctan2"),
    ("square-inplace-grad", "c02_elem", "math/arithmetic/ops.py", "        grad = 2 * grad\n        grad *= self.variables[index].data", "        grad *= 2 * self.variables[index].data", r"C12\.frame\.Square"),
    ("max-tie", "c02_elem", "math/misc/ops.py", "            equal_mask = a.data == b.data\n", "            equal_mask = a.data != a.data\n", r"C02\.elem\.(Maximum|Minimum)\.1"),
    ("abs-at-zero", "c02_elem", "math/misc/ops.py", "[a.data < 0, a.data == 0, a.data > 0]", "[a.data < 0, a.data != a.data, a.data >= 0]", r"C02\.elem\.Abs\.0"),
    ("sigmoid-cache", "c02_elem", "nnet/activations/sigmoid.py", "return grad * self.sigmoid * (1.0 - self.sigmoid)", "return grad * self.sigmoid * (1.0 + self.sigmoid)", r"C02\.elem\.Sigmoid"),
    ("power-where", "c02_elem", "math/arithmetic/ops.py", "np.log(np.where(x, x, 1))", "np.log(np.where(x, x, 2))", None),  # x=0 is outside the domain: must stay green
    ("swv-drop-dilation-fit", "c16_swv", "nnet/layers/utils.py", "            w * d > s\n", "            w > s\n", r"C16\.swv.*(returns_only_if_accepted|in_bounds)"),
    ("swv-shape-off-by-one", "c16_swv", "nnet/layers/utils.py", "(in_shape - ((window_shape - 1) * dilation + 1)) // step + 1", "(in_shape - ((window_shape - 1) * dilation)) // step + 1", r"C16\.swv.*out_shape"),
    ("swv-writeable", "c16_swv", "nnet/layers/utils.py", "strides=stride, writeable=False)", "strides=stride, writeable=True)", r"C16\.swv.*read_only"),
    ("swv-stride-no-dilation", "c16_swv", "nnet/layers/utils.py", "    win_stride[-len(step) :] *= dilation\n", "", r"C16\.swv.*strides"),
    ("swv-window-fit-ge", "c16_swv", "nnet/layers/utils.py", "if any(i > j for i, j in zip(window_shape[::-1], arr.shape[::-1])):", "if any(i >= j for i, j in zip(window_shape[::-1], arr.shape[::-1])):", r"C16\.swv.*raises_only_if_rejected"),
    ("swv-no-contig", "c16_swv", "nnet/layers/utils.py", "    if not arr.flags[\"C_CONTIGUOUS\"]:\n        arr = np.ascontiguousarray(arr)\n", "", r"C16\.swv.*contiguous_before_striding"),
    ("swv-step-zero-ok", "c16_swv", "nnet/layers/utils.py", "if not all(isinstance(i, Integral) and i > 0 for i in step):", "if not all(isinstance(i, Integral) and i >= 0 for i in step):", r"C16\.swv.*(returns_only_if_accepted|raise_kind)"),
    ("step-assign-not-accumulate", "c01_step", "operation_base.py", "                var._grad += backed_grad", "                var._grad = backed_grad", r"inv_step\.(C01\.acc|C12\.OWNG)"),
    ("step-constants-get-grad", "c01_step", "operation_base.py", "            if var.constant:\n                continue\n", "", r"inv_step\.(C10\.constants_untouched|C01\.has)|C09\.raise"),
    ("step-no-cleared-check", "c01_step", "operation_base.py", "            if not var._ops:\n", "            if False:\n", r"C09\.raise\.no_silent_pass"),
    ("step-no-copy-of-grad", "c01_step", "operation_base.py", "                    or (backed_grad is grad)\n", "", r"inv_step\.C12\.OWNG\.not_incoming_grad"),
    ("step-no-copy-of-view", "c01_step", "operation_base.py", "                    backed_grad.base is not None\n                    or (backed_grad is grad)", "                    (backed_grad is grad)", r"inv_step\.C12\.OWNG\.owner"),
    ("step-no-dtype-cast", "c01_step", "operation_base.py", "                    or backed_grad.dtype != var.dtype\n", "", r"inv_step\.C14\.I1\.dtype"),
    ("step-no-layout", "c01_step", "operation_base.py", "                    or backed_grad.strides != var.data.strides\n", "", r"inv_step\.C06\.I1prime\.layout"),
    ("step-where-dropped", "c01_step", "operation_base.py", "            if self.where is not True:\n                backed_grad = backed_grad * self.where\n", "", r"\[?.*inv_step\.C01\.acc"),
    ("step-no-post-process", "c01_step", "operation_base.py", "            backed_grad = self.grad_post_process_fn(backed_grad, var.shape)\n", "", r"inv_step\.(C14\.I1\.shape|C01\.acc)|no_other_exception"),
    ("step-wrong-index", "c01_step", "operation_base.py", "backed_grad = self.backward_var(grad, index, **kwargs)", "backed_grad = self.backward_var(grad, 0, **kwargs)", r"backward_var_receives_index"),
    ("step-skip-swallows-all", "c01_step", "operation_base.py", "            except SkipGradient:\n                continue", "            except Exception:\n                continue", None),
    ("topo-append-right", "c01_topo", "_utils/__init__.py", "    topo_sorted_tensors.appendleft(t)", "    topo_sorted_tensors.append(t)", r"C01\.topo\.post\.(new_left_of_old|topo)|inv_step"),
    ("topo-no-seen-test", "c01_topo", "_utils/__init__.py", "    if id_ in seen:\n        return\n", "", r"C01\.topo\.post\.(old_positions_kept|distinct)"),
    ("topo-into-constants", "c01_topo", "_utils/__init__.py", "    if t.constant:\n        return\n", "", r"C01\.topo\.(post|callee_requires)\.members_nonconstant|new_members"),
    ("topo-no-nulling", "c01_topo", "_utils/__init__.py", "    t._view_grad = None\n    t._grad = None\n", "    t._view_grad = None\n", r"receiver_grads_none|C07\.null"),
    ("topo-skip-leaf-inputs", "c01_topo", "_utils/__init__.py", "            collect_all_tensors_and_clear_grads(t_loop, seen, topo_sorted_tensors)", "            if t_loop.creator is not None:\n                collect_all_tensors_and_clear_grads(t_loop, seen, topo_sorted_tensors)", r"inputs_done|closed"),
    ("topo-seen-before-recursion", "c01_topo", "_utils/__init__.py", "    _marked.remove(id_)\n    seen.add(id_)\n    topo_sorted_tensors.appendleft(t)", "    _marked.remove(id_)\n    topo_sorted_tensors.appendleft(t)", r"C01\.topo\.post\.(receiver_member|seen_grows|closed)"),
    ("op-null-on-numpy-base", "c_op", "tensor_base.py", "                if base is None:\n                    # non-view ops clear grads", "                if op_out_base is None:\n                    # non-view ops clear grads", r"C07\.null\.operand"),
    ("op-no-release-on-failure", "c_op", "tensor_base.py", "                _mem.release_writeability_lock_on_op(_uniques_bases_then_arrs)\n            raise e", "                pass\n            raise e", r"C08\.op\.failed_op_releases"),
    ("op-swallow-exception", "c_op", "tensor_base.py", "                _mem.release_writeability_lock_on_op(_uniques_bases_then_arrs)\n            raise e", "                _mem.release_writeability_lock_on_op(_uniques_bases_then_arrs)\n            raise", None),
    ("op-base-of-parent-var", "c_op", "tensor_base.py", "base = parent_var if parent_var.base is None else parent_var.base", "base = parent_var", r"C04\.base\.result_base"),
    ("op-drop-shared-base-disjunct", "c_op", "tensor_base.py", "                    or (op_out_base is parent_data_base)\n", "", r"C04\.base\.(result_base|view_children)"),
    ("op-forget-view-child", "c_op", "tensor_base.py", "        if parent_var is not None:\n            parent_var._view_children.append(tensor_out)\n", "", r"C04\.base\.view_children"),
    ("op-constant-all-vs-any", "c_op", "tensor_base.py", "            if any(not var.constant for var in tensor_vars):", "            if all(not var.constant for var in tensor_vars):", r"C10\.infer"),
    ("op-lock-after-kernel", "c_op", "tensor_base.py", "            _mem.lock_arr_writeability(tensor_out.data)\n", "", r"C08\.op\.(locks_result|finalizer)"),
    ("op-wrap-copy", "c_op", "tensor_base.py", "                    cls(var, constant=True, copy=False)\n                    if not isinstance(var, Tensor)", "                    cls(var, constant=True, copy=True)\n                    if not isinstance(var, Tensor)", r"C03\.cast"),
    ("op-no-consumer-record", "c_op", "tensor_base.py", "        for var in tensor_vars:\n            var._ops.add(ref_f)\n", "        for var in tensor_vars[:1]:\n            var._ops.add(ref_f)\n", r"op\.consumer_recorded"),
    ("op-replay-constant-lost", "c_op", "tensor_base.py", "            f.replay_force_constant = constant\n", "            f.replay_force_constant = None\n", r"C04\.base\.replay_info"),
    ("ctx-exit-no-dec", "c15_ctx", "_utils/__init__.py", "        self._depth -= 1\n        self.state = self._depth_tracker.pop(self._depth)", "        self.state = self._depth_tracker.pop(self._depth - 1)", r"C15\.ctx\..*__exit__\.depth"),
    ("ctx-enter-order", "c15_ctx", "_utils/__init__.py", "        self._depth_tracker[self._depth] = self.state\n        self._depth += 1\n        self.state = self._enter_set_value", "        self._depth += 1\n        self.state = self._enter_set_value\n        self._depth_tracker[self._depth - 1] = self.state", r"C15\.ctx\..*__enter__\.saved"),
    ("ctx-exit-swallow", "c15_ctx", "_utils/__init__.py", "        self.state = self._depth_tracker.pop(self._depth)\n", "        self.state = self._depth_tracker.pop(self._depth)\n        return True\n", r"C15\.ctx\..*(returns_falsy|exception_propagates)"),
    ("noautodiff-wrapper-outside", "c15_ctx", "_utils/graph_tracking.py", "            with self:\n                out = func(*args, **kwargs)", "            out = func(*args, **kwargs)\n            with self:\n                pass", r"C15\.ctx\._NoAutoDiff\.__call__.*body_state"),
    ("memguard-on-value", "c15_ctx", "_utils/lock_management.py", "    _enter_set_value = True", "    _enter_set_value = False", r"C15\.ctx\._WithMemGuard"),
    ("turn-off-noop", "c15_ctx", "_utils/lock_management.py", "    global MEM_GUARD\n    MEM_GUARD = False", "    MEM_GUARD = False", r"C15\.ctx\.turn_memory_guarding_off"),
]


def run_contract_module(modname, repo_root, timeout=600):
    """Runs contracts.<modname>.obligations() against repo_root and returns {name: status}."""
    code = (
        "import sys, json; sys.path.insert(0, %r)\n"
        "import importlib; from pyvc import solve\n"
        "m = importlib.import_module('contracts.%s')\n"
        "obls, info = m.obligations('quick')\n"
        "res = solve.discharge(obls, timeout_ms=20000)\n"
        "print(json.dumps(dict(status=[[r.name, r.status] for r in res], unsupported=info['unsupported'])))\n"
    ) % (HERE, modname)
    env = dict(os.environ, MYGRAD_REPO=repo_root)
    p = subprocess.run([sys.executable, "-c", code], capture_output=True, text=True, env=env, timeout=timeout)
    lines = [l for l in p.stdout.splitlines() if l.startswith("{")]
    if not lines:
        raise RuntimeError(f"contract module {modname} crashed on mutant: {p.stderr[-800:]}")
    return json.loads(lines[-1])


def run_canaries(only_modules=None, ids=None):
    """Returns list of dicts(id, killed, expected, red)"""
    repo = os.environ.get("MYGRAD_REPO", "/repo")
    out = []
    tmp = tempfile.mkdtemp(prefix="mygrad-verif-canary-")
    try:
        for (cid, modname, rel, old, new, expect) in CANARIES:
            if only_modules and modname not in only_modules:
                continue
            if ids and cid not in ids:
                continue
            root = os.path.join(tmp, cid)
            shutil.copytree(os.path.join(repo, "src"), os.path.join(root, "src"))
            path = os.path.join(root, "src", "mygrad", rel)
            src = open(path).read()
            if old not in src:
                out.append(dict(id=cid, killed=None, note="pattern not found in current source (source changed); canary skipped"))
                shutil.rmtree(root)
                continue
            open(path, "w").write(src.replace(old, new, 1))
            try:
                r = run_contract_module(modname, root)
                red = [n for n, s in r["status"] if s != "discharged"]
                red_unsup = r["unsupported"]
                if expect is None:
                    out.append(dict(id=cid, killed=(not red), expected="stays green (harmless edit)", red=red[:5]))
                else:
                    hit = [n for n in red if re.search(expect, n)]
                    out.append(dict(id=cid, killed=bool(hit), expected=expect, red=red[:5], unsupported=red_unsup[:3]))
            except Exception as e:
                out.append(dict(id=cid, killed=None, note=str(e)[:300]))
            shutil.rmtree(root)
    finally:
        shutil.rmtree(tmp, ignore_errors=True)
    return out


if __name__ == "__main__":
    mods = sys.argv[1:] or None
    for r in run_canaries(mods):
        print(json.dumps(r))
