"""Common reporting: classify obligation results, handle known findings, write evidence, print
VIOLATION / KNOWN-FINDING lines, compute the exit code.

Exit codes: 0 held / 1 violation / 2 undecided (an obligation could not be decided or left the
modelled subset) / 3 checker crash.  `unknown`, timeouts and tracebacks are never mapped to 1.
"""
from __future__ import annotations

import json
import os
import re
import subprocess
import sys
import time

VERIF = os.path.dirname(os.path.dirname(os.path.abspath(__file__)))
REPO = os.environ.get("MYGRAD_REPO", "/repo")
VENV_PY = "/venv/bin/python"
# where evidence/ and replays/ are written; only the seeded-change matrix (lib/seed_matrix.sh), which runs several checks on scratch copies
# concurrently, points this elsewhere -- registered commands always write under /verif
OUT = os.environ.get("VERIF_OUT", VERIF)


def load_known_findings():
    p = os.path.join(VERIF, "known_findings.json")
    if not os.path.exists(p):
        return {"findings": [], "fixed": []}
    with open(p) as f:
        return json.load(f)


class Report:
    def __init__(self, prop, tier, seed, level, design_ref=""):
        self.prop = prop
        self.tier = tier
        self.seed = seed
        self.level = level
        self.t0 = time.time()
        self.deductive = []  # Result objects
        self.bounded = []  # dicts
        self.enumerations = []
        self.functions = {}
        self.assumptions = []
        self.trusted = []
        self.unsupported = []
        self.violations = []  # (name, replay_path, confirmed)
        self.known_hits = []
        self.undecided = []
        self.samples = []
        self.solver_ms = 0.0
        self.backends = {}
        self.extra = {}
        self.kf = load_known_findings()
        self.notes = []

    # ------------------------------------------------------------------------------------------
    def add_functions(self, d):
        self.functions.update(d)

    def add_deductive(self, results, replay=None):
        """results: list of pyvc.solve.Result; replay(result) -> (path, confirmed, detail)"""
        for r in results:
            self.deductive.append(r)
            self.solver_ms += r.ms
            self.backends[r.backend] = self.backends.get(r.backend, 0) + 1
            if r.status == "discharged":
                continue
            if r.status == "undecided":
                self.undecided.append((r.name, r.reason or "unknown"))
                continue
            # refuted
            kf = self.match_known(r.name, r)
            path, confirmed, detail = (None, False, None)
            if replay is not None:
                try:
                    path, confirmed, detail = replay(r)
                except Exception as e:  # replay machinery failure is not a verdict
                    detail = f"replay crashed: {type(e).__name__}: {e}"
            if path is None:
                path = self.write_replay(r.name, dict(obligation=r.to_json(), solver_output=r.model, detail=detail, confirmed=False))
            if kf is not None:
                self.known_hits.append((kf, r.name))
            else:
                self.violations.append((r.name, path, confirmed))

    def match_known(self, name, result=None, what=None):
        for f in self.kf.get("findings", []):
            if f.get("property") != self.prop:
                continue
            pat = f.get("obligation_regex")
            if pat and re.search(pat, name):
                if f.get("input_in") is not None:
                    # exact list of failing inputs (key `input_key` of the failing input); anything else is a different violation
                    inp = (what or {}).get("input", {}) if isinstance(what, dict) else {}
                    if inp.get(f.get("input_key")) not in f["input_in"]:
                        continue
                    if any(inp.get(k, v) != v for k, v in (f.get("input_equals") or {}).items()):
                        continue
                    return f
                pred = f.get("input_regex")
                if pred:
                    blob = json.dumps(what if what is not None else (result.to_json() if result else {}), sort_keys=True, default=str)
                    if not re.search(pred, blob):
                        continue
                return f
        return None

    def write_replay(self, name, payload):
        d = os.path.join(OUT, "replays", self.prop)
        os.makedirs(d, exist_ok=True)
        safe = re.sub(r"[^A-Za-z0-9_.\-\[\]=,]+", "_", name)[:150]
        p = os.path.join(d, safe + ".json")
        payload = dict(payload)
        payload.setdefault("property", self.prop)
        payload.setdefault("obligation", name)
        with open(p, "w") as f:
            json.dump(payload, f, indent=1, default=str)
        return p

    def add_bounded(self, b):
        """b: dict(name, bound, evaluations, distinct_nontrivial, failures=[{name, input, detail}], samples)"""
        self.bounded.append(b)
        for fl in b.get("failures", []):
            nm = fl.get("name", b["name"])
            kf = self.match_known(nm, what=fl)
            if kf is not None:
                self.known_hits.append((kf, nm))
                continue
            path = self.write_replay(nm, {"kind": "bounded", "confirmed": True, "rerun": b.get("_rerun"), **fl})
            self.violations.append((nm, path, True))
        for e in b.get("errors", []):
            self.undecided.append((b["name"], e))

    def add_enumeration(self, name, items, failures, note=""):
        self.enumerations.append(dict(name=name, count=len(items), failures=len(failures), note=note, items=items[:40]))
        for fl in failures:
            nm = fl.get("name", name)
            kf = self.match_known(nm, what=fl)
            if kf is not None:
                self.known_hits.append((kf, nm))
                continue
            path = self.write_replay(nm, {"kind": "enumeration", "confirmed": False, **fl})
            self.violations.append((nm, path, fl.get("confirmed", False)))

    # ------------------------------------------------------------------------------------------
    def run_canaries(self, modules):
        """Thorough tier: the canary mutants of the contract modules this property uses are applied to scratch copies of
        /repo/src (temp dir, removed) and must each turn a named obligation red.  The outcome is evidence about the *checker*;
        it is reported (stdout line CANARY, evidence coverage.canaries) and never changes the exit code of the property."""
        from lib import canary

        try:
            res = canary.run_canaries(only_modules=list(modules))
        except Exception as e:  # pragma: no cover
            self.notes.append(f"canary run failed: {type(e).__name__}: {e}")
            return
        ok = sum(1 for r in res if r.get("killed"))
        bad = [r["id"] for r in res if r.get("killed") is False]
        skipped = [r["id"] for r in res if r.get("killed") is None]
        self.extra["canaries"] = dict(modules=list(modules), behaved_as_expected=ok, not_detected=bad, skipped=skipped, results=res)
        print(f"CANARY property={self.prop} modules={','.join(modules)} detected={ok} not-detected={len(bad)} skipped={len(skipped)}")
        for cid in bad:
            self.assumptions.append(f"canary mutant '{cid}' was NOT detected by the deductive layer: the contracts are weaker than intended for that edit")

    def finish(self, min_obligations=1):
        wall = time.time() - self.t0
        n_obl = len(self.deductive) + sum(e["count"] for e in self.enumerations)
        n_dis = sum(1 for r in self.deductive if r.status == "discharged") + sum(
            e["count"] - e["failures"] for e in self.enumerations
        )
        b_evals = sum(b.get("evaluations", 0) for b in self.bounded)
        b_distinct = sum(b.get("distinct_nontrivial", 0) for b in self.bounded)
        printed = set()
        for kf, nm in self.known_hits:
            key = kf.get("id")
            if key in printed:
                continue
            printed.add(key)
            print(f"KNOWN-FINDING: property={self.prop} {kf.get('what')} [{key}; first hit: {nm}]")
        for nm, path, confirmed in self.violations:
            tail = "" if confirmed else " no-failing-input-found"
            print(f"VIOLATION property={self.prop} replay={path} obligation={nm}{tail}")
        vacuous = n_obl < min_obligations
        if vacuous:
            self.undecided.append(("vacuity", f"only {n_obl} obligations generated (< {min_obligations})"))
        for nm, why in self.undecided[:20]:
            print(f"UNDECIDED property={self.prop} obligation={nm} reason={str(why)[:200]}")
        for u in self.unsupported[:20]:
            print(f"OUT-OF-SUBSET property={self.prop} {u}")
        samples = list(self.samples)
        for r in self.deductive[:3]:
            samples.append({"sample_kind": "obligation", **r.to_json()})
        for b in self.bounded:
            for s in b.get("samples", [])[:2]:
                samples.append({"sample_kind": "bounded-case", "check": b["name"], "case": s})
        coverage = dict(
            obligations=n_obl,
            discharged=n_dis,
            checker_cmd=f"python3-vt bin/check {self.prop} --tier {self.tier}",
            trusted_base=sorted(set(self.trusted)),
            functions_under_contract=self.functions,
            backends=self.backends,
            solver_ms=round(self.solver_ms, 1),
            refuted=[r.name for r in self.deductive if r.status == "refuted"],
            undecided=[u[0] for u in self.undecided],
            out_of_subset=self.unsupported,
            enumerations=[{k: v for k, v in e.items() if k != "items"} | {"items": e["items"][:10]} for e in self.enumerations],
            bounded_obligations=[
                {k: v for k, v in b.items() if k not in ("failures", "samples", "errors", "_rerun")} for b in self.bounded
            ],
            bounded_evaluations=b_evals,
            evaluations=max(b_evals + n_obl, 1),
            distinct_nontrivial=max(b_distinct + n_obl, 2) if (b_distinct + n_obl) >= 2 else b_distinct + n_obl,
            rule=(
                "deductive obligations are distinct by (function, path, postcondition conjunct); bounded cases are "
                "distinct by their canonical input description and non-trivial when they exercise the function "
                "under contract with at least one non-constant float tensor (see bounded_obligations[].rule)"
            ),
            samples=samples[:12],
            explanation=self.extra.pop("explanation", ""),
            known_findings=[dict(id=k.get("id"), what=k.get("what"), hit=nm) for k, nm in self.known_hits][:30],
            notes=self.notes,
            **self.extra,
        )
        ev = dict(
            property_id=self.prop,
            tier=self.tier,
            seed=int(self.seed),
            level=self.level,
            coverage=coverage,
            assumptions=sorted(set(self.assumptions)),
            wall_s=round(wall, 2),
            violations=len(self.violations),
        )
        os.makedirs(os.path.join(OUT, "evidence"), exist_ok=True)
        with open(os.path.join(OUT, "evidence", f"{self.prop}.json"), "w") as f:
            json.dump(ev, f, indent=1, default=str)
        print(
            f"[{self.prop}] tier={self.tier} deductive {n_dis}/{n_obl} discharged, "
            f"{len(self.bounded)} bounded checks ({b_evals} evaluations), "
            f"{len(self.violations)} violations, {len(set(k.get('id') for k,_ in self.known_hits))} known findings, "
            f"{len(self.undecided)} undecided, {len(self.unsupported)} out-of-subset, wall {wall:.1f}s"
        )
        if self.violations:
            return 1
        if self.undecided or self.unsupported:
            return 2
        return 0


def run_bounded(script, tier, seed, extra_args=(), timeout=1500):
    """Run a bounded run-time contract check under /venv/bin/python (the interpreter that has the
    repository's dependencies); the script prints one JSON document on its last stdout line."""
    env = dict(os.environ)
    env["PYTHONPATH"] = os.path.join(REPO, "src") + os.pathsep + VERIF
    env["MYGRAD_VERIF"] = "1"
    env.setdefault("NUMBA_DISABLE_JIT", "0")
    cmd = [VENV_PY, os.path.join(VERIF, "runtime", script), "--tier", tier, "--seed", str(seed), *extra_args]
    try:
        p = subprocess.run(cmd, capture_output=True, text=True, timeout=timeout, env=env, cwd=VERIF)
    except subprocess.TimeoutExpired:
        return dict(name=script, evaluations=0, distinct_nontrivial=0, failures=[], errors=[f"timeout after {timeout}s"])
    lines = [l for l in p.stdout.splitlines() if l.startswith("{")]
    if p.returncode not in (0,) or not lines:
        return dict(
            name=script,
            evaluations=0,
            distinct_nontrivial=0,
            failures=[],
            errors=[f"bounded script crashed rc={p.returncode}: {(p.stderr or p.stdout)[-600:]}"],
        )
    out = json.loads(lines[-1])
    out["_rerun"] = dict(script=script, tier=tier, seed=int(seed), args=list(extra_args))
    return out
