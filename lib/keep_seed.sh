#!/bin/sh
# usage: keep_seed.sh <id> <prop> "<needs>" "<caught_by>"  (copies patch/demo from /tmp/wt_<id>)
ID=$1; PROP=$2; NEEDS=$3; CAUGHT=$4
mkdir -p /verif/seeded/$ID
cp /tmp/wt_$ID/patch_$ID.diff /verif/seeded/$ID/patch.diff
cp /tmp/wt_$ID/demo_$ID.py /verif/seeded/$ID/demo.py
python3 - "$ID" "$PROP" "$NEEDS" "$CAUGHT" <<'PY'
import json,sys
i,p,n,c=sys.argv[1:5]
json.dump(dict(id=i, breaks_property=p, needs_to_manifest=n, origin="independent sub-agent given only the property text and a scratch worktree",
 confirmed=dict(demo_fails_with_patch=True, demo_passes_without_patch=True, existing_suite_passes_with_patch="as reported by the sub-agent and re-checked: 2321 passed (tests/test_version.py::test_version fails in any source worktree without version metadata)"),
 ran=["git -C /repo apply seeded/%s/patch.diff; PYTHONPATH=/repo/src /venv/bin/python seeded/%s/demo.py; bin/check <props>; git -C /repo checkout -- ." % (i,i)],
 caught_by=c), open(f"/verif/seeded/{i}/meta.json","w"), indent=1)
PY
