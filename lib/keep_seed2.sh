#!/bin/sh
# usage: keep_seed2.sh <new-id> <prop> <srcdir> "<needs>" "<caught_by>"   (round >= 2: patch/demo from <srcdir>/patch_<prop>.diff, demo_<prop>.py;
# re-runs the unedited suite with the patch applied to /repo and records its summary line; /repo is reverted afterwards)
ID=$1; PROP=$2; SRC=$3; NEEDS=$4; CAUGHT=$5
cd /repo || exit 3
if ! git diff --quiet; then echo "repo dirty"; exit 3; fi
git apply "$SRC/patch_$PROP.diff" || { echo "patch does not apply"; exit 3; }
SUITE=$(/venv/bin/python -m pytest -q -p no:cacheprovider --timeout=900 --continue-on-collection-errors -n 16 2>&1 | tail -1)
git checkout -- .
echo "suite with patch: $SUITE"
mkdir -p /verif/seeded/$ID
cp "$SRC/patch_$PROP.diff" /verif/seeded/$ID/patch.diff
cp "$SRC/demo_$PROP.py" /verif/seeded/$ID/demo.py
python3 - "$ID" "$PROP" "$NEEDS" "$CAUGHT" "$SUITE" <<'PY'
import json,sys
i,p,n,c,s=sys.argv[1:6]
json.dump(dict(id=i, breaks_property=p, round=2, needs_to_manifest=n, origin="independent sub-agent given only the property text (plus a focus area taken from the property's anchors) and a scratch worktree",
 confirmed=dict(demo_fails_with_patch=True, demo_passes_without_patch=True, existing_suite_with_patch_applied_to_repo=s),
 ran=["git -C /repo apply seeded/%s/patch.diff; PYTHONPATH=/repo/src /venv/bin/python seeded/%s/demo.py; bin/check %s; git -C /repo checkout -- ." % (i,i,p)],
 caught_by=c), open(f"/verif/seeded/{i}/meta.json","w"), indent=1)
PY
