#!/bin/sh
# usage: [JOBS=4] lib/seed_matrix.sh [ids...]  -- for every kept seeded change: make a scratch copy of /repo's working tree under /tmp, apply the
# change there, run its demo and the quick check of the property it breaks against that copy (MYGRAD_REPO), record which obligations report it,
# remove the copy.  Evidence/replays of these runs go to the scratch directory (VERIF_OUT), never to /verif/evidence.  Writes seeded/MATRIX.md.
JOBS=${JOBS:-4}
IDS=${@:-$(ls /verif/seeded | grep '^C')}
OUT=/verif/seeded/MATRIX.md
ROWS=/verif/seeded/.rows
mkdir -p $ROWS
one() {
  id=$1
  d=/verif/seeded/$id
  w=/tmp/mx_$id
  rm -rf $w; mkdir -p $w/repo $w/out
  prop=$(python3 -c "import json;print(json.load(open('$d/meta.json'))['breaks_property'])" 2>/dev/null)
  (cd /repo && git ls-files -z | xargs -0 cp --parents -t $w/repo 2>/dev/null)
  if ! (cd $w/repo && patch -p1 -s < $d/patch.diff > $w/patch.log 2>&1); then echo "$id: patch does not apply"; rm -rf $w; return; fi
  PYTHONPATH=$w/repo/src /venv/bin/python $d/demo.py > /dev/null 2>&1; drc=$?
  (cd /verif && MYGRAD_REPO=$w/repo VERIF_OUT=$w/out bin/check $prop --tier quick > $w/check.txt 2>&1); rc=$?
  nv=$(grep -c '^VIOLATION' $w/check.txt)
  BND='obligation=C[0-9][0-9]\.\(bounded\|ops\|layers\|histories\|step\|rest\)\.'
  nb=$(grep '^VIOLATION' $w/check.txt | grep -c "$BND")
  nd=$((nv-nb))
  fmt() { sed 's/.*obligation=//; s/ no-failing-input-found/ (no input)/' | sed 's/\[[^]]*\]/[..]/g; s/\.p[0-9]*\( \|$\)/\1/' | sort | uniq -c | sort -rn | head -4 | awk '{c=$1; $1=""; printf "%s (%s); ", substr($0,2), c}'; }
  dobl=$(grep '^VIOLATION' $w/check.txt | grep -v "$BND" | fmt)
  bobl=$(grep '^VIOLATION' $w/check.txt | grep "$BND" | fmt)
  echo "| $id | $prop | $([ $drc -ne 0 ] && echo yes || echo NO) | $rc | $nd | $dobl | $nb | $bobl |" > $ROWS/$id
  echo "$id prop=$prop demo_rc=$drc check_rc=$rc viol=$nv"
  rm -rf $w
}
n=0
for id in $IDS; do
  one $id &
  n=$((n+1))
  if [ $n -ge $JOBS ]; then wait; n=0; fi
done
wait
echo "| seeded change | property | demo fails | check exit | deductive VIOLATION lines | deductive obligations reporting it (count; top 4) | bounded VIOLATION lines | bounded obligations reporting it (count; top 4) |" > $OUT
echo "|---|---|---|---|---|---|---|---|" >> $OUT
for id in $(ls /verif/seeded | grep '^C'); do [ -f $ROWS/$id ] && cat $ROWS/$id >> $OUT; done
