#!/bin/sh
# usage: lib/seed_matrix.sh [ids...]  -- for every kept seeded change: apply it to /repo, run its demo and the quick check of the
# property it breaks, record which obligations report it, revert.  Writes seeded/MATRIX.md.  /repo must be clean.
cd /repo || exit 3
if ! git diff --quiet; then echo "repo dirty"; exit 3; fi
IDS=${@:-$(ls /verif/seeded | grep '^C')}
OUT=/verif/seeded/MATRIX.md
ROWS=/verif/seeded/.rows
mkdir -p $ROWS
for id in $IDS; do
  d=/verif/seeded/$id
  prop=$(python3 -c "import json;print(json.load(open('$d/meta.json'))['breaks_property'])")
  cd /repo && git apply $d/patch.diff || { echo "$id: patch does not apply"; continue; }
  PYTHONPATH=/repo/src /venv/bin/python $d/demo.py > /dev/null 2>&1; drc=$?
  cd /verif && bin/check $prop --tier quick > /tmp/matrix_$id.txt 2>&1; rc=$?
  cd /repo && git checkout -- .
  nv=$(grep -c '^VIOLATION' /tmp/matrix_$id.txt)
  obl=$(grep '^VIOLATION' /tmp/matrix_$id.txt | sed 's/.*obligation=//; s/ no-failing-input-found/ (no input)/' | sed 's/\[[^]]*\]/[..]/g; s/\.p[0-9]*\( \|$\)/\1/' | sort | uniq -c | sort -rn | head -6 | awk '{c=$1; $1=""; printf "%s (%s); ", substr($0,2), c}')
  echo "| $id | $prop | $([ $drc -ne 0 ] && echo yes || echo NO) | $rc | $nv | $obl |" > $ROWS/$id
  echo "$id prop=$prop demo_rc=$drc check_rc=$rc viol=$nv"
done
echo "| seeded change | property | demo fails | check exit | VIOLATION lines | obligations reporting it (count) |" > $OUT
echo "|---|---|---|---|---|---|" >> $OUT
for id in $(ls /verif/seeded | grep '^C'); do [ -f $ROWS/$id ] && cat $ROWS/$id >> $OUT; done
