"""Replay of a refuted C13.inplace obligation on the real code.  argv[1] = JSON {exception, self_is_view, prior_grad}.
A user-defined Operation whose forward pass raises the recorded exception class is applied in place to a tensor that already
belongs to a graph (and, if recorded, carries a gradient); the observable state and a later backward() are compared with the same
program without the failing statement."""
import json
import sys

import numpy as np

import mygrad as mg
from mygrad.operation_base import Operation


class OperationFailed(Exception):
    pass


EXC = dict(ValueError=ValueError, TypeError=TypeError, IndexError=IndexError, KeyError=KeyError, MemoryError=MemoryError, ZeroDivisionError=ZeroDivisionError, OperationFailed=OperationFailed)


def program(fail_with, is_view, prior_grad):
    x = mg.tensor([1.0, 2.0, 3.0, 4.0])
    if prior_grad:
        (x * x).sum().backward()
    v = x[1:3]
    y = (v * 3.0).sum() + (x * 2.0).sum()
    target = v if is_view else x
    raised = None
    if fail_with is not None:

        class Failing(Operation):
            def __call__(self, a, out=None):
                self.variables = (a,)
                raise fail_with("the operation failed")

            def backward_var(self, grad, index, **kwargs):  # pragma: no cover
                return grad

        try:
            target._in_place_op(Failing, target)
        except BaseException as e:  # noqa
            raised = type(e).__name__
    state = dict(
        x_grad=None if x.grad is None else x.grad.tolist(),
        v_grad=None if v.grad is None else v.grad.tolist(),
        v_base_is_x=v.base is x,
        x_base=x.base is None,
        x_data=x.data.tolist(),
        v_shares=bool(np.shares_memory(v.data, x.data)),
        x_writeable=bool(x.data.flags.writeable),
    )
    try:
        y.backward()
        state["after_backward_x_grad"] = x.grad.tolist()
        state["after_backward_v_grad"] = None if v.grad is None else v.grad.tolist()
    except Exception as e:
        state["after_backward_x_grad"] = f"raises {type(e).__name__}: {e}"
    state["x_writeable_at_end"] = bool(x.data.flags.writeable)
    return raised, state


def main():
    m = json.loads(sys.argv[1])
    cls = EXC.get(m.get("exception"), ValueError)
    is_view, prior = bool(m.get("self_is_view")), bool(m.get("prior_grad"))
    _r, ref = program(None, is_view, prior)
    raised, got = program(cls, is_view, prior)
    inp = dict(program="x=tensor(4); [(x*x).sum().backward()]; v=x[1:3]; y=(v*3).sum()+(x*2).sum(); <target>._in_place_op(Failing, <target>); y.backward()", target="v" if is_view else "x", prior_grad=prior, exception=cls.__name__)
    if raised != cls.__name__:
        print(json.dumps(dict(confirmed=True, input=inp, observed=f"the failing statement raised {raised}", required=f"{cls.__name__} propagates")))
        return
    diff = {k: (got.get(k), ref[k]) for k in ref if got.get(k) != ref[k]}
    if diff:
        print(json.dumps(dict(confirmed=True, input=inp, observed={k: v[0] for k, v in diff.items()}, required={k: v[1] for k, v in diff.items()}, note="required = the same program without the failing statement")))
    else:
        print(json.dumps(dict(confirmed=False, input=inp, note="no observable trace at this input")))


if __name__ == "__main__":
    main()
