"""Replay for a refuted C06.I1prime.layout obligation: search small programs in which the first gradient
contribution to a base tensor has a memory layout different from the base's data, and check the
property's observable consequence (view.grad available, equal to the view of base.grad, sharing memory)."""
import itertools
import json

import numpy as np

import mygrad as mg


def main():
    rng = np.random.default_rng(0)
    contributors = [
        ("(b.T*c).sum()", lambda b, c: (b.T * c).sum()),
        ("(c*b.T).sum()", lambda b, c: (c * b.T).sum()),
        ("(b*c.T).sum()", lambda b, c: (b * c.T).sum()),
        ("einsum('ij,ji->',b,c)", lambda b, c: mg.einsum("ij,ji->", b, c)),
        ("(b*2).sum()", lambda b, c: (b * 2).sum()),
        ("mg.sum(b[::-1]*c.T)", lambda b, c: mg.sum(b[::-1] * c.T)),
    ]
    views = [("reshape(-1)", lambda b: b.reshape(-1)), ("b[1:]", lambda b: b[1:]), ("b.T", lambda b: b.T), ("b.T.reshape(-1)", lambda b: b.T.reshape(-1)), ("b[:, ::2]", lambda b: b[:, ::2])]
    for order in ("C", "F"):
        for (cn, cf), (vn, vf) in itertools.product(contributors, views):
            data = np.asarray(rng.uniform(1, 2, size=(2, 3)), order=order)
            b = mg.tensor(data, copy=False)
            c = rng.uniform(1, 2, size=(3, 2))
            v = vf(b)
            if not np.shares_memory(v.data, b.data):
                continue
            L = cf(b, c)
            L.backward()
            prog = f"b = mg.tensor(np.asarray(<2x3 values>, order='{order}'), copy=False); v = {vn}; L = {cn}; L.backward()"
            if b.grad is None:
                continue
            ref = vf(b.grad) if not isinstance(vf(b.grad), mg.Tensor) else None
            vg = v.grad
            if vg is None:
                print(json.dumps(dict(confirmed=True, input=prog, observed="v.grad is None although b.grad is available", required="v.grad available whenever b.grad is")))
                return
            if not np.shares_memory(vg, b.grad):
                print(json.dumps(dict(confirmed=True, input=prog, observed=f"np.shares_memory(v.grad, b.grad) is False; b.grad.strides={b.grad.strides}, b.data.strides={b.data.strides}", required="v.grad shares memory with b.grad")))
                return
    # views taken after backward (they belong to the same epoch as long as the base is not used in a non-view op)
    for order in ("C", "F"):
        for (vn, vf) in views:
            data = np.asarray(rng.uniform(1, 2, size=(2, 3)), order=order)
            b = mg.tensor(data, copy=False)
            c = np.asarray(rng.uniform(1, 2, size=(2, 3)), order=("F" if order == "C" else "C"))
            (b * c).sum().backward()
            v = vf(b)
            if not np.shares_memory(v.data, b.data) or b.grad is None:
                continue
            prog = f"b = mg.tensor(np.asarray(<2x3>, order='{order}'), copy=False); (b * <2x3 array of the other memory order>).sum().backward(); v = {vn}"
            vg = v.grad
            if vg is None or not np.shares_memory(vg, b.grad):
                print(json.dumps(dict(confirmed=True, input=prog, observed=f"v.grad {'is None' if vg is None else 'does not share memory with b.grad'}; b.grad.strides={b.grad.strides}, b.data.strides={b.data.strides}", required="v.grad is the view of b.grad and shares its memory")))
                return
    print(json.dumps(dict(confirmed=False)))


if __name__ == "__main__":
    main()
