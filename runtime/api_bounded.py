"""Bounded run-time contracts for the API-level properties C03, C10, C11, C17, C18.

usage: api_bounded.py --check C03|C10|C11|C17|C18 --tier quick|thorough --seed N
"""
from __future__ import annotations

import argparse
import io
import itertools
import os
import tempfile

import numpy as np

import mygrad as mg
from mygrad import Tensor
from runtime.common import Bounded

UNARY = ["negative", "positive", "reciprocal", "square", "abs", "absolute", "sqrt", "cbrt", "exp", "exp2", "expm1", "log", "log2", "log10", "log1p",
         "sin", "cos", "tan", "arcsin", "arccos", "arctan", "sinh", "cosh", "tanh", "arcsinh", "arccosh", "arctanh"]
BINARY = ["add", "subtract", "multiply", "divide", "true_divide", "power", "maximum", "minimum", "arctan2", "logaddexp", "logaddexp2"]
REDUCE = ["sum", "prod", "mean", "max", "min", "var", "std", "cumsum", "cumprod", "amax", "amin"]
DT = [np.float16, np.float32, np.float64, np.int8, np.int64, np.bool_]


def same(a, b):
    a, b = np.asarray(a), np.asarray(b)
    if a.shape != b.shape or a.dtype != b.dtype:
        return False
    with np.errstate(all="ignore"):
        return bool(np.array_equal(a, b, equal_nan=(a.dtype.kind in "fc")))


def describe(x):
    if isinstance(x, (bool, int, float)):
        return f"py:{type(x).__name__}:{x}"
    x = np.asarray(x)
    lay = "C" if x.flags.c_contiguous else ("F" if x.flags.f_contiguous else "strided")
    return f"{x.dtype.name}{list(x.shape)}{'' if lay == 'C' else ':' + lay}"


def operand_catalogue(rng, dtype):
    base = rng.uniform(0.6, 0.9, size=(2, 3))
    if np.dtype(dtype).kind == "b":
        mk = lambda a: a > 0.75  # noqa
    elif np.dtype(dtype).kind in "iu":
        mk = lambda a: (a * 4).astype(dtype)  # noqa
    else:
        mk = lambda a: a.astype(dtype)  # noqa
    return [
        mk(base), mk(base[0]), mk(np.array(0.7)), mk(rng.uniform(0.6, 0.9, size=(0, 3))), mk(rng.uniform(0.6, 0.9, size=(3, 2))).T, mk(rng.uniform(0.6, 0.9, size=(2, 6)))[:, ::2],
        mk(rng.uniform(0.6, 0.9, size=(2, 1))),
    ]


def check_c03(tier, seed):
    import operator as op

    rng = np.random.default_rng(seed)
    b = Bounded(
        "C03.bounded",
        bound="27 unary + 11 binary ufuncs + 11 reductions + shape/joining/creation routines x operand kinds {python bool/int/float, bool, int8, int64, float16/32/64} x layouts {C, 0-d, empty, transposed, strided, broadcast} x options {dtype, where+out, axis, keepdims, ddof} x tracking on/off",
        rule="case = (function, operand descriptions, options); non-trivial = NumPy accepts the call (the NumPy result is the oracle for value, shape and dtype)",
    )

    def compare(name, mg_call, np_call, desc):
        try:
            with np.errstate(all="ignore"):
                ref = np_call()
        except Exception as e_np:
            # NumPy rejects the call: MyGrad must not silently succeed with a NumPy-incompatible answer; not in the domain
            return
        b.count("forward == numpy")
        try:
            with np.errstate(all="ignore"):
                got = mg_call()
                with mg.no_autodiff:
                    got2 = mg_call()
        except TypeError as e:
            if "unexpected keyword argument" in str(e) or "no implementation found for" in str(e):
                return  # option / NumPy function not supported by the MyGrad function: outside the property's domain ("all supported keyword options")
            b.fail(f"C03.bounded.{name}.raises", desc, f"MyGrad raises {type(e).__name__}: {e} where NumPy returns dtype={np.asarray(ref).dtype}")
            b.case(desc)
            return
        except Exception as e:
            b.fail(f"C03.bounded.{name}.raises", desc, f"MyGrad raises {type(e).__name__}: {e} where NumPy returns dtype={np.asarray(ref).dtype}")
            b.case(desc)
            return
        g = got.data if isinstance(got, Tensor) else got
        g2 = got2.data if isinstance(got2, Tensor) else got2
        if not same(g, ref):
            b.fail(f"C03.bounded.{name}.differs", desc, f"MyGrad: dtype={np.asarray(g).dtype} shape={np.asarray(g).shape}; NumPy: dtype={np.asarray(ref).dtype} shape={np.asarray(ref).shape}; values equal={np.asarray(g).shape == np.asarray(ref).shape and bool(np.allclose(np.asarray(g, dtype=float), np.asarray(ref, dtype=float), equal_nan=True))}")
        elif not same(g2, ref):
            b.fail(f"C03.bounded.{name}.tracking_dependent", desc, "result under no_autodiff differs")
        b.case(desc)

    scalars = [True, 2, 2.0, 0.5]
    for fn in UNARY:
        for dt in DT:
            for x in operand_catalogue(rng, dt):
                desc = dict(fn=fn, operands=[describe(x)])
                compare(fn, lambda: getattr(mg, fn)(mg.tensor(x)), lambda: getattr(np, fn)(x), desc)
        x = rng.uniform(0.6, 0.9, size=(2, 3)).astype(np.float32)
        for kw in (dict(dtype=np.float64), dict(dtype=np.float16)):
            compare(fn, lambda: getattr(mg, fn)(mg.tensor(x), **kw), lambda: getattr(np, fn)(x, **kw), dict(fn=fn, operands=[describe(x)], opts=str(kw)))
        mask = np.array([[True, False, True], [False, True, True]])
        compare(fn + "[where,out]", lambda: getattr(mg, fn)(mg.tensor(x), where=mask, out=np.full((2, 3), 0.25, dtype=np.float32)), lambda: getattr(np, fn)(x, where=mask, out=np.full((2, 3), 0.25, dtype=np.float32)), dict(fn=fn, opts="where,out"))
        for s in scalars:
            compare(fn, lambda: getattr(mg, fn)(s), lambda: getattr(np, fn)(s), dict(fn=fn, operands=[describe(s)]))
    dts_b = DT if tier == "thorough" else [np.float16, np.float32, np.float64, np.int8, np.int64, np.bool_]
    for fn in BINARY:
        for dt1, dt2 in itertools.product(dts_b, repeat=2):
            xs, ys = operand_catalogue(rng, dt1), operand_catalogue(rng, dt2)
            pairs = [(xs[0], ys[0]), (xs[0], ys[1]), (xs[2], ys[0]), (xs[0], ys[6]), (xs[3], ys[3]), (xs[4].T if False else xs[0], ys[5])]
            for x, y in pairs[: (6 if tier == "thorough" else 3)]:
                desc = dict(fn=fn, operands=[describe(x), describe(y)])
                compare(fn, lambda: getattr(mg, fn)(mg.tensor(x), mg.tensor(y)), lambda: getattr(np, fn)(x, y), desc)
                compare(fn + "[tensor,array]", lambda: getattr(mg, fn)(mg.tensor(x), y), lambda: getattr(np, fn)(x, y), dict(desc, second="ndarray"))
        for dt in DT:
            for x in operand_catalogue(rng, dt)[:3]:
                for s in scalars:
                    compare(fn + "[tensor,pyscalar]", lambda: getattr(mg, fn)(mg.tensor(x), s), lambda: getattr(np, fn)(x, s), dict(fn=fn, operands=[describe(x), describe(s)]))
                    compare(fn + "[pyscalar,tensor]", lambda: getattr(mg, fn)(s, mg.tensor(x)), lambda: getattr(np, fn)(s, x), dict(fn=fn, operands=[describe(s), describe(x)]))
    # option product for every ufunc: out target {none, ndarray, Tensor} x dtype= {absent, float64, float32} x where= {absent, mask}
    # x operand precision {float16, float32} x second operand {tensor, python float} x entry point {mg.<fn>, np.<fn> via dispatch}.
    # NumPy's dtype= selects the precision of the loop itself, so a dropped or late-applied option changes the *values*.
    mask23 = np.array([[True, False, True], [False, True, True]])
    for fn in list(UNARY) + list(BINARY):
        nin = 1 if fn in UNARY else 2
        for odt in (np.float16, np.float32):
            xa = rng.uniform(0.55, 0.95, size=(2, 3)).astype(odt)
            ya = rng.uniform(0.55, 0.95, size=(2, 3)).astype(odt)
            for target in ("none", "ndarray", "tensor"):
                for dkw in (None, np.float64, np.float32):
                    for wkw in (None, mask23):
                        for second in (("tensor",) if nin == 1 else ("tensor", "pyfloat")):
                            for entry in ("mg", "np"):
                                if target == "none" and wkw is not None:
                                    continue  # where= without out= leaves unspecified memory in the result
                                out_dt = dkw if dkw is not None else odt

                                def call(mod, wrap, tensors, target=target, dkw=dkw, wkw=wkw, second=second):
                                    kw = {}
                                    if dkw is not None:
                                        kw["dtype"] = dkw
                                    if wkw is not None:
                                        kw["where"] = wkw
                                    buf = np.full((2, 3), 0.25, dtype=out_dt)
                                    if target == "ndarray":
                                        kw["out"] = buf
                                    elif target == "tensor":
                                        kw["out"] = mg.tensor(buf) if tensors else buf  # the NumPy reference writes into a plain array
                                    ops_ = [wrap(xa)] + ([] if nin == 1 else [wrap(ya) if second == "tensor" else 0.1])
                                    return getattr(mod, fn)(*ops_, **kw)

                                wrapt = lambda a: mg.tensor(a)  # noqa: E731
                                ident = lambda a: a  # noqa: E731
                                desc = dict(fn=fn, operands=[describe(xa)] + ([] if nin == 1 else [describe(ya) if second == "tensor" else "py:float:0.1"]), out=target,
                                            dtype=None if dkw is None else np.dtype(dkw).name, where=wkw is not None, entry=entry)
                                compare(fn + "[options]", (lambda: call(mg, wrapt, True)) if entry == "mg" else (lambda: call(np, wrapt, True)), lambda: call(np, ident, False), desc)
    # operators with python scalars (NEP 50 weak promotion)

    for name, o in (("+", op.add), ("-", op.sub), ("*", op.mul), ("/", op.truediv), ("**", op.pow)):
        for dt in DT:
            for x in operand_catalogue(rng, dt)[:3]:
                for s in [2, 2.0, True, 3, 1]:
                    compare(f"operator{name}", lambda: o(mg.tensor(x), s), lambda: o(x, s), dict(op=name, operands=[describe(x), describe(s)]))
                    compare(f"operator{name}[r]", lambda: o(s, mg.tensor(x)), lambda: o(s, x), dict(op="r" + name, operands=[describe(s), describe(x)]))
    # non-differentiable families that MyGrad re-exports / dispatches to NumPy: rounding-modulo (constant tensors only) and comparisons
    CONST_ONLY_BIN = ["floor_divide", "remainder", "mod", "fmod"]
    CONST_ONLY_UN = ["rint", "sign", "floor", "ceil", "trunc"]
    BOOL_BIN = ["greater", "greater_equal", "less", "less_equal", "equal", "not_equal", "logical_and", "logical_or", "logical_xor"]
    BOOL_UN = ["isnan", "isfinite", "isinf", "signbit", "logical_not"]
    for dt in DT:
        for x in operand_catalogue(rng, dt)[:3]:
            if np.dtype(dt).kind == "b":
                continue
            xc = lambda: mg.tensor(x, constant=True)  # noqa
            for fn in CONST_ONLY_UN + BOOL_UN:
                compare(fn, lambda: getattr(np, fn)(xc()), lambda: getattr(np, fn)(x), dict(fn=fn, operands=[describe(x)], spelling="np ufunc on constant tensor"))
            for fn in CONST_ONLY_BIN + BOOL_BIN:
                for s in [3, 0.7, 2.0, True, 0.1]:
                    compare(fn + "[tensor,pyscalar]", lambda: getattr(np, fn)(xc(), s), lambda: getattr(np, fn)(x, s), dict(fn=fn, operands=[describe(x), describe(s)]))
                    compare(fn + "[pyscalar,tensor]", lambda: getattr(np, fn)(s, xc()), lambda: getattr(np, fn)(s, x), dict(fn=fn, operands=[describe(s), describe(x)]))
                y = operand_catalogue(rng, np.float64)[0] if np.ndim(x) == 2 else np.float64(0.7)
                compare(fn + "[tensor,array]", lambda: getattr(np, fn)(xc(), y), lambda: getattr(np, fn)(x, y), dict(fn=fn, operands=[describe(x), describe(y)]))
            for name, o in (("//", op.floordiv), ("%", op.mod), ("<", op.lt), ("<=", op.le), (">", op.gt), (">=", op.ge), ("==", op.eq), ("!=", op.ne)):
                for s in [3, 0.7, 0.1, 2.0]:
                    if name == "%":
                        continue  # Tensor does not define __mod__ (NumPy's reflected dispatch covers ndarray % tensor only)
                    compare(f"operator{name}", lambda: o(xc(), s), lambda: o(x, s), dict(op=name, operands=[describe(x), describe(s)]))
                    compare(f"operator{name}[r]", lambda: o(s, xc()), lambda: o(s, x), dict(op="r" + name, operands=[describe(s), describe(x)]))
    # values of comparisons against Python floats that are not representable in the tensor's dtype
    for dt in (np.float16, np.float32):
        xv = np.array([0.1, 0.7, 1.0, 0.3], dtype=dt)
        for s in (0.1, 0.7, 0.3):
            for name, o in (("==", op.eq), ("<", op.lt), (">=", op.ge), ("!=", op.ne)):
                compare(f"operator{name}[value]", lambda: o(mg.tensor(xv), s), lambda: o(xv, s), dict(op=name, operands=[describe(xv), describe(s)], note="scalar not representable in dtype"))
    # functions that treat Python scalars like arrays (np.asarray per element) vs. ufunc-like functions
    f32 = rng.uniform(0.6, 0.9, size=(3,)).astype(np.float32)
    i8 = np.arange(3, dtype=np.int8)
    for xa in (f32, i8, f32.astype(np.float16)):
        seqs = [
            ("stack[scalar-elements]", lambda xp, a: xp.stack([a[0], 2.0])), ("stack[list-element]", lambda xp, a: xp.stack([a, [2.0, 2.0, 2.0]])), ("concatenate[list-element]", lambda xp, a: xp.concatenate([a, [2.0]])),
            ("concatenate[int-list]", lambda xp, a: xp.concatenate([a, [2]])), ("einsum[scalar-operand]", lambda xp, a: xp.einsum("i,->i", a, 2.0)), ("einsum[int-scalar]", lambda xp, a: xp.einsum("i,->i", a, 2)),
            ("where[scalar-branch]", lambda xp, a: xp.where(np.array([True, False, True]), a, 2.0)), ("where[int-branch]", lambda xp, a: xp.where(np.array([True, False, True]), 1, a)), ("clip[scalars]", lambda xp, a: xp.clip(a, 0, 1.0)),
            ("maximum[scalar]", lambda xp, a: xp.maximum(a, 0.5)), ("matmul[list]", lambda xp, a: xp.matmul(a, [1.0, 2.0, 3.0])), ("multiply[list]", lambda xp, a: xp.multiply(a, [1.0, 2.0, 3.0])),
            ("add[np-scalar]", lambda xp, a: xp.add(a, np.float64(2.0))), ("add[0d-array]", lambda xp, a: xp.add(a, np.array(2.0))), ("power[np-int-scalar]", lambda xp, a: xp.power(a, np.int64(3))),
        ]
        # axis SPELLINGS of the rearrangement routines (tuples with negative entries, repeated / out-of-range axes NumPy refuses), on a 2-d view of xa
        for axs in [(-2, -1), (-1, -2), [-2, -1], (0, -1), (-1, 0), (0, -2, -1), (-2, 3), (1, -3), (0, 0), (2, -1), (-3, 0), (4,), -3, 2]:
            seqs.append((f"expand_dims[axis={axs!r}]", (lambda axs: lambda xp, a: xp.expand_dims(a.reshape(3, 1) * xp.ones((1, 2), dtype=a.dtype), axs))(axs)))
        for axs in [(0, -1), (-1, 0), (-1,), (0, 2), -1, 0, (1,), (0, 0)]:
            seqs.append((f"squeeze[axis={axs!r}]", (lambda axs: lambda xp, a: xp.squeeze(a.reshape(1, 3, 1), axis=axs))(axs)))
        for src, dst in [((0, -1), (-1, 0)), ((-2, 0), (1, -1)), (-1, 0), ((0, 1), (2, 0)), ((0, 0), (1, 2))]:
            seqs.append((f"moveaxis[{src!r}->{dst!r}]", (lambda src, dst: lambda xp, a: xp.moveaxis(a.reshape(1, 3, 1) * xp.ones((2, 1, 2), dtype=a.dtype), src, dst))(src, dst)))
        for nm, f in seqs:
            compare(nm, lambda: f(mg, mg.tensor(xa)), lambda: f(np, xa), dict(fn=nm, operands=[describe(xa)]))
        compare("add_sequence[scalar]", lambda: mg.add_sequence(mg.tensor(xa), 2.0, 1), lambda: xa + 2.0 + 1, dict(fn="add_sequence", operands=[describe(xa), "py:float:2.0", "py:int:1"]))
        compare("multiply_sequence[scalar]", lambda: mg.multiply_sequence(mg.tensor(xa), 2.0, 3), lambda: xa * 2.0 * 3, dict(fn="multiply_sequence", operands=[describe(xa), "py:float:2.0", "py:int:3"]))
    # reductions
    for fn in REDUCE:
        for dt in (np.float16, np.float32, np.float64, np.int8, np.int64, np.bool_):
            for x in operand_catalogue(rng, dt):
                nd = np.ndim(x)
                axes = [None] + list(range(nd)) + [-(i + 1) for i in range(nd)] + ([(0, 1), (1, 0)] if nd >= 2 else []) + [()]
                for ax in axes:
                    if fn in ("cumsum", "cumprod") and isinstance(ax, tuple):
                        continue
                    kws = [dict()] if fn in ("cumsum", "cumprod") else [dict(), dict(keepdims=True)]
                    if fn in ("var", "std"):
                        kws = kws + [dict(ddof=1)]
                    if fn in ("sum", "prod", "mean", "cumsum", "cumprod") and dt in (np.float32, np.int8):
                        kws = kws + [dict(dtype=np.float64)]
                    for kw in kws:
                        desc = dict(fn=fn, operands=[describe(x)], axis=repr(ax), opts=str(kw))
                        compare(fn, lambda: getattr(mg, fn)(mg.tensor(x), axis=ax, **kw), lambda: getattr(np, fn)(x, axis=ax, **kw), desc)
                        if fn not in ("amax", "amin"):
                            compare(fn + "[method]", lambda: getattr(mg.tensor(x), fn)(axis=ax, **kw), lambda: getattr(x, fn)(axis=ax, **kw), dict(desc, spelling="method"))
    # shape manipulation / joining / misc
    x = rng.uniform(0, 1, size=(2, 1, 3)).astype(np.float32)
    y = np.arange(6, dtype=np.int64).reshape(2, 3)
    manip = [
        ("reshape", lambda xp, a: xp.reshape(a, (3, 2)), y), ("reshape-1", lambda xp, a: xp.reshape(a, -1), x), ("squeeze", lambda xp, a: xp.squeeze(a), x), ("squeeze1", lambda xp, a: xp.squeeze(a, axis=1), x),
        ("ravel", lambda xp, a: xp.ravel(a), y.T), ("expand_dims", lambda xp, a: xp.expand_dims(a, -1), y), ("broadcast_to", lambda xp, a: xp.broadcast_to(a, (4, 2, 3)), y),
        ("transpose", lambda xp, a: xp.transpose(a), x), ("transpose-axes", lambda xp, a: xp.transpose(a, (2, 0, 1)), x), ("moveaxis", lambda xp, a: xp.moveaxis(a, 0, -1), x), ("swapaxes", lambda xp, a: xp.swapaxes(a, 0, 2), x),
        ("roll", lambda xp, a: xp.roll(a, 2, axis=1), y), ("roll-flat", lambda xp, a: xp.roll(a, -1), y), ("repeat", lambda xp, a: xp.repeat(a, 2, axis=0), y), ("repeat-flat", lambda xp, a: xp.repeat(a, 3), y),
        ("concatenate", lambda xp, a: xp.concatenate((a, a), axis=1), y), ("stack", lambda xp, a: xp.stack((a, a), axis=-1), y), ("atleast_2d", lambda xp, a: xp.atleast_2d(a), y[0]), ("atleast_3d", lambda xp, a: xp.atleast_3d(a), y),
        ("atleast_1d", lambda xp, a: xp.atleast_1d(a), np.float32(2.0)), ("where", lambda xp, a: xp.where(a > 2, a, -a), y), ("clip", lambda xp, a: xp.clip(a, 1, 4), y), ("clip-f", lambda xp, a: xp.clip(a, 0.2, 0.6), x),
        ("matmul", lambda xp, a: xp.matmul(a, a.T), y.astype(np.float32)), ("einsum", lambda xp, a: xp.einsum("ij,kj->ik", a, a), y.astype(np.float32)), ("getitem", lambda xp, a: a[::-1, [0, 2]], y), ("getitem-bool", lambda xp, a: a[a > 2], y),
        ("T", lambda xp, a: a.T, x), ("norm", lambda xp, a: xp.linalg.norm(a, axis=-1), x), ("flatten", lambda xp, a: a.flatten(), y.T),
        ("clip[out]", lambda xp, a: xp.clip(a, 1, 4, out=np.empty(a.shape, a.dtype)), y), ("clip[min-only,out]", lambda xp, a: xp.clip(a, 1, None, out=np.empty(a.shape, a.dtype)), y),
        ("clip[max-only,out]", lambda xp, a: xp.clip(a, None, 4, out=np.empty(a.shape, a.dtype)), y), ("clip[array-bounds,out]", lambda xp, a: xp.clip(a, np.full(a.shape[-1:], 1, a.dtype), 4, out=np.empty(a.shape, a.dtype)), y),
        ("sinc", lambda xp, a: xp.sinc(a), x), ("any", lambda xp, a: xp.any(a > 2, axis=0), y), ("argmax", lambda xp, a: xp.argmax(a, axis=1), y), ("argmin", lambda xp, a: xp.argmin(a), y),
    ]
    # joining routines with operands of DIFFERENT dtypes, some of them empty: every operand takes part in NumPy's dtype promotion, also one that
    # contributes no element
    joins = [("concatenate", lambda xp, ops: xp.concatenate(ops, axis=0)), ("concatenate[axis=None]", lambda xp, ops: xp.concatenate(ops, axis=None)), ("stack", None), ("hstack-like", lambda xp, ops: xp.concatenate(ops, axis=-1))]
    dt_pairs = [(np.float32, np.float64), (np.int16, np.float32), (np.bool_, np.int64), (np.float16, np.float64), (np.float64, np.float32), (np.int64, np.float16), (np.float32, np.float32)]
    for jn, jf in joins:
        if jf is None:
            continue
        for d1, d2 in dt_pairs:
            for empties in ("second empty", "first empty", "none empty", "both empty"):
                s1 = (0, 3) if empties in ("first empty", "both empty") else (2, 3)
                s2 = (0, 3) if empties in ("second empty", "both empty") else (1, 3)
                if jn == "hstack-like":
                    s1, s2 = s1[::-1], s2[::-1]
                    s1, s2 = (3, s1[1]), (3, s2[1])
                o1, o2 = np.ones(s1, dtype=d1), np.ones(s2, dtype=d2) * 2
                compare(f"{jn}[mixed dtypes,{empties}]", lambda: jf(mg, (mg.tensor(o1), mg.tensor(o2))), lambda: jf(np, (o1, o2)), dict(fn=jn, dtypes=[np.dtype(d1).name, np.dtype(d2).name], shapes=[list(s1), list(s2)], empties=empties))
    # tensors in argument positions other than "the" data operand: the condition of where, the end points of linspace & co., the bounds of clip,
    # the values of full / full_like, the shift of roll
    cond_ = np.array([True, False, True])
    argpos = [
        ("where[tensor condition]", lambda: mg.where(mg.tensor(cond_), mg.tensor([1.0, 2.0, 3.0]), 2.0), lambda: np.where(cond_, np.array([1.0, 2.0, 3.0]), 2.0)),
        ("where[tensor condition,np]", lambda: np.where(mg.tensor(cond_), mg.tensor([1.0, 2.0, 3.0]), 2.0), lambda: np.where(cond_, np.array([1.0, 2.0, 3.0]), 2.0)),
        ("linspace[tensor start]", lambda: mg.linspace(mg.tensor(1.0), 2.0, 5), lambda: np.linspace(1.0, 2.0, 5)),
        ("linspace[tensor stop]", lambda: mg.linspace(1.0, mg.tensor(2.0), 5), lambda: np.linspace(1.0, 2.0, 5)),
        ("logspace[tensor start]", lambda: mg.logspace(mg.tensor(1.0), 2.0, 5), lambda: np.logspace(1.0, 2.0, 5)),
        ("geomspace[tensor start]", lambda: mg.geomspace(mg.tensor(1.0), 2.0, 5), lambda: np.geomspace(1.0, 2.0, 5)),
        ("arange[tensor stop]", lambda: mg.arange(mg.tensor(5)), lambda: np.arange(5)),
        ("full[tensor value]", lambda: mg.full((2,), mg.tensor(1.5)), lambda: np.full((2,), 1.5)),
        ("full_like[tensor value]", lambda: mg.full_like(mg.tensor([1.0, 2.0]), mg.tensor(1.5)), lambda: np.full_like(np.array([1.0, 2.0]), 1.5)),
        ("clip[tensor bounds]", lambda: mg.clip(mg.tensor([0.0, 1.0, 2.0]), mg.tensor(0.5), mg.tensor([1.5, 1.5, 1.5])), lambda: np.clip(np.array([0.0, 1.0, 2.0]), 0.5, np.array([1.5, 1.5, 1.5]))),
    ]
    for nm_, fm_, fr_ in argpos:
        compare(nm_, fm_, fr_, dict(fn=nm_, note="a tensor in an argument position other than the data operand"))
    for nm, f, a in manip:
        compare(nm, lambda: f(mg, mg.tensor(a)), lambda: f(np, a), dict(fn=nm, operands=[describe(a)]))
        compare(nm + "[np-on-tensor]", lambda: f(np, mg.tensor(a)), lambda: f(np, a), dict(fn=nm, spelling="numpy function on tensor"))
    return b


# ------------------------------------------------------------------------------------------------------------
def check_c10(tier, seed):
    rng = np.random.default_rng(seed)
    b = Bounded(
        "C10.bounded",
        bound="dtype gate over 12 dtypes x constant {None,True,False}; flag inference over all flag assignments to <= 3 leaves x op-level constant {None,True,False} for 9 op shapes incl. views, in-place targets, out=; gradients with constants replaced by arrays/scalars",
        rule="case = (construction or program, flags); non-trivial = at least one float tensor involved",
    )
    dtypes = [np.bool_, np.int8, np.int16, np.int32, np.int64, np.uint8, np.uint64, np.float16, np.float32, np.float64, np.complex64, np.dtype("U1")]
    for dt in dtypes:
        for const in (None, True, False):
            desc = dict(construct=np.dtype(dt).name, constant=const)
            b.count("dtype gate")
            kind = np.dtype(dt).kind
            try:
                data = np.array(["a"]) if kind == "U" else np.ones((2,), dtype=dt)
                t = mg.tensor(data, constant=const)
                if kind in "cUSO":
                    b.fail("C10.bounded.gate.nonreal_accepted", desc, "non-real dtype accepted while tracking is on")
                elif kind in "biu" and const is False:
                    b.fail("C10.bounded.gate.int_nonconstant_accepted", desc, "integer/bool tensor with constant=False accepted")
                else:
                    exp = (kind != "f") if const is None else const
                    if t.constant is not exp:
                        b.fail("C10.bounded.gate.default_flag", desc, f"constant={t.constant}, expected {exp}")
                    if t.grad is not None:
                        b.fail("C10.bounded.gate.grad", desc, "new tensor has a gradient")
            except TypeError:
                if kind not in "cUSO":
                    b.fail("C10.bounded.gate.typeerror", desc, "TypeError for a real dtype")
            except ValueError:
                if not (kind in "biu" and const is False):
                    b.fail("C10.bounded.gate.valueerror", desc, "unexpected ValueError")
            b.case(desc)
    for bad in (1, "True", 0.0, np.True_):
        try:
            mg.tensor([1.0], constant=bad)
            if not isinstance(bad, bool):
                b.fail("C10.bounded.gate.nonbool_constant", dict(constant=repr(bad)), "non-bool `constant` accepted")
        except TypeError:
            pass
        b.case(dict(constant_arg=repr(bad)))
    progs = [
        ("add", lambda a, c, k: mg.add(a, c, constant=k)), ("mul-op", lambda a, c, k: a * c if k is None else mg.multiply(a, c, constant=k)), ("sum", lambda a, c, k: mg.sum(a * 1.0 + c, constant=k)),
        ("getitem-view", lambda a, c, k: (a + c)[1:] if k is None else mg.reshape(a + c, (-1,), constant=k)), ("einsum", lambda a, c, k: mg.einsum("i,i->", a, c, constant=k)),
        ("where", lambda a, c, k: mg.where(np.array([True, False, True]), a, c, constant=k)), ("concatenate", lambda a, c, k: mg.concatenate((a, c), constant=k)),
        ("exp-out-array", lambda a, c, k: mg.exp(a + c, constant=k)), ("matmul", lambda a, c, k: mg.matmul(a, c, constant=k)),
    ]
    for nm, f in progs:
        for ca, cc in itertools.product([False, True], repeat=2):
            for k in (None, True, False):
                for kinds in ("tensor", "array", "int-tensor"):
                    a = mg.tensor(rng.uniform(1, 2, size=3), constant=ca)
                    cv = rng.uniform(1, 2, size=3)
                    if kinds == "tensor":
                        c = mg.tensor(cv, constant=cc)
                    elif kinds == "array":
                        c = cv
                        cc_eff = True
                    else:
                        c = mg.tensor(np.array([1, 2, 3]))
                    c_const = cc if kinds == "tensor" else True
                    desc = dict(program=nm, a_const=ca, c_kind=kinds, c_const=c_const, op_constant=k)
                    try:
                        out = f(a, c, k)
                    except Exception as e:
                        b.fail("C10.bounded.infer.raises", desc, f"{type(e).__name__}: {e}")
                        continue
                    b.count("flag inference")
                    exp = (ca and c_const) if k is None else k
                    if out.constant is not exp:
                        b.fail("C10.bounded.infer.flag", desc, f"result.constant={out.constant}, expected {exp}")
                    out.backward()
                    for nm2, t, isc in (("a", a, ca), ("c", c, c_const)):
                        if isinstance(t, Tensor):
                            if (isc or exp) and t.grad is not None and isc:
                                b.fail("C10.bounded.nograd", dict(desc, tensor=nm2), "constant tensor acquired a gradient")
                            if exp and t.grad is not None:
                                b.fail("C10.bounded.no_transmit", dict(desc, tensor=nm2), "gradient flowed through a constant result")
                    # identical gradients when the constant tensor is replaced by a plain array
                    if kinds == "tensor" and cc and not ca and not exp:
                        a2 = mg.tensor(a.data.copy())
                        out2 = f(a2, c.data, k)
                        out2.backward()
                        if (a.grad is None) != (a2.grad is None) or (a.grad is not None and not np.array_equal(a.grad, a2.grad)):
                            b.fail("C10.bounded.array_equivalence", desc, "gradients differ when the constant tensor is replaced by an ndarray")
                    b.case(desc)
    # chains of ops (view-producing and not) with the flag forced at any step: the result of a step without an explicit flag is constant
    # exactly when all of ITS OWN inputs are -- not the owner of its memory, not an earlier ancestor
    steps = [
        ("reshape", True, lambda t, k: mg.reshape(t, (-1,) if t.ndim != 1 else (1, -1), constant=k)),
        ("[1:]", True, lambda t, k: t[1:] if k is None else None),
        ("transpose", True, lambda t, k: mg.transpose(t, constant=k)),
        ("[0]", True, lambda t, k: t[0] if (k is None and t.ndim > 1) else None),
        ("*2", False, lambda t, k: mg.multiply(t, 2.0, constant=k)),
        ("exp", False, lambda t, k: mg.exp(t * 0.1, constant=k) if k is not None else mg.exp(t * 0.1)),
    ]
    for base_const in (False, True):
        for L in (2, 3):
            for chain in itertools.product(range(len(steps)), repeat=L):
                for forced in itertools.product((None, True, False), repeat=L):
                    if sum(1 for f_ in forced if f_ is not None) > 1:
                        continue
                    x = mg.tensor(rng.uniform(1, 2, size=6).reshape(3, 2), constant=base_const)
                    cur, flag, ok = x, base_const, True
                    flags = []
                    for j, k in zip(chain, forced):
                        nxt_ = steps[j][2](cur, k)
                        if nxt_ is None:
                            ok = False
                            break
                        flag = flag if k is None else k
                        flags.append((nxt_, flag))
                        cur = nxt_
                    if not ok:
                        continue
                    desc = dict(chain=[steps[j][0] for j in chain], forced=[None if f_ is None else bool(f_) for f_ in forced], base_constant=base_const)
                    b.count("flag inference along a chain")
                    for n_, (t, fl) in enumerate(flags):
                        if t.constant is not fl:
                            b.fail("C10.bounded.infer.chain_flag", dict(desc, step=n_), f"step {n_}: constant={t.constant}, expected {fl} (all of its inputs constant <=> constant, unless given)")
                            break
                    else:
                        try:
                            # the base also reaches the loss directly, so that it holds a gradient even when a constant member cuts the chain
                            ((cur * 1.0).sum() + (x * 1.0).sum()).backward()
                        except Exception as e:
                            b.fail("C10.bounded.infer.raises", desc, f"{type(e).__name__}: {e}")
                            continue
                        for n_, (t, fl) in enumerate(flags):
                            if fl and t.grad is not None:
                                b.fail("C10.bounded.nograd", dict(desc, step=n_), "constant tensor acquired a gradient")
                                break
                        # every non-constant member downstream of the last constant one contributes to the loss: it has a gradient,
                        # and the same one as in the program where the constant base tensor is replaced by a plain NumPy array
                        last_const = max([n_ for n_, (t, fl) in enumerate(flags) if fl] + [-1])
                        twin = None
                        if base_const:
                            cur2, twin = x.data.copy(), []
                            for j, k in zip(chain, forced):
                                cur2 = steps[j][2](cur2, k)  # an ndarray stays an ndarray through NumPy-level views, becomes a tensor in a mygrad function
                                twin.append(cur2)
                            try:
                                (twin[-1] * 1.0).sum().backward()  # the ndarray base contributes no gradient of its own
                            except Exception:
                                twin = None
                        for n_, (t, fl) in enumerate(flags):
                            if fl or n_ < last_const:
                                continue
                            if t.grad is None:
                                b.fail("C10.bounded.nonconstant_without_grad", dict(desc, step=n_), "a non-constant tensor the loss depends on has no gradient")
                                break
                            if twin is not None and isinstance(twin[n_], Tensor) and twin[n_].grad is not None and not np.array_equal(twin[n_].grad, t.grad):
                                b.fail("C10.bounded.array_equivalence", dict(desc, step=n_), "gradient differs from the program with the constant base replaced by an ndarray")
                                break
                    b.case(desc)
    # an in-place target keeps its own flag
    for tconst, vconst in itertools.product([False, True], repeat=2):
        for how in ("setitem", "iadd", "out=", "imul-view"):
            x = mg.tensor(rng.uniform(1, 2, size=4), constant=tconst)
            v = mg.tensor(rng.uniform(1, 2, size=4), constant=vconst)
            view = x[:2]
            if how == "setitem":
                x[...] = v
            elif how == "iadd":
                x += v
            elif how == "out=":
                mg.multiply(v, 2.0, out=x)
            else:
                view *= v[:2]
            desc = dict(inplace=how, target_const=tconst, value_const=vconst)
            b.count("in-place flag")
            if x.constant is not tconst or view.constant is not tconst:
                b.fail("C10.bounded.inplace_flag", desc, f"target flag {x.constant} / view flag {view.constant}, expected {tconst}")
            b.case(desc)
    # views whose flag was forced with constant= keep it across any number of later in-place updates of the family
    for base_const, forced in itertools.product([False, True], [True, False]):
        if base_const and forced is False:
            mk = lambda x: mg.reshape(x, (2, 2), constant=False)  # noqa
        else:
            mk = None
        makers = [("reshape", lambda x, c: mg.reshape(x, (2, 2), constant=c)), ("method-reshape", lambda x, c: x.reshape(2, 2, constant=c)), ("transpose", lambda x, c: mg.transpose(x.reshape(2, 2), constant=c)),
                  ("getitem-via-op", lambda x, c: mg.squeeze(x[None], constant=c))]
        for vn, vm in makers:
            for nupd in (1, 2, 3):
                x = mg.tensor(rng.uniform(1, 2, size=4), constant=base_const)
                try:
                    v = vm(x, forced)
                except Exception:
                    continue
                if v.base is None:
                    continue
                desc = dict(forced_view=vn, base_const=base_const, forced=forced, inplace_updates=nupd)
                try:
                    for i in range(nupd):
                        x[i] = float(i)
                except Exception as e:
                    b.error(f"{desc}: {type(e).__name__}: {e}")
                    continue
                b.count("forced flag survives replays")
                if v.constant is not forced or x.constant is not base_const:
                    b.fail("C10.bounded.forced_flag_lost", desc, f"view.constant={v.constant} (forced {forced}), base.constant={x.constant} (was {base_const})")
                # ... and when the forced-flag view is itself the TARGET of the update: every tensor keeps its own flag, plain views of the base
                # keep the base's, constants acquire no gradient and the written value gets its gradient iff the memory owner is non-constant
                for how2 in ("setitem", "iadd", "out="):
                    x2 = mg.tensor(rng.uniform(1, 2, size=4), constant=base_const)
                    try:
                        v2 = vm(x2, forced)
                    except Exception:
                        break
                    if v2.base is None:
                        break
                    plain = x2[1:]
                    yv = mg.tensor(rng.uniform(1, 2, size=v2.shape))
                    d2 = dict(forced_view=vn, base_const=base_const, forced=forced, target="the forced-flag view", update=how2)
                    b.count("in-place update whose target is a forced-flag view")
                    try:
                        if how2 == "setitem":
                            v2[...] = yv
                        elif how2 == "iadd":
                            v2 += yv
                        else:
                            mg.multiply(yv, 2.0, out=v2)
                        fresh = x2[:2]
                        (x2 * 1.0).sum().backward()
                    except Exception as e:
                        b.fail("C10.bounded.inplace_flag_raises", d2, f"{type(e).__name__}: {e}")
                        continue
                    if v2.constant is not forced or x2.constant is not base_const or plain.constant is not base_const or fresh.constant is not base_const:
                        b.fail("C10.bounded.inplace_flag", d2, f"view {v2.constant} (forced {forced}), base {x2.constant} (was {base_const}), plain view {plain.constant}, fresh view {fresh.constant}")
                    elif base_const and (x2.grad is not None or plain.grad is not None):
                        b.fail("C10.bounded.nograd", d2, "a constant base / its plain view acquired a gradient")
                    elif (not base_const) and yv.grad is None:
                        b.fail("C10.bounded.nonconstant_without_grad", d2, "the value written into a non-constant base received no gradient")
                    b.case(d2)
                b.case(desc)
    # a NON-constant view taken through a CONSTANT view of a variable: it is a variable of its own (the constant view cuts it off from x), so it
    # reports the gradient it receives -- and x receives nothing through it
    vops2 = [("reshape", lambda t, k: mg.reshape(t, (4,), constant=k)), ("getitem", lambda t, k: mg.reshape(t, (2, 2), constant=k)[::-1] if k is None else mg.reshape(t, (2, 2), constant=k)), ("transpose", lambda t, k: mg.transpose(mg.reshape(t, (2, 2)), constant=k))]
    for v1n, v1f in vops2:
        for v2n, v2f in vops2:
            for also_direct in (False, True):
                xq = mg.tensor([1.0, 2.0, 3.0, 4.0])
                d6 = dict(family="non-constant view through a constant view", first=v1n + "(constant=True)", second=v2n + "(constant=False)", x_also_reaches_the_loss_directly=also_direct)
                b.count("non-constant view through a constant view")
                try:
                    cq = v1f(xq, True)
                    vq = v2f(cq, False)
                    Lq = (vq * 3.0).sum() + ((xq * xq).sum() if also_direct else 0.0)
                    Lq.backward()
                except Exception as e:
                    b.fail("C10.bounded.chain_raises", d6, f"{type(e).__name__}: {e}")
                    continue
                if vq.constant is not False or cq.constant is not True:
                    b.fail("C10.bounded.forced_flag", d6, f"flags: constant view {cq.constant}, non-constant view {vq.constant}")
                elif vq.grad is None or not np.array_equal(vq.grad, np.full(vq.shape, 3.0)):
                    b.fail("C10.bounded.nonconstant_without_grad", d6, f"the non-constant view has grad {None if vq.grad is None else vq.grad.tolist()}, expected all 3")
                elif cq.grad is not None:
                    b.fail("C10.bounded.nograd", d6, "the constant view acquired a gradient")
                elif also_direct and not np.array_equal(xq.grad, 2 * xq.data):
                    b.fail("C10.bounded.nograd", d6, f"x.grad = {xq.grad.tolist()}: gradient leaked through the constant view (expected 2x)")
                elif not also_direct and xq.grad is not None:
                    b.fail("C10.bounded.nograd", d6, "x received a gradient through a constant view")
                b.case(d6)
    # inference with NON-tensor operands: Python / NumPy scalars, lists and arrays are constants -- the result is constant exactly when every
    # TENSOR operand is constant (or the result is integer-valued), whatever the kinds of the operands and of the result; a constant result never
    # acquires a gradient, as an intermediate neither
    others = [("py-float", 2.5), ("py-int", 2), ("py-bool", True), ("np.float64", np.float64(2.5)), ("np.float32", np.float32(2.5)), ("np.int64", np.int64(2)), ("list", [1.5, 2.5, 3.5]), ("float-array", np.array([1.5, 2.5, 3.5])),
              ("int-array", np.array([1, 2, 3])), ("0-d array", np.array(2.5))]
    tens = [("int64 constant", lambda: mg.tensor([1, 2, 3])), ("bool constant", lambda: mg.tensor([True, False, True])), ("int8 constant", lambda: mg.tensor(np.array([1, 2, 3], dtype=np.int8))),
            ("float constant", lambda: mg.tensor([1.0, 2.0, 3.0], constant=True)), ("float variable", lambda: mg.tensor([1.0, 2.0, 3.0]))]
    binops = [("/", lambda p, q: p / q), ("*", lambda p, q: p * q), ("+", lambda p, q: p + q), ("-", lambda p, q: p - q), ("**", lambda p, q: p ** q), ("mg.add", lambda p, q: mg.add(p, q)), ("mg.true_divide", lambda p, q: mg.true_divide(p, q)),
              ("mg.maximum", lambda p, q: mg.maximum(p, q)), ("mg.arctan2", lambda p, q: mg.arctan2(p, q))]
    for tn, tf in tens:
        for on_, ov in others:
            for bn, bf in binops:
                for side in ("tensor first", "tensor second"):
                    t0 = tf()
                    d5 = dict(family="inference with non-tensor operands", tensor=tn, other=on_, op=bn, order=side)
                    b.count("flag inference with non-tensor operands")
                    try:
                        with np.errstate(all="ignore"):
                            out = bf(t0, ov) if side == "tensor first" else bf(ov, t0)
                    except Exception:
                        continue  # NumPy / mygrad refuse the combination (e.g. bool - bool): not an inference case
                    if not isinstance(out, Tensor):
                        continue
                    exp_const = t0.constant or np.issubdtype(out.dtype, np.integer) or out.dtype == np.bool_
                    if out.constant is not bool(exp_const):
                        b.fail("C10.bounded.inference", d5, f"result.constant = {out.constant}; the only tensor operand has constant = {t0.constant}, result dtype {out.dtype}")
                        b.case(d5)
                        continue
                    if out.constant:
                        w_ = mg.tensor([1.0, 1.0, 1.0])
                        try:
                            (w_ * out).sum().backward()
                        except Exception as e:
                            b.fail("C10.bounded.inference_raises", d5, f"{type(e).__name__}: {e}")
                            continue
                        if out.grad is not None or t0.grad is not None:
                            b.fail("C10.bounded.nograd", d5, "a constant result (or its constant operand) acquired a gradient as an intermediate")
                    b.case(d5)
    # conversions and copies: an explicit constant= always wins, None infers from the result's dtype (integers are constant) -- for every
    # combination of source flag, source dtype, target dtype, copy= and the routine used (astype, copy, astensor, tensor, Tensor)
    routines = [
        ("astype", lambda t, dt, cp, c: t.astype(dt, copy=cp, constant=c)),
        ("astensor", lambda t, dt, cp, c: mg.astensor(t, dtype=dt, constant=c)),
        ("tensor", lambda t, dt, cp, c: mg.tensor(t, dtype=dt, copy=cp, constant=c)),
        ("Tensor", lambda t, dt, cp, c: mg.Tensor(t, dtype=dt, copy=cp, constant=c)),
        ("copy", lambda t, dt, cp, c: t.copy(constant=c)),
    ]
    for rn, rf in routines:
        for sdt, src_const in [(np.float64, True), (np.float64, False), (np.float32, True), (np.float32, False), (np.int64, True)]:
            for tdt in (np.float64, np.float32, np.int32):
                for cp in (True, False):
                    for c in (None, True, False):
                        if rn == "copy" and tdt is not sdt:
                            continue
                        src = mg.tensor(np.arange(1, 4).astype(sdt), constant=src_const)
                        d3 = dict(routine=rn, source_dtype=np.dtype(sdt).name, source_constant=src_const, dtype=np.dtype(tdt).name, copy=cp, constant=c)
                        b.count("explicit flag wins on conversion")
                        integer_result = np.issubdtype(np.dtype(sdt) if rn == "copy" else np.dtype(tdt), np.integer)
                        try:
                            out = rf(src, tdt, cp, c)
                        except ValueError as e:
                            if c is False and integer_result:
                                b.case(d3, nontrivial=False)
                                continue  # an integer tensor cannot be a variable: refused loudly
                            b.fail("C10.bounded.conversion_raises", d3, f"{type(e).__name__}: {e}")
                            continue
                        except Exception as e:
                            b.fail("C10.bounded.conversion_raises", d3, f"{type(e).__name__}: {e}")
                            continue
                        if c is not None and out.constant is not c:
                            b.fail("C10.bounded.explicit_flag_ignored", d3, f"constant={c} was passed, the result has constant={out.constant}")
                        elif c is None and integer_result and out.constant is not True:
                            b.fail("C10.bounded.integer_not_constant", d3, "integer-valued result is not constant")
                        elif src.constant is not src_const:
                            b.fail("C10.bounded.source_flag_changed", d3, "the source tensor's flag changed")
                        else:
                            # an un-frozen result really takes part in back-propagation
                            if out.constant is False:
                                (out * 2.0).sum().backward()
                                if out.grad is None:
                                    b.fail("C10.bounded.nonconstant_without_grad", d3, "the non-constant result received no gradient")
                        b.case(d3)
    return b


# ------------------------------------------------------------------------------------------------------------
def check_c11(tier, seed):
    rng = np.random.default_rng(seed)
    from mygrad.tensor_base import _REGISTERED_BOOL_ONLY_UFUNC, _REGISTERED_CONST_ONLY_UFUNC, _REGISTERED_DIFFERENTIABLE_NUMPY_FUNCS, _REGISTERED_NO_DIFF_NUMPY_FUNCS, _REGISTERED_UFUNC

    b = Bounded(
        "C11.bounded",
        bound="every registered ufunc (%d) and NumPy override (%d) x spellings {mg function, np function/ufunc on tensors, method, operator, augmented, out=Tensor, out=ndarray, where=, dtype=}; bool-only (%d) and const-only (%d) ufuncs; no-diff functions (%d)"
        % (len(_REGISTERED_UFUNC), len(_REGISTERED_DIFFERENTIABLE_NUMPY_FUNCS), len(_REGISTERED_BOOL_ONLY_UFUNC), len(_REGISTERED_CONST_ONLY_UFUNC), len(_REGISTERED_NO_DIFF_NUMPY_FUNCS)),
        rule="case = (operation, spelling A vs spelling B, operands); non-trivial = both spellings return and gradients are compared",
    )

    def run(fn, xs, consts):
        ts = [mg.tensor(x.copy(), constant=c) for x, c in zip(xs, consts)]
        out = fn(*ts)
        if isinstance(out, Tensor):
            g = np.ones(out.shape) * 1.5
            out.backward(g)
        return out, ts

    def agree(name, fa, fb, xs, consts, desc):
        b.count("spellings agree")
        try:
            oa, ta = run(fa, xs, consts)
        except Exception as e:
            b.error(f"{name}: reference spelling raised {type(e).__name__}: {e}")
            return
        try:
            ob, tb = run(fb, xs, consts)
        except Exception as e:
            b.fail(f"C11.bounded.{name}.raises", desc, f"{type(e).__name__}: {e}")
            return
        if not isinstance(ob, Tensor):
            b.fail(f"C11.bounded.{name}.not_tensor", desc, f"spelling returned {type(ob).__name__}")
            return
        if not (oa.shape == ob.shape and oa.dtype == ob.dtype and np.array_equal(oa.data, ob.data, equal_nan=True)):
            b.fail(f"C11.bounded.{name}.value", desc, f"values/dtype differ: {oa.dtype} vs {ob.dtype}")
        if oa.constant is not ob.constant:
            b.fail(f"C11.bounded.{name}.constant", desc, f"constant flags differ: {oa.constant} vs {ob.constant}")
        for i, (a, c) in enumerate(zip(ta, tb)):
            if (a.grad is None) != (c.grad is None) or (a.grad is not None and not np.allclose(a.grad, c.grad, rtol=1e-12, atol=0, equal_nan=True)):
                b.fail(f"C11.bounded.{name}.grad", dict(desc, operand=i), "back-propagated gradients differ")
        b.case(desc)

    x1 = rng.uniform(0.3, 0.9, size=(2, 3))
    x2 = rng.uniform(0.3, 0.9, size=(3,))
    for uf, mgcls in _REGISTERED_UFUNC.items():
        name = uf.__name__
        mgf = getattr(mg, name, None) or mgcls
        for consts in ([False, False], [True, False], [True, True]):
            if uf.nin == 1:
                xs = [x1]
                c1 = consts[:1]
                agree(name, lambda a: mgf(a), lambda a: uf(a), xs, c1, dict(op=name, A="mg", B="np.ufunc(tensor)", consts=c1))
                agree(name, lambda a: mgf(a), lambda a: uf(a, dtype=np.float64), xs, c1, dict(op=name, A="mg", B="np.ufunc(dtype=)", consts=c1))

                def with_out_t(a, uf=uf):
                    o = mg.tensor(np.full((2, 3), 0.5)) * 1.0
                    uf(a, out=o)
                    return o

                def with_out_t_mg(a, mgf=mgf):
                    o = mg.tensor(np.full((2, 3), 0.5)) * 1.0
                    mgf(a, out=o)
                    return o

                agree(name + "[out=Tensor]", with_out_t_mg, with_out_t, xs, c1, dict(op=name, A="mg(out=Tensor)", B="np.ufunc(out=Tensor)", consts=c1))
                mask = np.array([[True, False, True], [False, True, True]])

                def with_where(a, uf=uf):
                    o = mg.tensor(np.full((2, 3), 0.5)) * 1.0
                    uf(a, out=o, where=mask)
                    return o

                def with_where_mg(a, mgf=mgf):
                    o = mg.tensor(np.full((2, 3), 0.5)) * 1.0
                    mgf(a, out=o, where=mask)
                    return o

                agree(name + "[where,out=Tensor]", with_where_mg, with_where, xs, c1, dict(op=name, A="mg(where,out)", B="np.ufunc(where,out)", consts=c1))
            else:
                xs = [x1, x2]
                agree(name, lambda a, c: mgf(a, c), lambda a, c: uf(a, c), xs, consts, dict(op=name, A="mg", B="np.ufunc(tensor,tensor)", consts=consts))
                agree(name, lambda a, c: mgf(a, c), lambda a, c: uf(a.data, c) if not a.constant else uf(a, c), xs, consts, dict(op=name, A="mg", B="np.ufunc(ndarray-or-tensor,tensor)", consts=consts)) if consts[0] else None

                def b_out(a, c, uf=uf):
                    o = mg.tensor(np.full((2, 3), 0.5)) * 1.0
                    uf(a, c, out=o)
                    return o

                def b_out_mg(a, c, mgf=mgf):
                    o = mg.tensor(np.full((2, 3), 0.5)) * 1.0
                    mgf(a, c, out=o)
                    return o

                if uf.signature is None:
                    agree(name + "[out=Tensor]", b_out_mg, b_out, xs, consts, dict(op=name, A="mg(out=Tensor)", B="np.ufunc(out=Tensor)", consts=consts))
    # operators / augmented / methods
    import operator as op

    opers = [("add", op.add, op.iadd), ("subtract", op.sub, op.isub), ("multiply", op.mul, op.imul), ("divide", op.truediv, op.itruediv), ("power", op.pow, op.ipow)]
    for name, o, io_ in opers:
        mgf = getattr(mg, name)
        for consts in ([False, False], [True, False], [False, True]):
            agree(name + "[operator]", lambda a, c: mgf(a, c), lambda a, c: o(a, c), [x1, x2], consts, dict(op=name, A="mg", B="operator", consts=consts))
            agree(name + "[roperator-array]", lambda a, c: mgf(c.data, a), lambda a, c: o(c.data, a), [x1, x2], consts, dict(op=name, A="mg(array,t)", B="array <op> t", consts=consts))

            def aug(a, c, io_=io_):
                t = a * 1.0
                t = io_(t, c)
                return t

            def outf(a, c, mgf=mgf):
                t = a * 1.0
                mgf(t, c, out=t)
                return t

            agree(name + "[augmented]", outf, aug, [x1, x2], consts, dict(op=name, A="mg(t,c,out=t)", B="augmented operator", consts=consts))
    # operators with a scalar on either side, for every scalar value that could be special-cased and every tensor dtype family: the
    # operator, the reflected operator and the function must record the same operation (value, dtype, flag, gradients)
    scal = [1, 1.0, True, 2, -1, 0.5, 0, np.int64(1), np.float64(1.0), np.float32(2.0), np.int8(1)]
    for name, o, io_ in opers[:4]:
        mgf = getattr(mg, name)
        for dt in (np.float64, np.float32, np.int64, np.int8):
            xv = (rng.uniform(1, 4, size=(2, 3))).astype(dt)
            for sv in scal:
                if name == "divide" and sv == 0:
                    continue
                sd = f"{type(sv).__name__}:{sv}"
                agree(name + "[operator-scalar]", lambda a: mgf(a, sv), lambda a: o(a, sv), [xv], [None], dict(op=name, dtype=np.dtype(dt).name, scalar=sd, A="mg(t,s)", B="t <op> s"))
                agree(name + "[roperator-scalar]", lambda a: mgf(sv, a), lambda a: o(sv, a), [xv], [None], dict(op=name, dtype=np.dtype(dt).name, scalar=sd, A="mg(s,t)", B="s <op> t"))
                if not isinstance(sv, np.generic):
                    agree(name + "[rdunder-scalar]", lambda a: mgf(sv, a), lambda a: getattr(a, "__r" + {"add": "add", "subtract": "sub", "multiply": "mul", "divide": "truediv"}[name] + "__")(sv), [xv], [None],
                          dict(op=name, dtype=np.dtype(dt).name, scalar=sd, A="mg(s,t)", B="t.__r<op>__(s)"))
    for e in (1, 2, 3, 2.0, 0.5, np.array(2), np.array(1.0)):
        agree("power[operator-scalar]", lambda a: mg.power(a, e), lambda a: a ** e, [x1], [False], dict(op="power", exponent=repr(e), A="mg.power", B="**"))

        def ip(a, e=e):
            t = a * 1.0
            t **= e
            return t

        def ipo(a, e=e):
            t = a * 1.0
            mg.power(t, e, out=t)
            return t

        agree("power[ipow-scalar]", ipo, ip, [x1], [False], dict(op="power", exponent=repr(e), A="mg.power(out=t)", B="**="))
    agree("negative[operator]", lambda a: mg.negative(a), lambda a: -a, [x1], [False], dict(op="negative"))
    agree("positive[operator]", lambda a: mg.positive(a), lambda a: +a, [x1], [False], dict(op="positive"))
    agree("matmul[operator]", lambda a, c: mg.matmul(a, c), lambda a, c: a @ c, [x1, x2], [False, False], dict(op="matmul"))
    agree("matmul[roperator]", lambda a, c: mg.matmul(a.data, c), lambda a, c: a.data @ c, [x1, x2], [False, False], dict(op="rmatmul"))
    # method vs function vs NumPy-dispatch spellings with negative and mixed-sign axes, on a 3-d tensor: values, flags AND gradients
    x3 = rng.uniform(0.3, 0.9, size=(2, 3, 4))
    import itertools as _it

    for perm in _it.permutations(range(3)):
        for signs in _it.product((0, -3), repeat=3):
            ax = tuple(p_ + s_ for p_, s_ in zip(perm, signs))
            d_ = dict(op="transpose", axes=list(ax))
            agree("transpose[method,axes-tuple]", lambda a: mg.transpose(a, ax), lambda a: a.transpose(ax), [x3], [False], dict(d_, A="mg.transpose(x, axes)", B="x.transpose(axes)"))
            agree("transpose[method,axes-varargs]", lambda a: mg.transpose(a, ax), lambda a: a.transpose(*ax), [x3], [False], dict(d_, A="mg.transpose(x, axes)", B="x.transpose(*axes)"))
            agree("transpose[np]", lambda a: mg.transpose(a, ax), lambda a: np.transpose(a, ax), [x3], [False], dict(d_, A="mg.transpose(x, axes)", B="np.transpose(x, axes)"))
            agree("transpose[varargs-function]", lambda a: mg.transpose(a, ax), lambda a: mg.transpose(a, *ax), [x3], [False], dict(d_, A="mg.transpose(x, axes)", B="mg.transpose(x, *axes)"))
    for a1, a2 in [(0, -1), (-1, 0), (-2, 2), (1, -3), (-1, -2)]:
        agree("swapaxes[method]", lambda a: mg.swapaxes(a, a1, a2), lambda a: a.swapaxes(a1, a2), [x3], [False], dict(op="swapaxes", axes=[a1, a2]))
        agree("swapaxes[np]", lambda a: mg.swapaxes(a, a1, a2), lambda a: np.swapaxes(a, a1, a2), [x3], [False], dict(op="swapaxes", axes=[a1, a2]))
        agree("moveaxis[method]", lambda a: mg.moveaxis(a, a1, a2), lambda a: a.moveaxis(a1, a2), [x3], [False], dict(op="moveaxis", axes=[a1, a2]))
        agree("moveaxis[np]", lambda a: mg.moveaxis(a, a1, a2), lambda a: np.moveaxis(a, a1, a2), [x3], [False], dict(op="moveaxis", axes=[a1, a2]))
    for axv in (-1, -2, -3, (0, -1), (-1, -2), (-3, 1)):
        for nm_ in ("sum", "mean", "prod", "max", "min", "var", "std"):
            if isinstance(axv, tuple) and nm_ in ("max", "min") and False:
                continue
            mgf_ = getattr(mg, nm_)
            agree(nm_ + "[method,negative-axis]", lambda a: mgf_(a, axis=axv), lambda a: getattr(a, nm_)(axis=axv), [x3], [False], dict(op=nm_, axis=repr(axv), A="mg", B="method"))
            agree(nm_ + "[np,negative-axis]", lambda a: mgf_(a, axis=axv), lambda a: getattr(np, nm_)(a, axis=axv), [x3], [False], dict(op=nm_, axis=repr(axv), A="mg", B="numpy function"))
    for axv in (-1, -2):
        for nm_ in ("cumsum", "cumprod"):
            mgf_ = getattr(mg, nm_)
            agree(nm_ + "[method,negative-axis]", lambda a: mgf_(a, axis=axv), lambda a: getattr(a, nm_)(axis=axv), [x3], [False], dict(op=nm_, axis=axv))
    methods = [("sum", dict(axis=0)), ("prod", dict(axis=1)), ("mean", dict(axis=(0, 1))), ("max", dict(axis=0)), ("min", dict()), ("std", dict(axis=1)), ("var", dict(ddof=1)), ("cumsum", dict(axis=1)), ("cumprod", dict(axis=0)),
               ("swapaxes", (0, 1)), ("transpose", ()), ("moveaxis", (0, 1)), ("squeeze", ()), ("ravel", ()), ("reshape", ((3, 2),)), ("clip", (0.4, 0.8))]
    for nm, arg in methods:
        mgf = getattr(mg, nm)
        if isinstance(arg, dict):
            agree(nm + "[method]", lambda a: mgf(a, **arg), lambda a: getattr(a, nm)(**arg), [x1], [False], dict(op=nm, A="mg", B="method"))
            agree(nm + "[np]", lambda a: mgf(a, **arg), lambda a: getattr(np, nm)(a, **arg), [x1], [False], dict(op=nm, A="mg", B="numpy function"))
        else:
            agree(nm + "[method]", lambda a: mgf(a, *arg), lambda a: getattr(a, nm)(*arg), [x1], [False], dict(op=nm, A="mg", B="method"))
            agree(nm + "[np]", lambda a: mgf(a, *arg), lambda a: getattr(np, nm)(a, *arg), [x1], [False], dict(op=nm, A="mg", B="numpy function"))
    agree("T", lambda a: mg.transpose(a), lambda a: a.T, [x1], [False], dict(op="T"))
    agree("getitem", lambda a: mg.tensor_base.Tensor._op(mg.tensor_base.GetItem, a, op_args=((slice(None), 1),)), lambda a: a[:, 1], [x1], [False], dict(op="getitem"))
    # registered numpy overrides through __array_function__
    overrides = {
        "reshape": lambda f, a: f(a, (3, 2)), "squeeze": lambda f, a: f(a[None]), "ravel": lambda f, a: f(a), "expand_dims": lambda f, a: f(a, 0), "broadcast_to": lambda f, a: f(a, (2, 2, 3)),
        "transpose": lambda f, a: f(a), "moveaxis": lambda f, a: f(a, 0, 1), "swapaxes": lambda f, a: f(a, 0, 1), "roll": lambda f, a: f(a, 1), "concatenate": lambda f, a: f((a, a)), "stack": lambda f, a: f((a, a)),
        "repeat": lambda f, a: f(a, 2), "where": lambda f, a: f(a > 0.5, a, 0.0), "clip": lambda f, a: f(a, 0.4, 0.8), "sum": lambda f, a: f(a), "prod": lambda f, a: f(a), "mean": lambda f, a: f(a), "max": lambda f, a: f(a),
        "min": lambda f, a: f(a), "amax": lambda f, a: f(a), "amin": lambda f, a: f(a), "var": lambda f, a: f(a), "std": lambda f, a: f(a), "cumsum": lambda f, a: f(a), "cumprod": lambda f, a: f(a), "einsum": None, "matmul": None,
        "atleast_1d": lambda f, a: f(a), "atleast_2d": lambda f, a: f(a), "atleast_3d": lambda f, a: f(a), "sinc": lambda f, a: f(a), "any": None, "argmax": None, "argmin": None,
    }
    covered = 0
    for npf, mgf in _REGISTERED_DIFFERENTIABLE_NUMPY_FUNCS.items():
        nm = npf.__name__
        call = overrides.get(nm)
        if call is None:
            if nm == "einsum":
                agree("einsum[np]", lambda a: mg.einsum("ij->j", a), lambda a: np.einsum("ij->j", a), [x1], [False], dict(op="einsum"))
                covered += 1
            elif nm == "matmul":
                covered += 1
            elif nm in ("any", "argmax", "argmin", "linalg.norm", "norm", "multi_matmul", "multi_dot"):
                covered += 1
            elif nm in ("empty_like", "ones_like", "zeros_like", "full_like"):
                covered += 1
                args = (3.0,) if nm == "full_like" else ()
                r_np, r_mg = npf(mg.tensor(x1), *args), mgf(mg.tensor(x1), *args)
                b.case(dict(op=nm, A="mg function", B="np function via __array_function__"))
                if not isinstance(r_np, Tensor) or r_np.dtype != r_mg.dtype or r_np.shape != r_mg.shape or (nm != "empty_like" and not np.array_equal(r_np.data, r_mg.data)):
                    b.fail(f"C11.bounded.{nm}.array_function", dict(op=nm), "np.<creation>_like(tensor) differs from mg.<creation>_like(tensor)")
            else:
                b.error(f"registered override {nm} has no spelling case")
            continue
        covered += 1
        agree(nm + "[array_function]", lambda a: call(mgf, a), lambda a: call(npf, a), [x1], [False], dict(op=nm, A="mg function", B="np function via __array_function__"))
    # bool-only ufuncs: plain arrays; const-only: refuse non-constant tensors
    t = mg.tensor(x1)
    tc = mg.tensor(x1, constant=True)
    for uf in sorted(_REGISTERED_BOOL_ONLY_UFUNC, key=lambda u: u.__name__):
        if uf is np.isnat:
            continue
        b.count("bool-only returns ndarray")
        try:
            r = uf(t) if uf.nin == 1 else uf(t, 0.5)
            ref = uf(x1) if uf.nin == 1 else uf(x1, 0.5)
            if isinstance(r, Tensor) or not isinstance(r, np.ndarray) or not np.array_equal(r, ref):
                b.fail("C11.bounded.boolonly", dict(ufunc=uf.__name__), f"returned {type(r).__name__}")
        except Exception as e:
            b.fail("C11.bounded.boolonly.raises", dict(ufunc=uf.__name__), f"{type(e).__name__}: {e}")
        b.case(dict(ufunc=uf.__name__, kind="bool-only"))
    for uf in sorted(_REGISTERED_CONST_ONLY_UFUNC, key=lambda u: u.__name__):
        args_nc = (t,) if uf.nin == 1 else (t, 2.0)
        args_c = (tc,) if uf.nin == 1 else (tc, 2.0)
        b.count("const-only refuses non-constant")
        try:
            uf(*args_nc)
            b.fail("C11.bounded.constonly.accepts_nonconstant", dict(ufunc=uf.__name__), "non-constant tensor silently dropped from the graph")
        except ValueError:
            pass
        except Exception as e:
            b.fail("C11.bounded.constonly.wrong_error", dict(ufunc=uf.__name__), f"{type(e).__name__}: {e}")
        if uf.nin == 2:
            try:
                uf(2.0, t)
                b.fail("C11.bounded.constonly.accepts_nonconstant", dict(ufunc=uf.__name__, position=1), "non-constant tensor silently dropped")
            except ValueError:
                pass
            try:
                uf(tc, 2.0, out=mg.tensor(np.zeros((2, 3))))
                b.fail("C11.bounded.constonly.accepts_nonconstant_out", dict(ufunc=uf.__name__), "non-constant out= tensor accepted")
            except ValueError:
                pass
            except Exception:
                pass
        try:
            r = uf(*args_c)
            ref = uf(x1) if uf.nin == 1 else uf(x1, 2.0)
            r0 = r[0] if isinstance(r, tuple) else r
            ref0 = ref[0] if isinstance(ref, tuple) else ref
            if isinstance(r0, Tensor) or not np.array_equal(r0, ref0):
                b.fail("C11.bounded.constonly.value", dict(ufunc=uf.__name__), "wrong result on constant tensor")
        except Exception as e:
            b.fail("C11.bounded.constonly.raises_on_constant", dict(ufunc=uf.__name__), f"{type(e).__name__}: {e}")
        b.case(dict(ufunc=uf.__name__, kind="const-only"))
    for f in (np.shape, np.result_type, np.can_cast, np.allclose, np.isclose, np.may_share_memory, np.shares_memory, np.min_scalar_type):
        b.count("no-diff function returns plain object")
        try:
            r = f(t, t) if f in (np.allclose, np.isclose, np.may_share_memory, np.shares_memory, np.result_type) else (f(t, np.float64) if f is np.can_cast else f(t))
            if isinstance(r, Tensor):
                b.fail("C11.bounded.nodiff", dict(fn=f.__name__), "returned a Tensor")
        except Exception as e:
            if f is not np.can_cast:
                b.fail("C11.bounded.nodiff.raises", dict(fn=f.__name__), f"{type(e).__name__}: {e}")
        b.case(dict(fn=f.__name__, kind="no-diff"))
    # positional spellings: every Tensor method that has a mygrad function of the same name, called with the method's own parameters given
    # POSITIONALLY (every prefix of them), against the function called with the same positional list and against the keyword spelling
    import inspect

    canon = dict(axis=1, keepdims=True, ddof=1, axes=(1, 0, 2), axis1=0, axis2=2, source=0, destination=2, a_min=-0.5, a_max=0.5, order="C", constant=None, newshape=(6, 4), shape=(6, 4), dtype=np.float64, copy=False,
                 casting="unsafe", offset=0, indices=[0, 1], repeats=2, shift=1, k=1, out=None)
    canon.update(newshape=(4, 3), shape=(4, 3))
    x3v = rng.uniform(-1, 1, size=(3, 1, 4))

    def agree_any(name, fa, fb, desc):
        """like agree(), for routines that may return plain arrays (any, argmax, ...)"""
        b.count("spellings agree")
        try:
            ra = fa(mg.tensor(x3v.copy()))
        except Exception as e:
            b.error(f"{name}: reference spelling raised {type(e).__name__}: {e}")
            return
        try:
            rb = fb(mg.tensor(x3v.copy()))
        except Exception as e:
            b.fail(f"C11.bounded.{name}.raises", desc, f"{type(e).__name__}: {e}")
            return
        da, db = (ra.data if isinstance(ra, Tensor) else np.asarray(ra)), (rb.data if isinstance(rb, Tensor) else np.asarray(rb))
        if type(ra) is not type(rb) or da.shape != db.shape or da.dtype != db.dtype or not np.array_equal(da, db, equal_nan=True):
            b.fail(f"C11.bounded.{name}.value", desc, f"results differ: {type(ra).__name__}{da.shape}{da.dtype} vs {type(rb).__name__}{db.shape}{db.dtype}")
    for mname, meth in sorted(inspect.getmembers(Tensor, predicate=inspect.isfunction)):
        if mname.startswith("_") or not callable(getattr(mg, mname, None)):
            continue
        try:
            params = [p_ for p_ in list(inspect.signature(meth).parameters.values())[1:] if p_.kind in (p_.POSITIONAL_ONLY, p_.POSITIONAL_OR_KEYWORD)]
        except (TypeError, ValueError):
            continue
        if not params or any(p_.name not in canon for p_ in params):
            continue
        n_required = max([i_ + 1 for i_, p_ in enumerate(params) if p_.default is p_.empty], default=0)
        for k_ in range(max(1, n_required), len(params) + 1):
            names = [p_.name for p_ in params[:k_]]
            vals = [canon[n_] for n_ in names]
            d_ = dict(method=mname, positional=names)
            probe = getattr(mg.tensor(x3v.copy()), mname)
            try:
                is_tensor = isinstance(probe(*vals), Tensor)
            except Exception:
                is_tensor = True
            if is_tensor:
                agree(f"positional[{mname}].method_vs_keyword", (lambda mname=mname, names=names, vals=vals: lambda a: getattr(a, mname)(**dict(zip(names, vals))))(),
                      (lambda mname=mname, vals=vals: lambda a: getattr(a, mname)(*vals))(), [x3v], [False], dict(d_, A=f"x.{mname}(**kw)", B=f"x.{mname}(*args)"))
                agree(f"positional[{mname}].function_vs_method", (lambda mname=mname, vals=vals: lambda a: getattr(a, mname)(*vals))(),
                      (lambda mname=mname, vals=vals: lambda a: getattr(mg, mname)(a, *vals))(), [x3v], [False], dict(d_, A=f"x.{mname}(*args)", B=f"mg.{mname}(x, *args)"))
            else:
                agree_any(f"positional[{mname}].method_vs_keyword", (lambda mname=mname, names=names, vals=vals: lambda a: getattr(a, mname)(**dict(zip(names, vals))))(),
                          (lambda mname=mname, vals=vals: lambda a: getattr(a, mname)(*vals))(), dict(d_, A=f"x.{mname}(**kw)", B=f"x.{mname}(*args)"))
                agree_any(f"positional[{mname}].function_vs_method", (lambda mname=mname, vals=vals: lambda a: getattr(a, mname)(*vals))(),
                          (lambda mname=mname, vals=vals: lambda a: getattr(mg, mname)(a, *vals))(), dict(d_, A=f"x.{mname}(*args)", B=f"mg.{mname}(x, *args)"))
            b.case(d_)
    return b


# ------------------------------------------------------------------------------------------------------------
def check_c17(tier, seed):
    rng = np.random.default_rng(seed)
    b = Bounded(
        "C17.bounded",
        bound="input kinds {python scalar, list, nested list, ndarray C/F/strided/int, Tensor plain / with graph+grad / view} x dtype {None, same, other} x constant {None,T,F} x copy {T,F} x ndmin {0,1,3} for tensor()/Tensor()/astensor()/asarray(); copy()/astype(); 20 creation routines x argument catalogue vs NumPy",
        rule="case = (entry point, input kind, options); non-trivial = construction succeeds and aliasing/dtype/flag/graph contracts are evaluated",
    )

    def inputs():
        a = rng.uniform(1, 2, size=(2, 3))
        yield "pyfloat", 2.5
        yield "pyint", 3
        yield "list", [1.0, 2.0, 3.0]
        yield "nested", [[1, 2], [3, 4]]
        yield "ndarray-C", a.copy()
        yield "ndarray-F", np.asfortranarray(a)
        yield "ndarray-strided", rng.uniform(1, 2, size=(2, 6))[:, ::2]
        yield "ndarray-int", np.arange(6).reshape(2, 3)
        yield "ndarray-f32", a.astype(np.float32)
        yield "tensor", mg.tensor(a.copy())
        t = mg.tensor(a.copy())
        y = t * 2.0
        y.backward()
        yield "tensor-with-grad", t
        t2 = mg.tensor(a.copy())
        z = t2 * 3.0
        yield "tensor-with-graph", z
        base = mg.tensor(a.copy())
        yield "tensor-view", base[1:]
        yield "tensor-const", mg.tensor(a.copy(), constant=True)

    for kind, _x in inputs():
        for dt in (None, "same", np.float32, np.float64, np.int64):
            for const in (None, True, False):
                for copy in (True, False):
                    for ndmin in (0, 1, 3):
                        for entry in ("tensor", "Tensor", "astensor"):
                            if entry == "astensor" and (copy is True or ndmin != 0):
                                continue
                            x = dict(inputs())[kind]
                            src_arr = x.data if isinstance(x, Tensor) else (x if isinstance(x, np.ndarray) else None)
                            inferred = np.asarray(src_arr if src_arr is not None else x).dtype
                            dtype = inferred if dt == "same" else dt
                            final_dt = np.dtype(dtype) if dtype is not None else inferred
                            desc = dict(entry=entry, input=kind, dtype=None if dtype is None else np.dtype(dtype).name, constant=const, copy=copy, ndmin=ndmin)
                            must_fail = final_dt.kind in "biu" and const is False
                            try:
                                if entry == "tensor":
                                    r = mg.tensor(x, dtype=dtype, constant=const, copy=copy, ndmin=ndmin)
                                elif entry == "Tensor":
                                    r = Tensor(x, dtype=dtype, constant=const, copy=copy, ndmin=ndmin)
                                else:
                                    r = mg.astensor(x, dtype=dtype, constant=const)
                            except ValueError as e:
                                if not must_fail:
                                    b.fail("C17.bounded.raises", desc, f"ValueError: {e}")
                                b.case(desc)
                                continue
                            except Exception as e:
                                b.fail("C17.bounded.raises", desc, f"{type(e).__name__}: {e}")
                                continue
                            b.count("construction")
                            if must_fail:
                                b.fail("C17.bounded.int_nonconstant", desc, "integer tensor with constant=False accepted")
                                continue
                            ref = np.array(src_arr if src_arr is not None else x, dtype=dtype, copy=True, ndmin=ndmin)
                            if r.dtype != ref.dtype or r.shape != ref.shape or not np.array_equal(r.data, ref):
                                b.fail("C17.bounded.value", desc, f"dtype/shape/value differ from np.array: {r.dtype}{r.shape} vs {ref.dtype}{ref.shape}")
                            exp_const = (final_dt.kind != "f") if const is None else const
                            if isinstance(x, Tensor) and entry in ("tensor", "astensor") and copy is False and const is None and (dtype is None or x.dtype == np.dtype(dtype)):
                                exp_const = x.constant  # returned as-is, or (ndmin > ndim) as a view of it
                            if r.constant is not exp_const:
                                b.fail("C17.bounded.flag", desc, f"constant={r.constant}, expected {exp_const}")
                            if src_arr is not None and src_arr.size:
                                sh = np.shares_memory(r.data, src_arr)
                                if copy is True and sh:
                                    b.fail("C17.bounded.copy_aliases", desc, "copy=True result shares memory with its input")
                                if copy is False and final_dt == src_arr.dtype and not sh:
                                    b.fail("C17.bounded.nocopy_copies", desc, "copy=False did not reuse the memory although the dtype matches")
                            if isinstance(x, Tensor) and entry in ("tensor", "astensor") and copy is False:
                                same_req = (const is None or x.constant is const) and (dtype is None or x.dtype == np.dtype(dtype))
                                if same_req and ndmin <= x.ndim:
                                    if r is not x:
                                        b.fail("C17.bounded.identity", desc, "tensor not returned as-is although dtype/constant match")
                                    elif kind == "tensor-with-grad" and r.grad is None:
                                        b.fail("C17.bounded.identity_grad", desc, "gradient lost")
                                    elif kind == "tensor-with-graph" and r.creator is None:
                                        b.fail("C17.bounded.identity_graph", desc, "graph lost")
                                if not same_req and r is x:
                                    b.fail("C17.bounded.identity", desc, "tensor returned as-is although dtype/constant differ")
                            if not (isinstance(x, Tensor) and r is x) and not (isinstance(x, Tensor) and entry in ("tensor", "astensor") and copy is False and ndmin > x.ndim):
                                if r.creator is not None or r.grad is not None:
                                    b.fail("C17.bounded.detached", desc, "new tensor has a creator / gradient")
                            b.case(desc)
    # later changes to x are not seen by tensor(x) / Tensor(x)
    a = rng.uniform(1, 2, size=(3,))
    for entry in (mg.tensor, Tensor):
        t = entry(a)
        snap = t.data.copy()
        a[0] = -99.0
        b.case(dict(contract="copy-by-default", entry=entry.__name__))
        if not np.array_equal(t.data, snap):
            b.fail("C17.bounded.default_copy", dict(entry=entry.__name__), "tensor sees later changes of its input")
        a[0] = snap[0]
    # asarray / astensor reuse the memory of every layout (C, F, transposed, strided, column view) when the dtype allows
    for lay, mk in (("C", lambda z: z.copy()), ("F", np.asfortranarray), ("transposed", lambda z: z.T), ("strided", lambda z: z[:, ::2]), ("reversed", lambda z: z[::-1])):
        z = mk(rng.uniform(1, 2, size=(3, 4)))
        for entry in ("asarray(ndarray)", "asarray(tensor)", "astensor(ndarray)", "tensor(copy=False)", "asarray(tensor-view)"):
            desc = dict(contract="memory reuse", layout=lay, entry=entry)
            b.count("memory reuse")
            if entry == "asarray(ndarray)":
                r = mg.asarray(z)
                ok = r is z
            elif entry == "asarray(tensor)":
                t_ = mg.tensor(z, copy=False)
                r = mg.asarray(t_)
                ok = r is t_.data and np.shares_memory(r, z)
            elif entry == "astensor(ndarray)":
                r = mg.astensor(z)
                ok = r.data is z or (np.shares_memory(r.data, z) and r.data.strides == z.strides)
            elif entry == "tensor(copy=False)":
                r = mg.tensor(z, copy=False)
                ok = np.shares_memory(r.data, z) and r.data.strides == z.strides
            else:
                t_ = mg.tensor(z.copy())[:, 1]
                r = mg.asarray(t_)
                ok = r is t_.data
            if not ok:
                b.fail("C17.bounded.memory_not_reused", desc, "the result does not reuse the input's memory although the dtype matches")
            b.case(desc)
    arr = mg.asarray(mg.tensor(a))
    b.case(dict(contract="asarray-shares"))
    if not isinstance(arr, np.ndarray) or not np.shares_memory(arr, mg.asarray(arr)):
        b.fail("C17.bounded.asarray", {}, "asarray did not return the underlying array")
    # copy / astype are detached
    t = mg.tensor(rng.uniform(1, 2, size=(2, 2)))
    y = t * 2.0
    y.backward()
    tc = t.copy()
    if tc.grad is None or np.shares_memory(tc.grad, t.grad) or not np.array_equal(tc.grad, t.grad) or np.shares_memory(tc.data, t.data) or tc.constant is not t.constant:
        b.fail("C17.bounded.copy_contents", {}, "copy(): data/grad not equal-and-fresh or flag changed")
    y2 = (t * 3.0)
    for nm, r in (("copy", y2.copy()), ("__copy__", y2.__copy__()), ("astype-f32", y2.astype(np.float32)), ("astype-same-copy", y2.astype(np.float64)), ("copy-const", t.copy(constant=True))):
        b.case(dict(contract="detached", how=nm))
        if r.creator is not None or r.base is not None or len(r._ops) or (r.data.size and np.shares_memory(r.data, y2.data) and nm != "astype-same-nocopy"):
            b.fail("C17.bounded.detach", dict(how=nm), "result of copy()/astype() is attached to a graph or shares memory")
    same_ = t.astype(np.float64, copy=False)
    b.case(dict(contract="astype-copy=False-same-dtype"))
    if same_ is not t:
        b.fail("C17.bounded.astype_identity", {}, "astype(copy=False) with the same dtype did not return self")
    # creation routines vs numpy
    cre = [
        ("zeros", [((2, 3),), (3,), ((0,),)], [{}, dict(dtype=np.int32), dict(dtype=np.float64)]), ("ones", [((2, 3),), (3,)], [{}, dict(dtype=np.int8), dict(dtype="float64")]),
        ("empty", [((2, 3),)], [{}, dict(dtype=np.int16)]), ("full", [((2, 3), 7), ((2,), 1.5), ((2, 2), True)], [{}, dict(dtype=np.float32)]),
        ("zeros_like", [(np.ones((2, 3), dtype=np.float32),), (np.arange(3),), (mg.tensor([1.0, 2.0]),)], [{}, dict(dtype=np.float64)]),
        ("ones_like", [(np.ones((2, 3), dtype=np.float32),), (mg.tensor([1, 2]),)], [{}, dict(dtype=np.int8)]), ("empty_like", [(np.ones((2, 3)),)], [{}]),
        ("full_like", [(np.ones((2, 3), dtype=np.float32), 3), (mg.tensor([1, 2]), 2.5)], [{}, dict(dtype=np.float64)]),
        ("arange", [(5,), (1, 7, 2), (0.0, 1.0, 0.25), (3.0,)], [{}, dict(dtype=np.float32)]), ("linspace", [(0, 1, 5), (1, 10, 4)], [{}, dict(endpoint=False), dict(dtype=np.float32)]),
        ("logspace", [(0, 2, 4)], [{}, dict(base=2.0)]), ("geomspace", [(1, 1000, 4)], [{}, dict(endpoint=False)]), ("eye", [(3,), (2, 3)], [{}, dict(k=1), dict(dtype=int)]), ("identity", [(3,)], [{}, dict(dtype=np.int8)]),
    ]
    for nm, argsets, kwsets in cre:
        for args in argsets:
            for kw in kwsets:
                desc = dict(routine=nm, args=repr(args)[:60], kwargs=str(kw))
                np_args = tuple(a_.data if isinstance(a_, Tensor) else a_ for a_ in args)
                try:
                    ref = getattr(np, nm)(*np_args, **kw)
                except Exception:
                    continue
                b.count("creation == numpy")
                try:
                    r = getattr(mg, nm)(*args, **kw)
                except Exception as e:
                    b.fail("C17.bounded.create.raises", desc, f"{type(e).__name__}: {e}")
                    continue
                exp_dtype = ref.dtype
                if nm in ("zeros", "ones", "empty") and "dtype" not in kw:
                    exp_dtype = np.dtype(np.float32)  # documented MyGrad default
                ok = isinstance(r, Tensor) and r.shape == ref.shape and r.dtype == exp_dtype and (nm.startswith("empty") or np.array_equal(r.data, ref.astype(exp_dtype)))
                if not ok:
                    b.fail("C17.bounded.create.value", desc, f"got {getattr(r,'dtype',None)}{getattr(r,'shape',None)}, numpy {ref.dtype}{ref.shape}")
                b.case(desc)
    # dtype SPELLINGS: byte order and C-type aliases.  The tensor itself comes back exactly when the requested dtype EQUALS the tensor's (NumPy's
    # dtype equality: '<f8' is float64 on this machine, '>f8' is not; np.longlong is int64), and the result's dtype is the requested one
    for sdt in (np.float64, np.float32, np.int64):
        native = np.dtype(sdt)
        specs = [native.newbyteorder(">"), native.newbyteorder("<"), native.newbyteorder("="), native.str, native.newbyteorder(">").str, native.name, native.char, sdt]
        if sdt is np.int64:
            specs += [np.longlong, np.int_, "q", "l"]
        if sdt is np.float64:
            specs += [float, np.double, "d"]
        for spec in specs:
            for rn, rf in (("astensor", lambda t_, sp: mg.astensor(t_, dtype=sp)), ("tensor(copy=False)", lambda t_, sp: mg.tensor(t_, dtype=sp, copy=False)), ("astype(copy=False)", lambda t_, sp: t_.astype(sp, copy=False))):
                src = mg.tensor(np.arange(1, 4).astype(sdt))
                ref = np.asarray(src.data, dtype=spec) if rn != "astype(copy=False)" else src.data.astype(spec, copy=False)
                d4 = dict(routine=rn, source_dtype=native.name, dtype_spec=repr(spec))
                b.count("dtype spelling")
                try:
                    out = rf(src, spec)
                except Exception as e:
                    b.fail("C17.bounded.dtype_spelling.raises", d4, f"{type(e).__name__}: {e}")
                    continue
                if out.dtype != ref.dtype:
                    b.fail("C17.bounded.dtype_spelling.dtype", d4, f"result dtype {out.dtype.str}, NumPy gives {ref.dtype.str}")
                elif (out is src) != (np.dtype(spec) == native):
                    b.fail("C17.bounded.dtype_spelling.pass_through", d4, f"tensor passed through: {out is src}; requested dtype equals the tensor's: {np.dtype(spec) == native}")
                elif not np.array_equal(out.data, ref):
                    b.fail("C17.bounded.dtype_spelling.value", d4, "values differ")
                b.case(d4)
    for bad in (np.complex64, "U3", object):
        try:
            mg.zeros((2,), dtype=bad)
            b.fail("C17.bounded.nonreal_dtype_accepted", dict(dtype=str(bad)), "non-real dtype accepted while tracking is on")
        except (TypeError, ValueError):
            pass
        b.case(dict(contract="non-real rejected", dtype=str(bad)))
    return b


# ------------------------------------------------------------------------------------------------------------
def check_c18(tier, seed):
    rng = np.random.default_rng(seed)
    b = Bounded(
        "C18.bounded",
        bound="shapes {(), (0,), (0,3), (3,), (2,3)} x dtypes {bool,int8,int64,float16,float32,float64} x constant x {no grad, own grad, view with view-grad (read before save), view whose grad was never read before save, view whose cached view-grad is stale} x {path, path without .npz, BytesIO, TemporaryFile}",
        rule="case = (shape, dtype, constant, gradient kind, file kind); non-trivial = round trip executed and every field compared",
    )
    tmpdir = tempfile.mkdtemp(prefix="mygrad-verif-c18-")
    try:
        n = 0
        for shape in [(), (0,), (0, 3), (3,), (2, 3)]:
            for dt in (np.bool_, np.int8, np.int64, np.float16, np.float32, np.float64):
                for const in (None, True):
                    for gk in ("none", "own", "view", "view-unread", "view-stale"):
                        if np.dtype(dt).kind != "f" and gk != "none":
                            continue
                        if const and gk != "none":
                            continue
                        for fk in ("path", "path-noext", "bytesio", "tempfile"):
                            vals = (rng.uniform(-2, 2, size=shape) * 3).astype(dt) if np.dtype(dt).kind != "b" else rng.uniform(size=shape) > 0.5
                            t = mg.tensor(vals, constant=const)
                            if gk == "own":
                                (t * 2.0).sum().backward() if t.size else t.backward() if t.ndim == 0 else (t * 2.0).sum().backward()
                            elif gk == "view":
                                base = mg.tensor(rng.uniform(-2, 2, size=(2,) + shape).astype(dt))
                                t = base[1, ...]  # `...` keeps a 0-d result a view (base[1] of a 1-d array is a copy)
                                (base * 3.0).sum().backward()
                            elif gk in ("view-unread", "view-stale"):
                                base = mg.tensor(rng.uniform(-2, 2, size=(2,) + shape).astype(dt))
                                t = base[1, ...]  # `...` keeps a 0-d result a view (base[1] of a 1-d array is a copy)
                                (base * 3.0).sum().backward()
                                g_expect = np.full(shape, 3.0, dtype=dt)
                                if gk == "view-stale":
                                    t.grad  # caches the window onto the first gradient
                                    (base * 5.0).sum().backward()
                                    g_expect = np.full(shape, 5.0, dtype=dt)
                            desc = dict(shape=list(shape), dtype=np.dtype(dt).name, constant=const, grad=gk, file=fk)
                            if gk in ("view-unread", "view-stale"):
                                # the expected gradient is computed without reading t.grad before the save
                                d0, g0 = t.data.copy(), g_expect
                            else:
                                d0, g0 = t.data.copy(), None if t.grad is None else t.grad.copy()
                            fields0 = (t.creator, t.base, t.constant, len(t._ops))
                            try:
                                n += 1
                                if fk == "path":
                                    p = os.path.join(tmpdir, f"t{n}.npz")
                                    mg.save(p, t)
                                    r = mg.load(p)
                                elif fk == "path-noext":
                                    p = os.path.join(tmpdir, f"t{n}")
                                    mg.save(p, t)
                                    r = mg.load(p + ".npz")
                                elif fk == "bytesio":
                                    f = io.BytesIO()
                                    mg.save(f, t)
                                    f.seek(0)
                                    r = mg.load(f)
                                else:
                                    with tempfile.TemporaryFile(dir=tmpdir) as f:
                                        mg.save(f, t)
                                        f.seek(0)
                                        r = mg.load(f)
                            except Exception as e:
                                b.fail("C18.bounded.raises", desc, f"{type(e).__name__}: {e}")
                                continue
                            b.count("round trip")
                            if not (isinstance(r, Tensor) and r.dtype == t.dtype and r.shape == t.shape and np.array_equal(r.data, d0, equal_nan=True)):
                                b.fail("C18.bounded.data", desc, f"loaded {getattr(r,'dtype',None)}{getattr(r,'shape',None)} vs saved {t.dtype}{t.shape}")
                            if g0 is None:
                                if r.grad is not None:
                                    b.fail("C18.bounded.grad_spurious", desc, "loaded tensor has a gradient although none was saved")
                            else:
                                if r.grad is None or r.grad.dtype != g0.dtype or r.grad.shape != g0.shape or not np.array_equal(r.grad, g0):
                                    b.fail("C18.bounded.grad", desc, "loaded gradient differs in value/shape/dtype")
                            if not np.array_equal(t.data, d0, equal_nan=True) or (g0 is not None and not np.array_equal(t.grad, g0)) or (g0 is None and t.grad is not None) or (t.creator, t.base, t.constant, len(t._ops)) != fields0:
                                b.fail("C18.bounded.save_alters_tensor", desc, "saving altered the tensor, its gradient or its graph fields")
                            b.case(desc)
        # the round trip with graph tracking switched off around save, around load, or around both (a tensor's saved state does not depend on it)
        for where_off in ("save", "load", "both"):
            for shape in [(), (3,), (2, 3)]:
                for dt in (np.float32, np.float64):
                    for fk in ("path", "bytesio"):
                        t = mg.tensor(rng.uniform(-2, 2, size=shape).astype(dt))
                        (t * 2.0).sum().backward()
                        d0, g0 = t.data.copy(), t.grad.copy()
                        desc = dict(family="round trip with graph tracking switched off", no_autodiff_around=where_off, shape=list(shape), dtype=np.dtype(dt).name, file=fk)
                        n += 1
                        f = os.path.join(tmpdir, f"na{n}.npz") if fk == "path" else io.BytesIO()
                        try:
                            if where_off in ("save", "both"):
                                with mg.no_autodiff:
                                    mg.save(f, t)
                            else:
                                mg.save(f, t)
                            if fk != "path":
                                f.seek(0)
                            if where_off in ("load", "both"):
                                with mg.no_autodiff:
                                    r = mg.load(f)
                            else:
                                r = mg.load(f)
                        except Exception as e:
                            b.fail("C18.bounded.raises", desc, f"{type(e).__name__}: {e}")
                            continue
                        b.count("round trip")
                        if not (isinstance(r, Tensor) and r.dtype == t.dtype and r.shape == t.shape and np.array_equal(r.data, d0)):
                            b.fail("C18.bounded.data", desc, "loaded data differs")
                        if r.grad is None or r.grad.dtype != g0.dtype or r.grad.shape != g0.shape or not np.array_equal(r.grad, g0):
                            b.fail("C18.bounded.grad_lost_without_tracking", desc, f"loaded gradient = {None if r.grad is None else r.grad.tolist()}, saved {g0.tolist()}")
                        b.case(desc)
        # memory layouts and non-uniform gradients: Fortran-ordered / transposed / strided / axis-permuted data, gradients with distinct entries
        # (also nan / inf), every float width: the loaded tensor has the saved values element by element, whatever layout the archive keeps
        def layouts():
            a = rng.uniform(-2, 2, size=(3, 4))
            yield "C", a.copy()
            yield "F", np.asfortranarray(a)
            yield "transposed view", a.T
            yield "strided view", a[:, ::2]
            yield "reversed view", a[::-1]
            a3 = rng.uniform(-2, 2, size=(2, 3, 4))
            yield "axis-permuted 3-d", a3.transpose(1, 0, 2)
            yield "F 3-d", np.asfortranarray(a3)
            yield "column (n,1)", a[:, :1]

        for ln, arr in layouts():
            for dt in (np.float64, np.float32, np.float16):
                for special in (False, True):
                    for fk in ("path", "bytesio"):
                        t = mg.tensor(arr.astype(dt), copy=False) if arr.dtype == dt else mg.tensor(arr.astype(dt, order="K"))
                        Wt = (np.arange(1, t.size + 1, dtype=np.float64).reshape(t.shape) / 7.0).astype(dt)
                        if special and t.size > 2:
                            Wt.flat[0], Wt.flat[1] = np.nan, np.inf
                        with np.errstate(all="ignore"):
                            (t * Wt).sum().backward()
                        d0, g0 = t.data.copy(), t.grad.copy()
                        desc = dict(family="memory layout", layout=ln, dtype=np.dtype(dt).name, grad_has_nan_inf=special, file=fk, data_strides=list(t.data.strides), grad_strides=list(t.grad.strides))
                        b.count("round trip")
                        try:
                            if fk == "path":
                                pth = os.path.join(tmpdir, f"layout{n}.npz"); n += 1
                                mg.save(pth, t)
                                r = mg.load(pth)
                            else:
                                f = io.BytesIO()
                                mg.save(f, t)
                                f.seek(0)
                                r = mg.load(f)
                        except Exception as e:
                            b.fail("C18.bounded.raises", desc, f"{type(e).__name__}: {e}")
                            continue
                        if not (r.dtype == t.dtype and r.shape == t.shape and np.array_equal(r.data, d0)):
                            b.fail("C18.bounded.data", desc, "loaded data differs in value/shape/dtype")
                        if r.grad is None or r.grad.dtype != g0.dtype or r.grad.shape != g0.shape or not np.array_equal(r.grad, g0, equal_nan=True):
                            b.fail("C18.bounded.grad", desc, f"loaded gradient differs: {None if r.grad is None else r.grad.ravel()[:4].tolist()} vs saved {g0.ravel()[:4].tolist()}")
                        if not np.array_equal(t.data, d0) or not np.array_equal(t.grad, g0, equal_nan=True):
                            b.fail("C18.bounded.save_alters_tensor", desc, "saving altered the tensor or its gradient")
                        b.case(desc)
        # how the file is addressed: str / pathlib.Path / os.PathLike x names with and without dots and suffixes.  The file numpy.savez
        # itself writes for that target is the specification: exactly that file appears (no other), both spellings address the same file,
        # and load() of it gives the tensor back; saving a second tensor under another name leaves the first file alone
        import pathlib

        names = ["plain", "run.v1", "ckpt.step.10", "weights.bak", "model.npy", "x.npz", "archive.NPZ", ".hidden", "dir.d/inner.v2"]
        spell = [("str", str), ("pathlib.Path", pathlib.Path), ("PurePath->str", lambda p_: str(pathlib.PurePosixPath(p_)))]
        for nm in names:
            for sn, sf in spell:
                d_ref = tempfile.mkdtemp(prefix="ref-", dir=tmpdir)
                d_got = tempfile.mkdtemp(prefix="got-", dir=tmpdir)
                for d_ in (d_ref, d_got):
                    os.makedirs(os.path.join(d_, "dir.d"), exist_ok=True)
                t = mg.tensor(rng.uniform(-1, 1, size=(2, 3)))
                (t * 2.0).sum().backward()
                desc = dict(name=nm, spelling=sn)
                b.count("file addressing")
                np.savez(sf(os.path.join(d_ref, nm)), data=t.data, grad=t.grad)
                try:
                    mg.save(sf(os.path.join(d_got, nm)), t)
                except Exception as e:
                    b.fail("C18.bounded.addressing.raises", desc, f"{type(e).__name__}: {e}")
                    continue
                listing = lambda d_: sorted(os.path.relpath(os.path.join(r_, f_), d_) for r_, _, fs_ in os.walk(d_) for f_ in fs_)  # noqa
                if listing(d_ref) != listing(d_got):
                    b.fail("C18.bounded.addressing.file_written", desc, f"mg.save wrote {listing(d_got)}, numpy.savez writes {listing(d_ref)} for the same target")
                    continue
                written = os.path.join(d_got, listing(d_got)[0])
                try:
                    r = mg.load(sf(written))
                    if not (np.array_equal(r.data, t.data) and r.grad is not None and np.array_equal(r.grad, t.grad)):
                        b.fail("C18.bounded.addressing.round_trip", desc, "load of the written file does not give the tensor back")
                except Exception as e:
                    b.fail("C18.bounded.addressing.load_raises", desc, f"{type(e).__name__}: {e}")
                # a second tensor under a sibling name: the first file must still hold the first tensor
                other = nm.replace("v1", "v2").replace("10", "11") if ("v1" in nm or "10" in nm) else nm + "2"
                t2 = mg.tensor(rng.uniform(-1, 1, size=(4,)))
                try:
                    mg.save(sf(os.path.join(d_got, other)), t2)
                    r1 = mg.load(written)
                    if r1.shape != t.shape or not np.array_equal(r1.data, t.data):
                        b.fail("C18.bounded.addressing.overwritten", desc, f"saving another tensor as {other!r} replaced the file written for {nm!r}")
                except Exception as e:
                    b.fail("C18.bounded.addressing.raises", dict(desc, second=other), f"{type(e).__name__}: {e}")
                b.case(desc)
        for bad in (np.ones(3), [1.0], 2.0):
            try:
                mg.save(io.BytesIO(), bad)
                b.fail("C18.bounded.nontensor_accepted", dict(obj=type(bad).__name__), "save accepted a non-tensor")
            except TypeError:
                pass
            b.case(dict(contract="TypeError for non-tensor", obj=type(bad).__name__))
    finally:
        import shutil

        shutil.rmtree(tmpdir, ignore_errors=True)
    return b


def main():
    ap = argparse.ArgumentParser()
    ap.add_argument("--check", required=True)
    ap.add_argument("--tier", default="quick")
    ap.add_argument("--seed", type=int, default=0)
    a = ap.parse_args()
    fn = dict(C03=check_c03, C10=check_c10, C11=check_c11, C17=check_c17, C18=check_c18)[a.check]
    fn(a.tier, a.seed).emit()


if __name__ == "__main__":
    main()
