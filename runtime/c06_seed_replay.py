"""Replay of a refuted C14.seed[..].C06.layout obligation (Tensor.backward stores a seed whose memory layout differs from the tensor's
data): a layout-sensitive view of the terminal tensor must still take its gradient as a window onto the terminal's gradient."""
import json
import sys

import numpy as np

import mygrad as mg

kind = sys.argv[1] if len(sys.argv) > 1 else "array"
bad = []
n = 0
for order in ("C", "F"):
    for vname, vf in (("reshape(-1)", lambda t: t.reshape(-1)), ("ravel", lambda t: t.ravel()), ("[1:].reshape(-1)", lambda t: t[1:].reshape(-1))):
        for sname in ("F-ordered", "C-ordered", "float32-F", "broadcast-2d-F"):
            shape = (2, 3, 2) if sname == "broadcast-2d-F" else (3, 4)
            src = mg.tensor(np.asarray(np.arange(np.prod(shape), dtype=float).reshape(shape), order=order), copy=False)
            L = src * 2.0
            v = vf(L)
            if v.base is not L:
                continue
            full = np.arange(np.prod(shape), dtype=float).reshape(shape) + 1
            g = dict([("F-ordered", np.asfortranarray(full)), ("C-ordered", np.ascontiguousarray(full)), ("float32-F", np.asfortranarray(full.astype(np.float32))), ("broadcast-2d-F", np.asfortranarray(full[0]))])[sname]
            if kind == "tensor":
                g = mg.tensor(g, copy=False)
            elif kind == "scalar":
                g = 2.0
            L.backward(g)
            n += 1
            vg = v.grad
            ok = vg is not None and np.array_equal(vg, vf(mg.tensor(L.grad)).data) and np.shares_memory(vg, L.grad)
            if not ok:
                bad.append(dict(data_order=order, view=vname, seed=sname, seed_kind=kind, view_grad_shares_memory_with_terminal_grad=bool(vg is not None and np.shares_memory(vg, L.grad))))
if bad:
    print(json.dumps(dict(confirmed=True, input=dict(program="src=tensor(order); L=src*2; v=<view>(L); L.backward(seed); v.grad", cases=n), observed=bad[:4], required="v.grad equals the view of L.grad and shares memory with it")))
else:
    print(json.dumps(dict(confirmed=False, cases=n)))
