"""Replay for refuted C04.copy obligations on the real code."""
import json
import sys

import numpy as np

import mygrad as mg

what = sys.argv[1] if len(sys.argv) > 1 else ""
for order in ("F", "C"):
    for const in (None, True, False):
        a = np.asarray(np.arange(6.0).reshape(2, 3), order=order)
        x = mg.tensor(a, copy=False)
        (x * 2.0).sum().backward()
        c = x.copy() if const is None else x.copy(constant=const)
        prog = f"x = mg.tensor(np.asarray(np.arange(6.).reshape(2,3), order='{order}'), copy=False); (x*2).sum().backward(); c = x.copy({'' if const is None else 'constant=' + str(const)})"
        probs = []
        if c.data.strides != x.data.strides:
            probs.append(f"copy's data has strides {c.data.strides}, original {x.data.strides} (memory layout not preserved)")
        if np.shares_memory(c.data, x.data) or not np.array_equal(c.data, x.data) or c.dtype != x.dtype:
            probs.append("copy's data is not a fresh equal array")
        if c.grad is None or np.shares_memory(c.grad, x.grad) or not np.array_equal(c.grad, x.grad):
            probs.append("copy's gradient is not a fresh equal array")
        if c.constant is not (x.constant if const is None else const):
            probs.append("flag rule")
        if c.creator is not None or c.base is not None:
            probs.append("copy is attached to a graph")
        if probs:
            print(json.dumps(dict(confirmed=True, input=prog, observed=probs, required="Tensor.copy: fresh data with equal shape/dtype/value/layout, fresh gradient, detached, flag kept unless given")))
            sys.exit(0)
print(json.dumps(dict(confirmed=False)))
