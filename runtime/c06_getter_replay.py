"""Replay of a refuted C06.getter obligation on the real code.

The counter-model of `C06.getter.view.window_onto_current_base_gradient` is a view tensor whose cached view-gradient OWNS its memory
(`.base is None`) while its base tensor has no gradient.  That state is reached through the public API when the view-op, replayed on
the base's gradient, copies: the base's gradient is a seed with a memory layout different from the tensor's data (stored as given by
`backward(seed)`), and the view-op is layout-sensitive (ravel / reshape).  The property then requires `view.grad` to follow the base:
None once the base's gradient is gone, and a window onto the *current* gradient otherwise."""
import json

import numpy as np

import mygrad as mg


def scenario(view_fn, name, how_cleared):
    a = mg.tensor(np.arange(6.0).reshape(2, 3))
    L = a * 2.0
    v = view_fn(L)
    if v.base is not L:
        return None
    g = np.arange(6.0).reshape(3, 2).T  # shape (2, 3), Fortran-ordered
    L.backward(g)
    first = v.grad
    info = dict(view=name, cleared_by=how_cleared, cached_owns_memory=bool(first is not None and first.base is None))
    if how_cleared == "null_grad":
        L.null_grad()
    elif how_cleared == "reuse":
        _ = L + 1.0  # using L in a new graph nulls its gradient
    elif how_cleared == "second-backward":
        (L * 3.0).sum().backward()
        exp = view_fn(mg.tensor(L.grad)).data
        got = v.grad
        ok = got is not None and np.array_equal(got, exp) and np.shares_memory(got, L.grad)
        return dict(info, ok=bool(ok), observed=None if got is None else got.tolist(), required=f"window onto the new gradient {exp.tolist()}")
    got = v.grad
    return dict(info, ok=got is None and L.grad is None, observed=None if got is None else got.tolist(), required="None (the base has no gradient)")


def main():
    bad = []
    n = 0
    for name, fn in (("ravel", lambda t: t.ravel()), ("reshape(-1)", lambda t: t.reshape(-1)), ("reshape(3,2)", lambda t: t.reshape(3, 2)), ("T", lambda t: t.T), ("[...]", lambda t: t[...])):
        for how in ("null_grad", "reuse", "second-backward"):
            r = scenario(fn, name, how)
            if r is None:
                continue
            n += 1
            if not r["ok"]:
                bad.append(r)
    if bad:
        print(json.dumps(dict(confirmed=True, input=dict(program="a=tensor((2,3)); L=a*2; v=<view>(L); L.backward(F-ordered seed); v.grad; <clear L's gradient>; v.grad", cases=n), observed=bad[:4], required="a view's gradient is a window onto its base's current gradient (None when the base has none)")))
    else:
        print(json.dumps(dict(confirmed=False, cases=n, note="no case reproduced a stale or detached view gradient")))


if __name__ == "__main__":
    main()
