"""Program catalogue shared by the bounded run-time contract checks.

Every program is ONE Python function `prog(xp, *leaves) -> dict(name -> tensor/array)` that is run
twice: with xp = mygrad on Tensors (the code under contract) and with xp = numpy on plain arrays
(the specification: NumPy's own value / view / in-place semantics; its numeric derivative is the
derivative of the "equivalent purely functional program").  The dict must contain "L" (the terminal)
and may expose intermediates and views for value / memory-sharing / gradient contracts.

Tags: "pure" (no in-place statement), "inplace", "views", "mask", "adv" (advanced indexing),
"shape" (assigns .shape).
"""
from __future__ import annotations

import numpy as np

from runtime.common import robust_central

P = []  # (name, tags, leaf_shapes, prog)


def prog(name, tags, *shapes):
    def deco(f):
        P.append((name, set(tags.split()), shapes, f))
        return f

    return deco


# ---- pure DAGs: fan-out, diamonds, repeated use, broadcasting, commuted operands ---------------------
@prog("chain", "pure", (3,))
def _(xp, a):
    return dict(L=xp.sum(xp.exp(a * 0.5) * a))


@prog("fanout", "pure", (3,))
def _(xp, a):
    b = a * 2.0
    c = a + 1.0
    return dict(L=b * c, b=b, c=c)


@prog("diamond", "pure", (2, 3))
def _(xp, a):
    b = xp.sin(a)
    c = b * b
    d = b + 3.0
    return dict(L=(c * d).sum(), b=b, c=c, d=d)


@prog("repeat-arg", "pure", (3,))
def _(xp, a):
    return dict(L=a * a + a)


@prog("repeat-arg-3", "pure", (3,))
def _(xp, a):
    return dict(L=xp.sum(a * a * a - a / (a * a + 2.0)))


@prog("broadcast", "pure", (2, 3), (3,), ())
def _(xp, a, b, c):
    return dict(L=a * b + c)


@prog("broadcast-mutual", "pure", (2, 1), (1, 3))
def _(xp, a, b):
    return dict(L=xp.sum(a * b - a))


@prog("commuted", "pure", (2, 3), (3,))
def _(xp, a, b):
    return dict(L=xp.sum(b * a + (a - b) * b))


@prog("deep", "pure", (3,))
def _(xp, a):
    x = a
    for i in range(6):
        x = x * 0.9 + xp.tanh(x) * 0.1
    return dict(L=x.sum())


@prog("two-leaves-diamond", "pure", (3,), (3,))
def _(xp, a, b):
    s = a + b
    p = a * b
    return dict(L=xp.sum(s * p + s), s=s, p=p)


@prog("unused-branch", "pure", (3,), (3,))
def _(xp, a, b):
    dead = b * 5.0  # L does not depend on b
    return dict(L=xp.sum(a * a), dead=dead)


@prog("const-mix", "pure", (2, 3), (3,))
def _(xp, a, b):
    k = np.array([1.0, -2.0, 0.5])
    return dict(L=xp.sum(a * k + b * 2 - 3.0 / (k + 4.0)))


@prog("reductions", "pure", (2, 3))
def _(xp, a):
    return dict(L=xp.sum(a, axis=0) * xp.mean(a, axis=1, keepdims=True).T.reshape(-1)[0] + xp.prod(a) + xp.max(a))


@prog("matmul-einsum", "pure", (2, 3), (3, 2))
def _(xp, a, b):
    m = xp.matmul(a, b)
    return dict(L=xp.einsum("ii->", m) + xp.einsum("ij,ji->", a, b), m=m)


# the same tensor at several operand positions of ONE multi-operand call, with labels that are permutations of each other, a
# constant in between, and a third operand / non-uniform weights that break the symmetry between the occurrences
@prog("einsum-same-tensor-permuted-labels", "pure", (3, 3), (3,))
def _(xp, x, y):
    return dict(L=xp.einsum("ij,ji,j->", x, x, y))


@prog("einsum-same-tensor-permuted-labels-weighted-output", "pure", (3, 3))
def _(xp, x):
    w = np.arange(1.0, 10.0).reshape(3, 3)
    return dict(L=xp.sum(xp.einsum("ij,ji->ij", x, x) * w))


@prog("einsum-same-tensor-positions-0-and-2", "pure", (2, 3, 2), (2,))
def _(xp, x, y):
    c = np.array([[1.0, -2.0], [0.5, 3.0]])
    return dict(L=xp.einsum("ijk,kl,kji,l->", x, c, x, y))


@prog("einsum-same-tensor-identical-and-permuted", "pure", (2, 2))
def _(xp, x):
    w = np.array([[1.0, 2.0], [3.0, 5.0]])
    return dict(L=xp.sum(xp.einsum("ij,ij,ji->ij", x, x, x) * w))


@prog("join-same-tensor-three-positions", "pure", (2, 3), (2, 3))
def _(xp, a, b):
    c = xp.concatenate((a, b, a), axis=1)
    s = xp.stack((a, b * a, a), axis=0)
    w = np.arange(1.0, 19.0).reshape(2, 9)
    return dict(L=xp.sum(c * w) + xp.sum(s * np.arange(1.0, 19.0).reshape(3, 2, 3)), c=c)


# a structural op that COPIES in the forward pass feeding a consumer whose backward hands back a view of a scratch buffer
# (roll over the flattened array, repeat with per-element counts, matmul with a vector): the intermediate is exposed so that the
# ownership / aliasing contracts look at its gradient next to the leaves'
@prog("stack-into-flat-roll", "pure", (2, 2), (2, 2))
def _(xp, a, b):
    y = xp.stack((a, b), axis=0)
    w = np.arange(1.0, 9.0).reshape(2, 2, 2)
    return dict(L=xp.sum(xp.roll(y, 3) * w) + xp.sum(a * a), y=y)


@prog("concatenate-into-flat-roll", "pure", (2, 2), (1, 2))
def _(xp, a, b):
    y = xp.concatenate((a, b), axis=0)
    w = np.arange(1.0, 7.0).reshape(3, 2)
    return dict(L=xp.sum(xp.roll(y, 1) * w), y=y)


@prog("flatten-into-repeat-counts", "pure", (2, 2))
def _(xp, a):
    y = a.flatten()
    r = xp.repeat(y, [1, 2, 0, 3])
    return dict(L=xp.sum(r * np.arange(1.0, 7.0)), y=y)


@prog("flatten-into-matvec", "pure", (2, 2))
def _(xp, a):
    y = a.flatten()
    W = np.arange(1.0, 13.0).reshape(3, 4)
    return dict(L=xp.sum(xp.matmul(W, y) * np.array([1.0, -2.0, 3.0])), y=y)


@prog("join", "pure", (2, 3), (1, 3))
def _(xp, a, b):
    c = xp.concatenate((a, b, a), axis=0)
    s = xp.stack((b, b * 2.0), axis=0)
    return dict(L=xp.sum(c * c) + xp.sum(s), c=c)


@prog("scalar-0d", "pure", (), ())
def _(xp, a, b):
    return dict(L=a * b + a)


@prog("where-max", "pure", (2, 3), (2, 3))
def _(xp, a, b):
    return dict(L=xp.sum(xp.where(np.array([[True, False, True], [False, True, True]]), a, b) * xp.maximum(a, b)))


# ---- reductions / kernels fed by layout-changing views ---------------------------------------------------------
@prog("reduce-transposed-views", "pure views", (2, 3))
def _(xp, a):
    t = a.T
    s = xp.swapaxes(a, 0, 1)
    return dict(L=xp.max(t) + xp.min(s) + xp.prod(t) + xp.sum(xp.cumsum(s, axis=0)) + xp.einsum("ij->", t), t=t, s=s)


@prog("repeat-arg-unbalanced-paths", "pure", (3,))
def _(xp, w):
    # a non-leaf tensor feeds one op twice and, through a much longer chain, the same loss: every path must be summed before
    # the tensor's own gradient is propagated further upstream
    x = 3.0 * w
    long_path = xp.sin(xp.cos(xp.exp(x * 0.5)))
    return dict(L=xp.sum(long_path + x * x), x=x)


@prog("repeat-arg-unbalanced-paths-matmul", "pure", (2, 2))
def _(xp, w):
    h = w * 2.0 + 1.0
    deep = xp.tanh(xp.sin(xp.exp(h * 0.1) * 0.5) + 1.0)
    return dict(L=xp.sum(xp.matmul(h, h)) + xp.sum(deep * deep * h), h=h)


@prog("repeat-arg-three-depths", "pure", (4,))
def _(xp, w):
    x = xp.exp(w * 0.3)
    y = x - x * x
    z = xp.sqrt(xp.sqrt(x * x + 1.0) + 1.0)
    q = xp.sin(xp.sin(xp.sin(xp.sin(x))))
    return dict(L=xp.sum(y + z * q + q), x=x)


# where= masks on pass-through ufuncs whose operands fan out elsewhere, in both summand orders (the mask must be applied per input, and a
# masked contribution must never become the shared gradient array of two operands)
def _mk_masked(ufn, order, target):
    m = np.array([True, False, True, True])

    def f(xp, a, b):
        fn = getattr(xp, ufn)
        w_ = np.array([1.0, 2.0, 3.0, 4.0])
        c_ = np.array([0.5, -1.0, 2.0, 3.0])
        t = fn(a, b, where=m, out=np.zeros(4)) if ufn != "positive" else fn(a, where=m, out=np.zeros(4))
        x = b if target == "b" else a
        term_masked = xp.sum(w_ * t)
        term_other = xp.sum(c_ * x * x)
        L = (term_other + term_masked) if order == "other-first" else (term_masked + term_other)
        return dict(L=L, t=t)

    return f


for _uf in ("add", "subtract", "multiply", "positive", "maximum"):
    for _ord in ("other-first", "masked-first"):
        for _tg in ("a", "b"):
            P.append((f"masked-ufunc-fanout/{_uf}/{_ord}/{_tg}", {"pure", "generated", "mask"}, ((4,), (4,)), _mk_masked(_uf, _ord, _tg)))


@prog("diamond-transposed-max", "pure views", (2, 3), (2, 3))
def _(xp, a, c):
    g = a * c
    h = g.T
    return dict(L=xp.max(h) + xp.sum(h * 2.0) + xp.sum(xp.matmul(h, g)), g=g, h=h)


@prog("strided-view-kernels", "pure views", (4, 4))
def _(xp, a):
    v = a[::2, ::-1]
    return dict(L=xp.max(v) * xp.min(v, axis=1)[0] + xp.sum(xp.matmul(v, v.T)) + xp.var(v), v=v)


# ---- terminal ops whose VJP hands back (views of) the incoming gradient --------------------------------------
@prog("terminal-concat-repeat", "pure", (2, 3))
def _(xp, a):
    return dict(L=xp.concatenate((a, a), axis=0))


@prog("terminal-stack", "pure", (2, 3), (2, 3))
def _(xp, a, b):
    return dict(L=xp.stack((a, b), axis=0))


@prog("terminal-reshape-transpose", "pure views", (2, 3))
def _(xp, a):
    return dict(L=xp.reshape(a, (3, 2)).T)


@prog("terminal-getitem-twice", "pure views", (4,))
def _(xp, a):
    return dict(L=xp.concatenate((a[1:], a[:3])))


# ---- views (no mutation) ---------------------------------------------------------------------------------
@prog("view-slice", "pure views", (4,))
def _(xp, a):
    v = a[1:3]
    return dict(L=xp.sum(v * v) + xp.sum(a), v=v)


@prog("view-chain", "pure views", (3, 4))
def _(xp, a):
    v1 = a[::2]
    v2 = v1.T
    v3 = v2[1:, ::-1]
    return dict(L=xp.sum(v3 * 2.0) + xp.sum(a * a), v1=v1, v2=v2, v3=v3)


@prog("view-reshape", "pure views", (2, 3))
def _(xp, a):
    r = a.reshape(3, 2)
    f = xp.reshape(a, (6,))
    return dict(L=xp.sum(r * r) + f[0], r=r, f=f)


@prog("view-newaxis-ellipsis", "pure views", (2, 3))
def _(xp, a):
    v = a[None, ..., 1]
    w = a[1, xp.newaxis if hasattr(xp, "newaxis") else None]
    return dict(L=xp.sum(v) * 2 + xp.sum(w * w), v=v, w=w)


@prog("view-diag-einsum", "pure views", (3, 3))
def _(xp, a):
    d = xp.einsum("ii->i", a)
    return dict(L=xp.sum(d * d) + xp.sum(a), d=d)


@prog("view-transpose-like", "pure views", (2, 1, 3))
def _(xp, a):
    t = xp.transpose(a, (2, 0, 1))
    s = xp.swapaxes(a, 0, 2)
    m = xp.moveaxis(a, 0, -1)
    return dict(L=xp.sum(t * 2) + xp.sum(s * s) + xp.sum(m), t=t, s=s, m=m)


@prog("view-used-base-not", "pure views", (4,))
def _(xp, a):
    v = a[::2]
    return dict(L=xp.sum(v * 3.0), v=v)


@prog("adv-index-read", "pure adv", (4,))
def _(xp, a):
    g = a[[0, 0, 2]]
    m = a[np.array([True, False, True, True])]
    return dict(L=xp.sum(g * g) + xp.sum(m), g=g, m=m)


# ---- in-place updates ----------------------------------------------------------------------------------------
@prog("setitem-base", "inplace", (4,), (2,))
def _(xp, a, b):
    x = a * 1.0
    y = x * 2.0  # evaluated before the mutation
    x[1:3] = b
    z = x * 3.0  # after
    return dict(L=xp.sum(y) + xp.sum(z * z), x=x, y=y, z=z)


@prog("setitem-view-of-base", "inplace views", (4,), ())
def _(xp, a, b):
    x = a * 1.0
    v = x[::2]
    w = v * v
    v[1] = b
    return dict(L=xp.sum(w) + xp.sum(x * x) + xp.sum(v), x=x, v=v, w=w)


@prog("setitem-broadcast-value", "inplace", (2, 3), (3,))
def _(xp, a, b):
    x = +a
    x[...] = b
    return dict(L=xp.sum(x * x) + xp.sum(a), x=x)


@prog("setitem-scalar-const", "inplace", (2, 3))
def _(xp, a):
    x = a * 1.0
    x[0, 1:] = 7.0
    return dict(L=xp.sum(x * a), x=x)


@prog("setitem-adv", "inplace adv", (4,), (2,))
def _(xp, a, b):
    x = a * 1.0
    x[[3, 0]] = b
    return dict(L=xp.sum(x * x), x=x)


@prog("setitem-adv-repeated", "inplace adv", (4,), (3,))
def _(xp, a, b):
    x = a * 1.0
    x[[1, 1, 2]] = b  # last write wins
    return dict(L=xp.sum(x * x) + xp.sum(b), x=x)


@prog("setitem-bool", "inplace adv", (4,), (2,))
def _(xp, a, b):
    x = a * 1.0
    x[np.array([True, False, False, True])] = b
    return dict(L=xp.sum(x * x * x), x=x)


@prog("setitem-bool-scalar", "inplace adv", (2, 2), ())
def _(xp, a, b):
    x = a * 1.0
    x[np.array([[True, False], [False, True]])] = b
    return dict(L=xp.sum(x * x), x=x)


@prog("setitem-self-dependent", "inplace", (4,))
def _(xp, a):
    x = a * 1.0
    x[:2] = x[2:] * x[:2]
    return dict(L=xp.sum(x * x), x=x)


@prog("augmented-base", "inplace", (3,), (3,))
def _(xp, a, b):
    x = a * 1.0
    y = x * x
    x += b
    x *= 2.0
    return dict(L=xp.sum(y) + xp.sum(x * x), x=x, y=y)


@prog("augmented-view", "inplace views", (2, 3), (3,))
def _(xp, a, b):
    x = a * 1.0
    v = x[1]
    v *= b
    v -= 1.0
    return dict(L=xp.sum(x * x) + xp.sum(v), x=x, v=v)


@prog("augmented-pow-div", "inplace", (3,))
def _(xp, a):
    x = a * a + 1.0
    x **= 2
    x /= 3.0
    x **= 1
    return dict(L=xp.sum(x), x=x)


@prog("view-of-view-mutation", "inplace views", (3, 4), (2,))
def _(xp, a, b):
    x = a * 1.0
    v1 = x[1:]
    v2 = v1[:, ::2]
    pre = v2 * 1.0
    v2[0] = b
    sib = x[1, :2]  # created after the mutation
    return dict(L=xp.sum(pre) + xp.sum(x * x) + xp.sum(v1 * 2) + xp.sum(sib), x=x, v1=v1, v2=v2, sib=sib, pre=pre)


@prog("mutate-base-read-views", "inplace views", (4,), (4,))
def _(xp, a, b):
    x = a * 1.0
    v = x[::-1]
    r = x.reshape(2, 2)
    before = v * r.reshape(4)
    x[...] = b * x
    return dict(L=xp.sum(before) + xp.sum(v * v) + xp.sum(r), x=x, v=v, r=r, before=before)


@prog("ufunc-out", "inplace", (3,), (3,))
def _(xp, a, b):
    x = a * 1.0
    y = x * x
    xp.multiply(a, b, out=x)
    return dict(L=xp.sum(y) + xp.sum(x * x), x=x, y=y)


@prog("ufunc-out-where", "inplace mask", (3,), (3,))
def _(xp, a, b):
    x = a * 1.0
    xp.exp(b, out=x, where=np.array([True, False, True]))
    return dict(L=xp.sum(x * x), x=x)


@prog("ufunc-out-where-binary-view", "inplace mask views", (2, 3), (3,))
def _(xp, a, b):
    x = a * 1.0
    v = x[0]
    xp.add(v, b, out=v, where=np.array([False, True, True]))
    return dict(L=xp.sum(x * x) + xp.sum(v), x=x, v=v)


# where= masks that BROADCAST against the out= target (lower rank, singleton axes, scalar): NumPy aligns them to the trailing axes
def _mk_bmask(mask, on_view, unary):
    mask = np.asarray(mask)

    def f(xp, a, b):
        x = a * 1.0
        y = x * x  # reads the old contents
        tgt = x[:, ::-1] if on_view else x
        if unary:
            xp.exp(b * 0.3, out=tgt, where=mask)
        else:
            xp.multiply(tgt, b, out=tgt, where=mask)
        return dict(L=xp.sum(y) + xp.sum(x * x * 0.5) + xp.sum(tgt), x=x, y=y)

    return f


for _mname, _m in (("row1d", [True, False, False]), ("row1d-b", [False, True, True]), ("col", [[True], [False], [True]]), ("rowvec", [[False, True, True]]), ("scalar-false", False), ("scalar-true", True), ("full", [[True, False, True], [False, False, True], [True, True, False]])):
    for _ov in (False, True):
        for _un in (False, True):
            P.append((f"where-broadcast/{_mname}/{'view' if _ov else 'base'}/{'unary' if _un else 'binary'}", {"inplace", "mask", "generated"}, ((3, 3), (3, 3)), _mk_bmask(_m, _ov, _un)))


@prog("inplace-on-leaf", "inplace leafmut", (3,), (3,))
def _(xp, a, b):
    y = a * 2.0
    a[1:] = b[1:] * 3.0
    return dict(L=xp.sum(y) + xp.sum(a * a), a=a, y=y)


@prog("inplace-leaf-view", "inplace views leafmut", (4,), ())
def _(xp, a, b):
    v = a[1:3]
    y = v * v
    v *= b
    return dict(L=xp.sum(y) + xp.sum(a * a), a=a, v=v, y=y)


@prog("two-mutations", "inplace views", (4,), (2,), (2,))
def _(xp, a, b, c):
    x = a * 1.0
    v = x[:2]
    w = x[2:]
    v[...] = b
    m = x * x
    w += c
    return dict(L=xp.sum(m) + xp.sum(x) + xp.sum(v * w), x=x, v=v, w=w, m=m)


@prog("shape-set", "inplace shape views", (2, 3))
def _(xp, a):
    x = a * 1.0
    v = x[0]
    x.shape = (3, 2)
    return dict(L=xp.sum(x * x) + xp.sum(v), x=x, v=v)


@prog("shape-set-view-then-mutate", "inplace shape views", (2, 3), ())
def _(xp, a, b):
    x = a * 1.0
    w = x.reshape(6, 1)
    v = x[...]
    v.shape = (1, 6)
    v += b
    return dict(L=xp.sum(x * x) + xp.sum(w), x=x, v=v, w=w)


# ---- generated family: every kind of read before a mutation x every kind of mutation ---------------------------
_PRE = [
    ("einsum-repeated", lambda xp, x: xp.einsum("ij,ij->", x, x)),
    ("einsum-repeated3", lambda xp, x: xp.einsum("ij,ij,ij->i", x, x, x)),
    ("einsum-repeated-mixed", lambda xp, x: xp.einsum("ij,kj->ik", x, x)),
    ("einsum-view-operand", lambda xp, x: xp.einsum("i,i->", x[0], x[0])),
    ("square-by-mul", lambda xp, x: x * x * x),
    ("stack-repeated", lambda xp, x: xp.stack((x, x * 2.0, x))),
    ("concatenate-repeated", lambda xp, x: xp.concatenate((x, x), axis=1)),
    ("matmul-self", lambda xp, x: xp.matmul(x, x.T)),
    ("where-self", lambda xp, x: xp.where(np.array([[True, False], [False, True]]), x, x * 3.0)),
    ("maximum-self", lambda xp, x: xp.maximum(x, x * 0.5)),
    ("sum-prod", lambda xp, x: xp.sum(x, axis=0) * xp.prod(x, axis=1)),
    ("cumsum-cumprod", lambda xp, x: xp.cumsum(x, axis=1) + xp.cumprod(x, axis=0)),
    ("adv-index-repeated", lambda xp, x: x[[0, 0, 1]]),
    ("reshape-transpose-view", lambda xp, x: x.reshape(4)[::2] * x.T[0]),
    ("mean-var", lambda xp, x: xp.mean(x) + xp.var(x, axis=0)),
]
_MUT = [
    ("setitem", lambda xp, x, b: x.__setitem__((0, slice(None)), b)),
    ("iadd", lambda xp, x, b: x.__iadd__(b)),
    ("view-imul", lambda xp, x, b: x[:, 1].__imul__(b)),
    ("out=", lambda xp, x, b: xp.multiply(x, b, out=x)),
]


def _mk(pre, mut):
    def f(xp, a, b):
        x = a * 1.0
        y = pre(xp, x)
        mut(xp, x, b)
        z = pre(xp, x)
        return dict(L=xp.sum(y) * 2.0 + xp.sum(z) + xp.sum(x * x), x=x)

    return f


for _pn, _pf in _PRE:
    for _mn, _mf in _MUT:
        P.append((f"gen/{_pn}/{_mn}", {"inplace", "generated"}, ((2, 2), (2,)), _mk(_pf, _mf)))


# ---- programs that catch a FAILING statement and carry on (C13: "... identical to those of the same program with the failing statements removed") -----
def _fail_oob_base(xp, x, v):
    x[7] = 0.0


def _fail_oob_view(xp, x, v):
    v[5] = 0.0


def _fail_too_many_indices(xp, x, v):
    x[0, 0] = 1.0


def _fail_bool_mask_length(xp, x, v):
    x[np.array([True, False])] = 1.0


# (a FloatingPointError under np.errstate(divide="raise") is not in the family: NumPy itself has already written the quotients when it raises,
# so the NumPy twin of the program is no oracle for "the statement removed")


def _fail_bad_shape(xp, x, v):
    x[...] = np.ones((7,))


def _fail_nonview_op(xp, x, v):
    x + np.ones((7,))


def _fail_view_op(xp, x, v):
    x.reshape(5, 5)


_FAILS = [("oob-setitem-base", _fail_oob_base), ("oob-setitem-view", _fail_oob_view), ("too-many-indices", _fail_too_many_indices), ("bool-mask-length", _fail_bool_mask_length),
          ("bad-value-shape", _fail_bad_shape), ("bad-broadcast", _fail_nonview_op), ("bad-reshape", _fail_view_op)]


def _mk_caught(fail, where):
    def f(xp, a, c):
        x = a * 1.0 if where != "leaf" else a
        y = x * x
        v = x[1:3]
        w = v * c
        try:
            fail(xp, x, v)
        except Exception:
            pass
        return dict(L=xp.sum(y) + xp.sum(w) * 2.0 + xp.sum(x * 3.0), x=x)

    return f


for _fn, _ff in _FAILS:
    for _wh in ("intermediate", "leaf"):
        P.append((f"caught-failure/{_fn}/{_wh}", {"generated", "views", "caught-failure"}, ((4,), (2,)), _mk_caught(_ff, _wh)))


# ---- augmented assignments / out= / item assignment whose OPERAND overlaps the target in memory (same view family) -----------------------
import operator as _op_

_OVL_PATTERNS = [
    ("x[1:]<-x[:-1]", lambda x: (x[1:], x[:-1])),
    ("x<-x[::-1]", lambda x: (x, x[::-1])),
    ("x[::-1]<-x", lambda x: (x[::-1], x)),
    ("x[:2]<-x[2:]", lambda x: (x[:2], x[2:])),  # disjoint siblings (control)
    ("x<-x", lambda x: (x, x)),
    ("x[::2]<-x[1::2]", lambda x: (x[::2], x[1::2])),
    ("x[1:3]<-x[:2]", lambda x: (x[1:3], x[:2])),
]
_OVL_OPS = [
    ("+=", lambda xp, t, o: _op_.iadd(t, o)), ("-=", lambda xp, t, o: _op_.isub(t, o)), ("*=", lambda xp, t, o: _op_.imul(t, o)), ("/=", lambda xp, t, o: _op_.itruediv(t, o)),
    ("**=", lambda xp, t, o: _op_.ipow(t, o)), ("add-out", lambda xp, t, o: xp.add(t, o, out=t)), ("multiply-out", lambda xp, t, o: xp.multiply(t, o, out=t)),
    ("setitem", lambda xp, t, o: t.__setitem__(Ellipsis, o)),
]


def _mk_overlap(pat, op):
    def f(xp, a, c):
        x = a * a + 0.5  # positive, so that / and ** stay smooth
        y = x * x  # a read before the update
        t, o = pat(x)
        op(xp, t, o)
        return dict(L=xp.sum(y) + xp.sum(x * c) + xp.sum(x * x * 0.5), x=x)

    return f


for _pn, _pf in _OVL_PATTERNS:
    for _on, _of in _OVL_OPS:
        P.append((f"overlap/{_pn}/{_on}", {"inplace", "generated", "views"}, ((4,), (4,)), _mk_overlap(_pf, _of)))


# ---- in-place updates of views of owners with either memory order, through every kind of (possibly layout-dependent) view ---------
# owner order: "C" -> x = a*1.0 ; "F" -> x = a.T*1.0 (the op keeps its operand's layout, so x owns Fortran-ordered memory)
_LVIEWS = [
    ("T.reshape(-1)", lambda xp, x: x.T.reshape(-1)),
    ("reshape(-1)", lambda xp, x: x.reshape(-1)),
    ("T", lambda xp, x: x.T),
    ("[1:]", lambda xp, x: x[1:]),
    ("[:,::-1]", lambda xp, x: x[:, ::-1]),
    ("T[1:].reshape(-1)", lambda xp, x: x.T[1:].reshape(-1)),
    ("ravel", lambda xp, x: x.ravel()),
    ("swapaxes.reshape", lambda xp, x: xp.swapaxes(x, 0, 1).reshape(-1)),
]
_LMUTS = [
    ("[:2]=c", lambda xp, v, c: v.__setitem__(slice(None, 2), c)),
    ("*=c", lambda xp, v, c: v.__imul__(c)),
    ("[...]=c", lambda xp, v, c: v.__setitem__(Ellipsis, c)),
    ("out=", lambda xp, v, c: xp.multiply(v, c, out=v)),
]


def _mk_lview(order, view, mut):
    def f(xp, a, c):
        x = a * 1.0 if order == "C" else a.T * 1.0
        y = x * x
        v = view(xp, x)
        if not np.shares_memory(v.data if hasattr(v, "data") and not isinstance(v, np.ndarray) else v, x.data if not isinstance(x, np.ndarray) else x):
            # not a view for this memory order: the program reduces to a functional one (kept: both twins agree on that)
            return dict(L=xp.sum(y) + xp.sum(v * c), x=x)
        mut(xp, v, c)
        return dict(L=xp.sum(y) + xp.sum(x * x * 0.5) + xp.sum(v), x=x, v=v)

    return f


for _o in ("C", "F"):
    for _vn, _vf in _LVIEWS:
        for _mn, _mf in _LMUTS:
            P.append((f"layout-view/{_o}/{_vn}/{_mn}", {"inplace", "generated", "views"}, ((2, 3), ()), _mk_lview(_o, _vf, _mf)))


# ---- generated random DAGs ----------------------------------------------------------------------------------------------------
# Every node is a smooth op of earlier nodes (operands may repeat, fan-out and path lengths are arbitrary); the loss sums a random
# subset of nodes, always including the last one.  Exercises: topological order, repeated operands, unbalanced path depths.
def _mk_dag(k):
    r = np.random.default_rng(7919 * (k + 1))
    n_nodes = int(r.integers(4, 11))
    plan = []
    for i in range(n_nodes):
        kind = ["mul", "add", "sub", "sin", "exp", "tanh", "square", "matmul", "masked-add", "masked-sub"][int(r.integers(0, 10))]
        lo = 0
        a = int(r.integers(lo, i + 2))  # index into [w0, w1, node0, ...]
        b = int(r.integers(lo, i + 2)) if r.uniform() > 0.35 else a  # repeated operand with probability .35
        plan.append((kind, a, b, float(r.uniform(0.2, 0.9))))
    used = sorted(set(int(j) for j in r.integers(0, n_nodes, size=int(r.integers(1, 4)))) | {n_nodes - 1})

    def f(xp, w0, w1):
        vals = [w0 * 1.0, w1 * 0.5 + 0.25]
        named = {}
        for i, (kind, a, b, c) in enumerate(plan):
            x, y = vals[a], vals[b]
            if kind == "mul":
                v = x * y * c
            elif kind == "add":
                v = x + y * c
            elif kind == "sub":
                v = x - y * c
            elif kind == "sin":
                v = xp.sin(x * c) + y * 0.1
            elif kind == "exp":
                v = xp.exp(x * 0.1 * c)
            elif kind == "tanh":
                v = xp.tanh(x * c) * y
            elif kind == "square":
                v = x * x * c
            elif kind == "matmul":
                v = xp.matmul(x, y) * 0.25
            else:
                mk_ = np.array([[True, False], [True, True]]) if c > 0.5 else np.array([[False, True], [True, False]])
                v = (xp.add if kind == "masked-add" else xp.subtract)(x, y, where=mk_, out=np.zeros((2, 2)))
            vals.append(v)
            named[f"n{i}"] = v
        L = None
        for j in used:
            t = xp.sum(vals[2 + j])
            L = t if L is None else L + t
        return dict(L=L, **named)

    return f


for _k in range(60):
    P.append((f"dag/{_k}", {"pure", "generated", "dag"}, ((2, 2), (2, 2)), _mk_dag(_k)))


def select(include=(), exclude=()):
    out = []
    for (name, tags, shapes, f) in P:
        if include and not (set(include) & tags):
            continue
        if set(exclude) & tags:
            continue
        out.append((name, tags, shapes, f))
    return out


def leaves(rng, shapes):
    return [np.asarray(rng.uniform(0.5, 1.5, size=s) * rng.choice([-1.0, 1.0], size=s), dtype=np.float64) for s in shapes]


def run_numpy(f, vals):
    """Specification run: NumPy on private copies."""
    arrs = [np.array(v, dtype=np.float64, copy=True) for v in vals]
    with np.errstate(all="ignore"):
        out = f(np, *arrs)
    return out, arrs


def numeric_grads(f, vals, seed=None, h=1e-3):
    """d sum(L * seed) / d leaf_i by 4th-order central differences on the NumPy run; elements where the oracle is unreliable
    (step-size dependent: a kink nearby) are masked and not compared."""

    def scalar(vs):
        out, _ = run_numpy(f, vs)
        L = np.asarray(out["L"], dtype=np.float64)
        return float(np.sum(L if seed is None else L * seed))

    grads = []
    for i, v in enumerate(vals):
        g = np.zeros(np.shape(v))
        bad = np.zeros(np.shape(v), dtype=bool)
        for idx in np.ndindex(*np.shape(v)):
            def ev(d):
                vs = [np.array(x, dtype=np.float64, copy=True) for x in vals]
                vs[i][idx] += d
                return scalar(vs)

            g[idx], ok = robust_central(ev, h)
            bad[idx] = not ok
        grads.append(np.ma.masked_array(g, mask=bad) if bad.any() else g)
    return grads
