"""Replay of refuted C16 obligations on the real code.  argv[1] = JSON {kind, config, model}."""
import itertools
import json
import sys
from fractions import Fraction

import numpy as np

import mygrad as mg
from mygrad.nnet import conv_nd, max_pool
from mygrad.nnet.layers.utils import sliding_window_view


def ival(m, k, default=1):
    v = m.get(k)
    if v is None:
        return default
    try:
        return int(Fraction(str(v)))
    except Exception:
        return default


def conv_valid(x, w, s, p, d):
    return all(si >= 1 and pi >= 0 and di >= 1 and (xi + 2 * pi - ((wi - 1) * di + 1)) >= 0 and (xi + 2 * pi - ((wi - 1) * di + 1)) % si == 0 for xi, wi, si, pi, di in zip(x, w, s, p, d))


def conv_naive(x, w, s, p, d):
    N, C = x.shape[:2]
    F = w.shape[0]
    m = x.ndim - 2
    xp = np.pad(x, [(0, 0), (0, 0)] + [(pi, pi) for pi in p])
    out_sp = [(xp.shape[2 + k] - ((w.shape[2 + k] - 1) * d[k] + 1)) // s[k] + 1 for k in range(m)]
    out = np.zeros((N, F, *out_sp))
    for n in range(N):
        for f in range(F):
            for g in itertools.product(*[range(o) for o in out_sp]):
                acc = 0.0
                for c in range(C):
                    for wi in itertools.product(*[range(w.shape[2 + k]) for k in range(m)]):
                        idx = tuple(g[k] * s[k] + wi[k] * d[k] for k in range(m))
                        acc += xp[(n, c) + idx] * w[(f, c) + wi]
                out[(n, f) + g] = acc
    return out


def replay_conv(cfg, m):
    k = cfg["m"]

    def vec(name, kind):
        return [ival(m, name)] * k if kind == "int" else [ival(m, f"{name}{i}") for i in range(k)]

    s, p, d = vec("s", cfg["kinds"][0]), vec("p", cfg["kinds"][1]), vec("d", cfg["kinds"][2])
    xs = [ival(m, f"x{i}") for i in range(k)]
    ws = [ival(m, f"w{i}") for i in range(k)]
    N, C, F = ival(m, "N"), ival(m, "C"), ival(m, "F")
    if max(xs + ws + s + p + d + [N, C, F]) > 12:
        return dict(confirmed=False, note="model too large to replay naively")
    rng = np.random.default_rng(0)
    x = rng.normal(size=(N, C, *xs))
    w = rng.normal(size=(F, C, *ws))
    valid = conv_valid(xs, ws, s, p, d)
    inp = dict(x_shape=list(x.shape), w_shape=list(w.shape), stride=s, padding=p, dilation=d)
    try:
        out = conv_nd(x, w, stride=tuple(s), padding=tuple(p), dilation=tuple(d))
    except Exception as e:
        if valid:
            return dict(confirmed=True, input=inp, observed=f"raises {type(e).__name__}: {str(e)[:160]}", required="valid configuration (every placement inside the padded data, exact tiling): must return the convolution")
        return dict(confirmed=False, input=inp, note="raises on an invalid configuration (as required)")
    if not valid:
        return dict(confirmed=True, input=inp, observed=f"returns shape {out.shape}", required="invalid configuration must be rejected")
    ref = conv_naive(x, w, s, p, d)
    if out.shape != ref.shape or not np.allclose(out.data, ref):
        return dict(confirmed=True, input=inp, observed="values differ from the naive formula", required="documented convolution formula")
    return dict(confirmed=False, input=inp, note="real code agrees with the spec at the model's input")


def replay_pool(cfg, m):
    nd, k = cfg["nd"], cfg["m"]
    shp = [ival(m, f"x{i}") for i in range(nd)]
    pool = [ival(m, f"w{i}") for i in range(k)]
    s = [ival(m, "s")] * k if cfg["stride"] == "int" else [ival(m, f"s{i}") for i in range(k)]
    if max(shp + pool + s) > 12:
        return dict(confirmed=False, note="model too large")
    x = np.random.default_rng(0).normal(size=shp)
    lead = nd - k
    valid = k <= nd and all(w > 0 and st >= 1 and shp[lead + i] - w >= 0 and (shp[lead + i] - w) % st == 0 for i, (w, st) in enumerate(zip(pool, s)))
    inp = dict(x_shape=shp, pool=pool, stride=s)
    try:
        out = max_pool(x, tuple(pool), tuple(s))
    except Exception as e:
        if valid:
            return dict(confirmed=True, input=inp, observed=f"raises {type(e).__name__}: {str(e)[:160]}", required="valid configuration must be pooled")
        return dict(confirmed=False, input=inp)
    if not valid:
        return dict(confirmed=True, input=inp, observed=f"returns shape {out.shape}", required="invalid configuration must be rejected")
    return dict(confirmed=False, input=inp)


def replay_swv(cfg, m):
    n, k = cfg["n"], cfg["m"]
    xs = [ival(m, f"x{i}", 2) for i in range(n)]
    W = [ival(m, f"W{i}") for i in range(k)]
    S = [ival(m, "S")] * k if cfg["step"] == "int" else [ival(m, f"S{i}") for i in range(k)]
    if cfg["dilation"] is None:
        D, dil = [1] * k, None
    elif cfg["dilation"] == "int":
        D = [ival(m, "D")] * k
        dil = D[0]
    else:
        D = [ival(m, f"D{i}") for i in range(k)]
        dil = tuple(D)
    if max([abs(v) for v in xs + W + S + D]) > 12 or int(np.prod(xs)) > 5000:
        return dict(confirmed=False, note="model too large")
    # the caller's array, with the model's byte strides where it gives them (element type: bytes of the model's itemsize, so that
    # strides need not be multiples of 8); it lives in the middle of a larger buffer so that a wrong view can be inspected safely
    nbyte = ival(m, "nbyte", 8)
    st = [ival(m, f"st{i}", None) for i in range(n)]
    canon = [nbyte * int(np.prod(xs[i + 1 :])) for i in range(n)]
    st = [c if v is None else v for v, c in zip(st, canon)]
    if not (1 <= nbyte <= 16) or max([abs(v) for v in st] + [0]) > 4096:
        return dict(confirmed=False, note="model too large")
    lo = sum(min(0, s_ * (x - 1)) for s_, x in zip(st, xs) if x > 0)
    hi = sum(max(0, s_ * (x - 1)) for s_, x in zip(st, xs) if x > 0) + nbyte
    margin = 1 << 16
    buf = (np.arange(2 * margin + hi - lo, dtype=np.int64) % 250 + 1).astype(np.uint8)
    elem = np.frombuffer(buf, dtype=f"S{nbyte}", count=1, offset=margin - lo)
    arr = np.lib.stride_tricks.as_strided(elem, shape=tuple(xs), strides=tuple(st), writeable=False)
    buf_lo = buf.__array_interface__["data"][0]
    buf_hi = buf_lo + buf.nbytes
    arr_lo, arr_hi = buf_lo + margin, buf_lo + margin + hi - lo
    lead = n - k
    accept = k <= n and all(w > 0 for w in W) and all(s > 0 for s in S) and all(W[i] <= xs[lead + i] for i in range(min(k, n))) and (dil is None or (all(d > 0 for d in D) and all(W[i] * D[i] <= xs[lead + i] for i in range(k))))
    inp = dict(arr_shape=xs, arr_strides=st, itemsize=nbyte, c_contiguous=bool(arr.flags["C_CONTIGUOUS"]), window_shape=W, step=S if cfg["step"] == "seq" else S[0], dilation=dil)
    try:
        v = sliding_window_view(arr, tuple(W), tuple(S) if cfg["step"] == "seq" else S[0], dil)
    except Exception as e:
        if accept:
            return dict(confirmed=True, input=inp, observed=f"raises {type(e).__name__}", required="accepted configuration")
        return dict(confirmed=False, input=inp)
    if not accept:
        return dict(confirmed=True, input=inp, observed=f"returns view of shape {v.shape}", required="must be rejected")
    exp_shape = tuple((xs[lead + i] - ((W[i] - 1) * D[i] + 1)) // S[i] + 1 for i in range(k)) + tuple(xs[:lead]) + tuple(W)
    if v.shape != exp_shape:
        return dict(confirmed=True, input=inp, observed=f"shape {v.shape}", required=f"shape {exp_shape}")
    if v.flags.writeable:
        return dict(confirmed=True, input=inp, observed="view is writeable", required="read-only view")
    if v.size:
        v0 = v.__array_interface__["data"][0]
        v_lo = v0 + sum(min(0, s_ * (x - 1)) for s_, x in zip(v.strides, v.shape))
        v_hi = v0 + sum(max(0, s_ * (x - 1)) for s_, x in zip(v.strides, v.shape)) + nbyte
        if buf_lo <= v0 < buf_hi and not (arr_lo <= v_lo and v_hi <= arr_hi):
            return dict(confirmed=True, input=inp, observed=f"the view spans bytes [{v_lo - arr_lo}, {v_hi - arr_lo}) relative to arr, which occupies [0, {arr_hi - arr_lo})", required="never exposes memory outside arr")
    for g in itertools.product(*[range(e) for e in exp_shape[:k]]):
        for w_ in itertools.product(*[range(e) for e in W]):
            for nn in itertools.product(*[range(e) for e in xs[:lead]]):
                idx = tuple(g[i] * S[i] + w_[i] * D[i] for i in range(k))
                if any(idx[i] >= xs[lead + i] for i in range(k)) or v[g + nn + w_].tobytes() != arr[nn + idx].tobytes():
                    return dict(confirmed=True, input=inp, observed=f"out[{g},{nn},{w_}] != arr[{nn},{idx}]", required="out[g,n,w]=arr[n,g*step+w*dilation] inside arr")
    return dict(confirmed=False, input=inp)


if __name__ == "__main__":
    spec = json.loads(sys.argv[1])
    fn = dict(conv=replay_conv, pool=replay_pool, swv=replay_swv)[spec["kind"]]
    print(json.dumps(fn(spec["config"], spec.get("model", {})), default=str))
