"""Replay of a refuted C06.pull obligation (clear_graph must read a view's gradient before it drops the view's creator): a view that sits
in the back-propagated graph -- with or without a gradient contribution of its own -- must report the view of its base's gradient after
backward()."""
import json

import numpy as np

import mygrad as mg

bad = []
n = 0
for vname, vf in (("[:2]", lambda t: t[:2]), (".T", lambda t: t.T), (".T[1:]", lambda t: t.T[1:]), ("reshape(-1)", lambda t: t.reshape(-1))):
    for consumer in ("detached-op", "gradient-carrying-op", "both"):
        base = mg.tensor(np.arange(6.0).reshape(2, 3) + 1.0)
        v = vf(base)
        L = (base * 3.0).sum()
        if consumer in ("detached-op", "both"):
            L = L + mg.sum(mg.exp(v, constant=True))
        if consumer in ("gradient-carrying-op", "both"):
            L = L + (v * 2.0).sum()
        L.backward()
        n += 1
        vg, bg = v.grad, base.grad
        ok = vg is not None and bg is not None and np.array_equal(vg, vf(mg.tensor(bg)).data) and np.shares_memory(vg, bg)
        if not ok:
            bad.append(dict(view=vname, consumers=consumer, view_grad=None if vg is None else vg.tolist(), base_grad=None if bg is None else bg.tolist()))
if bad:
    print(json.dumps(dict(confirmed=True, input=dict(program="base=tensor((2,3)); v=<view>(base); L=(base*3).sum() [+ sum(exp(v, constant=True))] [+ (v*2).sum()]; L.backward(); v.grad", cases=n), observed=bad[:4], required="v.grad is the view of base.grad and shares its memory")))
else:
    print(json.dumps(dict(confirmed=False, cases=n)))
