"""Replay of a refuted `...failed_op_releases_exactly_what_it_locked[.refused_result]` / `C13.op.*` obligation of Tensor._op on the real code.
argv[1] = JSON {scenario}.  Scenario names carry raises=True (the kernel raises) or raises=result (the kernel succeeds and the Tensor
constructor refuses its output).  The corresponding public calls are made on a fresh array; confirmed iff the array is read-only afterwards
although no graph is alive."""
import gc
import json
import sys

import numpy as np

import mygrad as mg


def main():
    info = json.loads(sys.argv[1])
    scen = info.get("scenario", "")
    leaks = []
    if "raises=result" in scen:
        calls = [("mg.multiply(A, 2, constant=False)", lambda A: mg.multiply(A, 2, constant=False)), ("mg.reshape(A, (3, 1), constant=False)", lambda A: mg.reshape(A, (3, 1), constant=False)),
                 ("mg.sum(A, constant=False)", lambda A: mg.sum(A, constant=False))]
        mk = lambda: np.array([1, 2, 3])  # noqa
    else:
        calls = [("mg.add(A, np.ones(7))", lambda A: mg.add(A, np.ones((7,)))), ("mg.reshape(A, (5, 5))", lambda A: mg.reshape(A, (5, 5))), ("mg.sum(A, axis=4)", lambda A: mg.sum(A, axis=4))]
        mk = lambda: np.array([1.0, 2.0, 3.0])  # noqa
    for name, call in calls:
        A = mk()
        try:
            call(A)
            continue
        except Exception as e:  # the failing statement
            err = f"{type(e).__name__}: {e}"
        gc.collect()
        if not A.flags.writeable:
            leaks.append(dict(call=name, raised=err, A_writeable_afterwards=False))
    print(json.dumps(dict(confirmed=bool(leaks), failing_inputs=leaks, note="A = np.array([1, 2, 3]) (or its float twin); after the call raised, A.flags.writeable must be True again")))


main()
