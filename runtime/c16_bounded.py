"""C16.layers [B] — bounded run-time contract: nnet layers equal their documented formulas,
evaluated naively element by element, on every valid configuration of an enumerated grid, and
reject every invalid configuration with an error.

Domain (exhaustive): conv_nd / max_pool with 1-D spatial size 1..6 and 2-D sizes in {1..4}^2 (quick:
{1,3,4}^2), window 1..3, stride 1..3, padding 0..2 (conv), dilation 1..3 (conv), N,C,F in {1,2};
batchnorm shapes x gamma/beta presence; softmax/logsoftmax every axis; the six losses; GRU T<=3.
Also sliding_window_view itself against the element formula on the same grid (cross-check of C16.swv).
"""
from __future__ import annotations

import itertools

import numpy as np

import mygrad as mg
import mygrad.nnet as nn
from mygrad.nnet.layers import gru as mg_gru
from mygrad.nnet.layers.utils import sliding_window_view
from runtime.common import Bounded, close, parse_args


def conv_valid(xs, ws, s, p, d):
    return all((xi + 2 * pi - ((wi - 1) * di + 1)) >= 0 and (xi + 2 * pi - ((wi - 1) * di + 1)) % si == 0 for xi, wi, si, pi, di in zip(xs, ws, s, p, d))


def conv_naive(x, w, s, p, d):
    N, C = x.shape[:2]
    F = w.shape[0]
    m = x.ndim - 2
    xp = np.pad(x, [(0, 0), (0, 0)] + [(pi, pi) for pi in p])
    out_sp = [(xp.shape[2 + k] - ((w.shape[2 + k] - 1) * d[k] + 1)) // s[k] + 1 for k in range(m)]
    out = np.zeros((N, F, *out_sp))
    for n in range(N):
        for f in range(F):
            for g in itertools.product(*[range(o) for o in out_sp]):
                acc = 0.0
                for c in range(C):
                    for wi in itertools.product(*[range(w.shape[2 + k]) for k in range(m)]):
                        idx = tuple(g[k] * s[k] + wi[k] * d[k] for k in range(m))
                        acc += xp[(n, c) + idx] * w[(f, c) + wi]
                out[(n, f) + g] = acc
    return out


def pool_naive(x, pool, s):
    m = len(pool)
    lead = x.ndim - m
    out_sp = [(x.shape[lead + k] - pool[k]) // s[k] + 1 for k in range(m)]
    out = np.zeros(x.shape[:lead] + tuple(out_sp))
    for nn_ in itertools.product(*[range(e) for e in x.shape[:lead]]):
        for g in itertools.product(*[range(o) for o in out_sp]):
            best = -np.inf
            for wi in itertools.product(*[range(pk) for pk in pool]):
                idx = tuple(g[k] * s[k] + wi[k] for k in range(m))
                best = max(best, x[nn_ + idx])
            out[nn_ + g] = best
    return out


def sigmoid(z):
    return 1.0 / (1.0 + np.exp(-z))


def gru_naive(X, Uz, Wz, bz, Ur, Wr, br, Uh, Wh, bh, s0):
    T, N, C = X.shape
    D = Uz.shape[1]
    S = np.zeros((T + 1, N, D))
    S[0] = s0
    for t in range(T):
        for n in range(N):
            sp = S[t, n]
            z = sigmoid(X[t, n] @ Uz + sp @ Wz + bz)
            r = sigmoid(X[t, n] @ Ur + sp @ Wr + br)
            h = np.tanh(X[t, n] @ Uh + (r * sp) @ Wh + bh)
            S[t + 1, n] = (1 - z) * h + z * sp
    return S


def run(tier, seed, only=None):
    rng = np.random.default_rng(seed)
    b = Bounded(
        "C16.layers",
        bound="conv/pool: 1-D sizes 1..6, 2-D sizes %s, window 1..3, stride 1..3, padding 0..2, dilation 1..3, N,C,F in {1,2}; softmax axes; losses N<=4,C<=3; GRU T<=3" % ("{1,3,4}^2" if tier == "quick" else "{1..4}^2"),
        rule="case = (layer, full configuration); non-trivial = valid configuration compared element-wise with the naive formula, or an invalid configuration that must raise",
    )

    def check_conv(xs, ws, s, p, d, N, C, F):
        desc = dict(layer="conv_nd", x=[N, C, *xs], w=[F, C, *ws], stride=list(s), padding=list(p), dilation=list(d))
        x = rng.normal(size=(N, C, *xs))
        w = rng.normal(size=(F, C, *ws))
        valid = conv_valid(xs, ws, s, p, d)
        b.count("conv_nd")
        try:
            out = nn.conv_nd(x, w, stride=tuple(s), padding=tuple(p), dilation=tuple(d))
        except Exception as e:
            if valid:
                b.fail("C16.layers.conv_nd.rejects_valid", desc, f"raises {type(e).__name__}: {str(e)[:120]}")
            b.case(desc)
            return
        if not valid:
            b.fail("C16.layers.conv_nd.accepts_invalid", desc, f"returned shape {out.shape}")
        else:
            ref = conv_naive(x, w, s, p, d)
            if out.shape != ref.shape or not close(out.data, ref, rtol=1e-9, atol=1e-10):
                b.fail("C16.layers.conv_nd.value", desc, "differs from naive formula")
        b.case(desc)

    def check_conv_dtypes():
        """operands of different precisions / kinds (an integer edge-detection kernel on a float image, float32 filters on float64 data, ...),
        with and without padding: the documented formula evaluated in the operands' common type"""
        kinds = [("float64", "int64"), ("float64", "float32"), ("float32", "float64"), ("int64", "float64"), ("float64", "float16"), ("float32", "int32"), ("float64", "float64")]
        for xdt, wdt in kinds:
            for (xs, ws, s, p, d) in [((5,), (3,), (1,), (1,), (1,)), ((5,), (3,), (1,), (0,), (1,)), ((4, 4), (2, 2), (2, 2), (1, 1), (1, 1)), ((5, 4), (3, 2), (1, 1), (1, 0), (1, 1)), ((6,), (2,), (2,), (2,), (2,))]:
                if not conv_valid(xs, ws, s, p, d):
                    continue
                x = (rng.normal(size=(2, 2, *xs)) * 3.0).astype(xdt)
                w = (rng.normal(size=(2, 2, *ws)) * 3.0).astype(wdt)
                desc = dict(layer="conv_nd", x_dtype=xdt, w_dtype=wdt, x=list(x.shape), w=list(w.shape), stride=list(s), padding=list(p), dilation=list(d))
                b.count("conv_nd[dtype mix]")
                try:
                    out = nn.conv_nd(x, w, stride=tuple(s), padding=tuple(p), dilation=tuple(d))
                except Exception as e:
                    b.fail("C16.layers.conv_nd.rejects_valid", desc, f"raises {type(e).__name__}: {str(e)[:120]}")
                    continue
                ref = conv_naive(x.astype(np.float64), w.astype(np.float64), s, p, d)
                tol = 5e-2 if "float16" in (xdt, wdt) else (1e-4 if "float32" in (xdt, wdt) else 1e-9)
                if out.shape != ref.shape or not close(np.asarray(out.data, dtype=np.float64), ref, rtol=tol, atol=tol * 10):
                    b.fail("C16.layers.conv_nd.value", desc, f"differs from the naive formula (max abs error {float(np.max(np.abs(np.asarray(out.data, dtype=np.float64) - ref))) if out.shape == ref.shape else 'shape'})")
                elif out.dtype != np.result_type(x, w):
                    b.fail("C16.layers.conv_nd.dtype", desc, f"result dtype {out.dtype}, operands' common type {np.result_type(x, w)}")
                b.case(desc)

    def check_pool(shape, pool, s):
        desc = dict(layer="max_pool", x=list(shape), pool=list(pool), stride=list(s))
        x = rng.normal(size=shape)
        lead = len(shape) - len(pool)
        valid = all(shape[lead + k] - pool[k] >= 0 and (shape[lead + k] - pool[k]) % s[k] == 0 for k in range(len(pool)))
        b.count("max_pool")
        try:
            out = nn.max_pool(x, tuple(pool), tuple(s))
        except Exception as e:
            if valid:
                b.fail("C16.layers.max_pool.rejects_valid", desc, f"raises {type(e).__name__}: {str(e)[:120]}")
            b.case(desc)
            return
        if not valid:
            b.fail("C16.layers.max_pool.accepts_invalid", desc, f"returned shape {out.shape}")
        else:
            ref = pool_naive(x, pool, s)
            if out.shape != ref.shape or not np.array_equal(out.data, ref):
                b.fail("C16.layers.max_pool.value", desc, "differs from naive formula")
        b.case(desc)

    def check_swv(shape, W, S, D):
        desc = dict(layer="sliding_window_view", arr=list(shape), window=list(W), step=list(S), dilation=None if D is None else list(D))
        arr = rng.normal(size=shape)
        k = len(W)
        lead = len(shape) - k
        Dv = D or [1] * k
        accept = all(W[i] <= shape[lead + i] for i in range(k)) and (D is None or all(W[i] * Dv[i] <= shape[lead + i] for i in range(k)))
        b.count("sliding_window_view")
        try:
            v = sliding_window_view(arr, tuple(W), tuple(S), None if D is None else tuple(D))
        except Exception as e:
            if accept:
                b.fail("C16.layers.swv.rejects_accepted", desc, f"raises {type(e).__name__}")
            b.case(desc)
            return
        if not accept:
            b.fail("C16.layers.swv.accepts_rejected", desc, f"shape {v.shape}")
            b.case(desc)
            return
        exp_shape = tuple((shape[lead + i] - ((W[i] - 1) * Dv[i] + 1)) // S[i] + 1 for i in range(k)) + tuple(shape[:lead]) + tuple(W)
        ok = v.shape == exp_shape and not v.flags.writeable and np.shares_memory(v, arr)
        if ok:
            lo, hi = np.lib.array_utils.byte_bounds(arr) if hasattr(np.lib, "array_utils") else np.byte_bounds(arr)
            vlo, vhi = np.lib.array_utils.byte_bounds(v) if hasattr(np.lib, "array_utils") else np.byte_bounds(v)
            ok = lo <= vlo and vhi <= hi
        if ok:
            for g in itertools.product(*[range(e) for e in exp_shape[:k]]):
                for w_ in itertools.product(*[range(e) for e in W]):
                    for n_ in itertools.product(*[range(e) for e in shape[:lead]]):
                        idx = tuple(g[i] * S[i] + w_[i] * Dv[i] for i in range(k))
                        if v[g + n_ + w_] != arr[n_ + idx]:
                            ok = False
        if not ok:
            b.fail("C16.layers.swv.value", desc, "view differs from out[g,n,w]=arr[n,g*step+w*dilation] / not read-only / outside arr")
        b.case(desc)

    # ---- conv / pool / swv grids -----------------------------------------------------------------
    ncf = [(1, 1, 1), (2, 2, 2)] if tier == "quick" else [(1, 1, 1), (2, 1, 2), (1, 2, 1), (2, 2, 2)]
    if not only or "conv" in only:
        for x0, w0, s0, p0, d0 in itertools.product(range(1, 7), range(1, 4), range(1, 4), range(0, 3), range(1, 4)):
            for (N, C, F) in ncf[: (1 if (x0 + w0 + s0 + p0 + d0) % 2 else 2)]:
                check_conv([x0], [w0], [s0], [p0], [d0], N, C, F)
        sizes2 = [1, 3, 4] if tier == "quick" else [1, 2, 3, 4]
        grid2 = list(itertools.product(sizes2, sizes2, [1, 2], [1, 3], [1, 2], [1, 2], [0, 1], [0, 2], [1, 2], [1, 3]))
        if tier == "quick":
            grid2 = grid2[::5]
        for (x0, x1, w0, w1, s0, s1, p0, p1, d0, d1) in grid2:
            check_conv([x0, x1], [w0, w1], [s0, s1], [p0, p1], [d0, d1], 1, 2, 2)
        check_conv_dtypes()
        # a stride / padding / dilation / pool size that is not an integer is not a configuration the documented formula is defined for: it is
        # rejected with an error, never silently truncated
        x1 = rng.normal(size=(1, 1, 10))
        w1 = rng.normal(size=(1, 1, 3))
        bad_cfgs = [("conv_nd", dict(stride=1, padding=(1.7,))), ("conv_nd", dict(stride=(1.9,))), ("conv_nd", dict(stride=1, dilation=(1.5,))), ("conv_nd", dict(stride=1.5)), ("conv_nd", dict(stride=1, padding=1.7)),
                    ("conv_nd", dict(stride=1, dilation=2.5)), ("conv_nd", dict(stride=[2.5])), ("conv_nd", dict(stride=np.array([1.5]))), ("max_pool", dict(pool=(2.5,), stride=1)), ("max_pool", dict(pool=(2,), stride=(1.5,))),
                    ("max_pool", dict(pool=(2,), stride=1.5)), ("max_pool", dict(pool=(2,), stride=np.array([2.5])))]
        for layer, kw in bad_cfgs:
            desc = dict(layer=layer, configuration={k: repr(v) for k, v in kw.items()}, kind="non-integral configuration value")
            b.count(f"{layer}[non-integral configuration]")
            try:
                out = nn.conv_nd(x1, w1, **kw) if layer == "conv_nd" else nn.max_pool(x1, **kw)
            except Exception:
                b.case(desc)
                continue
            b.fail(f"C16.layers.{layer}.accepts_invalid", desc, f"a non-integral value was accepted (silently truncated); returned shape {out.shape}")
            b.case(desc)
    if not only or "pool" in only:
        for x0, w0, s0 in itertools.product(range(1, 7), range(1, 4), range(1, 4)):
            check_pool((2, x0), [w0], [s0])
            check_pool((x0,), [w0], [s0])
        for x0, x1, w0, w1, s0, s1 in itertools.product(range(1, 5), range(1, 5), [1, 2, 3], [1, 2], [1, 2], [1, 3]):
            check_pool((2, x0, x1), [w0, w1], [s0, s1])
    if not only or "swv" in only:
        for x0, w0, s0, d0 in itertools.product(range(1, 7), range(1, 4), range(1, 4), [None, 1, 2, 3]):
            check_swv((x0,), [w0], [s0], None if d0 is None else [d0])
            check_swv((2, x0), [w0], [s0], None if d0 is None else [d0])
        for x0, x1, w0, w1, s0, s1, d in itertools.product([2, 4, 5], [3, 4], [1, 2], [1, 3], [1, 2], [1, 2], [None, (1, 1), (2, 1), (1, 2)]):
            check_swv((x0, x1), [w0, w1], [s0, s1], None if d is None else list(d))
        # non-contiguous and oddly-strided inputs: transposes, strided / offset slices on leading and trailing axes, inserted
        # length-1 axes (stride 0), transposed length-1 axes (large stride), negative strides, broadcast (stride-0) axes
        def layouts(shape):
            big = rng.normal(size=tuple(2 * e + 1 for e in shape))
            yield "slice-every-2nd", big[tuple(slice(0, 2 * e, 2) for e in shape)]
            yield "offset-slice", big[tuple(slice(1, 1 + e) for e in shape)]
            yield "lead-every-2nd", big[(slice(0, 2 * shape[0], 2),) + tuple(slice(0, e) for e in shape[1:])]
            yield "reversed", rng.normal(size=shape)[tuple(slice(None, None, -1) for _ in shape)]
            yield "fortran", np.asfortranarray(rng.normal(size=shape))
            if len(shape) >= 2:
                yield "transposed", rng.normal(size=shape[::-1]).T
                yield "swap-lead", np.swapaxes(rng.normal(size=(shape[1], shape[0]) + tuple(shape[2:])), 0, 1)
            yield "broadcast-lead", np.broadcast_to(rng.normal(size=shape[1:]), shape)

        def check_swv_arr(tag, arr, W, S, D):
            k = len(W)
            lead = arr.ndim - k
            shape = arr.shape
            desc = dict(layer="sliding_window_view", layout=tag, arr=list(shape), strides=list(arr.strides), window=list(W), step=list(S), dilation=list(D))
            if not all(W[i] * D[i] <= shape[lead + i] for i in range(k)):
                return
            b.count("sliding_window_view.layout")
            ref = np.array(arr, copy=True, order="C")
            v = sliding_window_view(arr, tuple(W), tuple(S), tuple(D))
            exp_shape = tuple((shape[lead + i] - ((W[i] - 1) * D[i] + 1)) // S[i] + 1 for i in range(k)) + tuple(shape[:lead]) + tuple(W)
            ok = v.shape == exp_shape and not v.flags.writeable
            if ok:
                for g in itertools.product(*[range(e) for e in exp_shape[:k]]):
                    for w_ in itertools.product(*[range(e) for e in W]):
                        for n_ in itertools.product(*[range(e) for e in shape[:lead]]):
                            idx = tuple(g[i] * S[i] + w_[i] * D[i] for i in range(k))
                            if v[g + n_ + w_] != ref[n_ + idx]:
                                ok = False
            if not ok:
                b.fail("C16.layers.swv.layout", desc, "view differs from out[g,n,w]=arr[n,g*step+w*dilation] / is writeable")
            b.case(desc)

        for shape in [(4,), (3, 4), (2, 3, 4), (2, 2, 3, 3)]:
            for tag, arr in layouts(shape):
                for k in range(1, min(3, len(shape)) + 1):
                    for W, S, D in [([1] * k, [1] * k, [1] * k), ([2] * k, [1] * k, [1] * k), ([2] * k, [2] * k, [1] * k), ([2] * k, [1] * k, [2] * k)]:
                        check_swv_arr(tag, arr, W, S, D)
        # length-1 axes whose stride is not the canonical one although NumPy flags the array C-contiguous
        for n_ in (1, 2, 3):
            base = rng.normal(size=(n_,))
            for tag, arr in [("newaxis-last", base[:, None]), ("row-transposed", base.reshape(1, n_).T), ("newaxis-both", base[None, :, None]), ("newaxis-first", base[None, :])]:
                for k in range(1, arr.ndim + 1):
                    W = [1] * k
                    check_swv_arr(tag, arr, W, [1] * k, [1] * k)
                    if arr.shape[-k] >= 2 or (k > 1 and arr.shape[-k] >= 2):
                        W2 = [min(2, e) for e in arr.shape[-k:]]
                        check_swv_arr(tag, arr, W2, [1] * k, [1] * k)
        # the layers on top of the window helper, on the same kinds of input
        for tag, x in list(layouts((2, 2, 4))) + [("newaxis-last", rng.normal(size=(2, 3))[:, :, None]), ("row-transposed", np.swapaxes(rng.normal(size=(2, 1, 3)), 1, 2))]:
            desc = dict(layer="max_pool/conv_nd", layout=tag, x=list(x.shape), strides=list(x.strides))
            ref = np.array(x, copy=True, order="C")
            pool = (2,) if x.shape[-1] >= 2 else (1,)
            b.count("layers.layout")
            out = nn.max_pool(mg.tensor(x), pool, 1).data
            if not np.array_equal(out, pool_naive(ref, list(pool), [1])):
                b.fail("C16.layers.max_pool.layout", desc, "differs from the naive formula")
            w = rng.normal(size=(2, x.shape[1], pool[0]))
            out = nn.conv_nd(mg.tensor(x), w, stride=1).data
            if not np.allclose(out, conv_naive(ref, w, [1], [0], [1])):
                b.fail("C16.layers.conv.layout", desc, "differs from the naive formula")
            b.case(desc)
    # ---- batchnorm -----------------------------------------------------------------------------
    if not only or "batchnorm" in only:
        for shape in [(2, 1), (3, 2), (4, 3), (2, 2, 3), (3, 1, 2, 2), (2, 3, 2, 1, 2)]:
            for use_g, use_b in itertools.product([False, True], repeat=2):
                for eps in (1e-3, 0.5):
                    x = rng.normal(size=shape)
                    C = shape[1]
                    gm = rng.normal(size=(C,)) if use_g else None
                    bt = rng.normal(size=(C,)) if use_b else None
                    desc = dict(layer="batchnorm", x=list(shape), gamma=use_g, beta=use_b, eps=eps)
                    out = nn.batchnorm(x, gamma=gm, beta=bt, eps=eps).data
                    ref = np.zeros(shape)
                    for c in range(C):
                        vals = [x[idx] for idx in np.ndindex(*shape) if idx[1] == c]
                        mu = sum(vals) / len(vals)
                        var = sum((v - mu) ** 2 for v in vals) / len(vals)
                        for idx in np.ndindex(*shape):
                            if idx[1] == c:
                                y = (x[idx] - mu) / np.sqrt(var + eps)
                                ref[idx] = (gm[c] if use_g else 1.0) * y + (bt[c] if use_b else 0.0)
                    b.count("batchnorm")
                    b.case(desc)
                    if not close(out, ref, rtol=1e-9, atol=1e-10):
                        b.fail("C16.layers.batchnorm.value", desc, "differs from (x-E[x])/sqrt(Var[x]+eps)*gamma+beta")
    # ---- softmax / logsoftmax --------------------------------------------------------------------
    if not only or "softmax" in only:
        for shape in [(3,), (2, 3), (2, 1, 3), ()]:
            nd = len(shape)
            axes = [None] + list(range(nd)) + [-(i + 1) for i in range(nd)] + ([(0, 1)] if nd >= 2 else [])
            for ax in axes:
                x = rng.normal(size=shape) * 3
                desc = dict(layer="softmax", x=list(shape), axis=ax)
                e = np.exp(x - np.max(x))
                den = e.sum(axis=ax, keepdims=True) if nd else e
                ref = e / den
                for fn, r in ((nn.softmax, ref), (nn.logsoftmax, np.log(ref))):
                    b.count(fn.__name__)
                    try:
                        out = (fn(x, axis=ax) if nd else fn(x)).data
                    except Exception as ex:
                        b.fail(f"C16.layers.{fn.__name__}.raises", desc, f"{type(ex).__name__}: {ex}")
                        continue
                    if not close(out, r, rtol=1e-9, atol=1e-10):
                        b.fail(f"C16.layers.{fn.__name__}.value", desc, "differs from exp(x)/sum(exp(x))")
                b.case(desc)
        # integer inputs of every width, values spread over the whole range of the type (the formula is evaluated in floating point)
        for dt, vals in ((np.uint8, [[1, 2, 250], [0, 255, 128]]), (np.int8, [[-128, 127, 0], [100, -100, 5]]), (np.int16, [[-32768, 32767, 0]]), (np.uint16, [[0, 65535, 7]]), (np.int64, [[-3, 0, 4], [10, 11, 9]])):
            xi = np.array(vals, dtype=dt)
            xf = xi.astype(float)
            e = np.exp(xf - xf.max(axis=-1, keepdims=True))
            ref = e / e.sum(axis=-1, keepdims=True)
            desc = dict(layer="softmax", x_dtype=np.dtype(dt).name, x=xi.tolist())
            for fn, r in ((nn.softmax, ref), (nn.logsoftmax, xf - xf.max(axis=-1, keepdims=True) - np.log(e.sum(axis=-1, keepdims=True)))):
                b.count(fn.__name__ + "[integer input]")
                try:
                    out = fn(xi).data
                except Exception as ex:
                    b.fail(f"C16.layers.{fn.__name__}.raises", desc, f"{type(ex).__name__}: {ex}")
                    continue
                if not close(out, r, rtol=1e-9, atol=1e-12):
                    b.fail(f"C16.layers.{fn.__name__}.integer_input", desc, f"got {np.asarray(out).tolist()}, formula gives {r.tolist()}")
            b.case(desc)
        big = np.array([[1000.0, 1001.0, 999.0]])
        b.case(dict(layer="softmax", x="large values"))
        if not close(nn.softmax(big).data, np.exp(big - 1001) / np.exp(big - 1001).sum()):
            b.fail("C16.layers.softmax.stability", dict(x=big.tolist()), "overflow")
    # ---- losses ------------------------------------------------------------------------------------
    if not only or "loss" in only:
        for N, C in itertools.product([1, 2, 4], [1, 2, 3]):
            for rep in range(2):
                x = rng.normal(size=(N, C)) * 2
                y = rng.integers(0, C, size=N)
                desc = dict(layer="losses", N=N, C=C, rep=rep)
                sm = np.exp(x) / np.exp(x).sum(axis=1, keepdims=True)
                ref_ce = sum(-np.log(sm[n, y[n]]) for n in range(N)) / N
                checks = [("softmax_crossentropy", nn.softmax_crossentropy(x, y).data, ref_ce)]
                checks.append(("negative_log_likelihood", nn.negative_log_likelihood(np.log(sm), y).data, ref_ce))
                wts = rng.uniform(0.2, 2, size=C)
                ref_w = -sum(wts[y[n]] * np.log(sm[n, y[n]]) for n in range(N)) / N
                checks.append(("negative_log_likelihood[weights]", nn.negative_log_likelihood(np.log(sm), y, weights=wts).data, ref_w))
                for hinge in (1.0, 0.3):
                    ref_h = sum(max(0.0, x[n, j] - x[n, y[n]] + hinge) for n in range(N) for j in range(C) if j != y[n]) / N
                    checks.append((f"multiclass_hinge[{hinge}]", nn.multiclass_hinge(x, y, hinge=hinge).data, ref_h))
                for alpha, gamma in [(1, 0), (0.5, 2.0), (2, 1)]:
                    ref_f = np.array([-alpha * (1 - sm[n, y[n]]) ** gamma * np.log(sm[n, y[n]]) for n in range(N)])
                    checks.append((f"focal_loss[{alpha},{gamma}]", nn.focal_loss(sm, y, alpha=alpha, gamma=gamma).data, ref_f))
                    checks.append((f"softmax_focal_loss[{alpha},{gamma}]", nn.softmax_focal_loss(x, y, alpha=alpha, gamma=gamma).data, ref_f))
                for nm, got, ref in checks:
                    b.count(nm.split("[")[0])
                    if not close(got, ref, rtol=1e-8, atol=1e-10):
                        b.fail(f"C16.layers.{nm}.value", desc, f"got {np.asarray(got).tolist()} expected {np.asarray(ref).tolist()}")
                b.case(desc)
        # labels outside the documented range [0, C) are rejected with an error -- in every row, for every loss that takes class labels; labels
        # inside it, of any integer type, give the formula
        Nl, Cl = 3, 4
        xs_ = rng.normal(size=(Nl, Cl))
        probs_ = np.exp(xs_) / np.exp(xs_).sum(axis=1, keepdims=True)
        label_losses = [("softmax_crossentropy", lambda y: nn.softmax_crossentropy(xs_, y)), ("negative_log_likelihood", lambda y: nn.negative_log_likelihood(np.log(probs_), y)),
                        ("multiclass_hinge", lambda y: nn.multiclass_hinge(xs_, y)), ("focal_loss", lambda y: nn.focal_loss(probs_, y, alpha=1, gamma=1)), ("softmax_focal_loss", lambda y: nn.softmax_focal_loss(xs_, y, alpha=1, gamma=1))]
        for ln_, lf_ in label_losses:
            good = np.array([1, 3, 0])
            ref_out = np.asarray(lf_(good).data)
            for ldt in (np.int8, np.uint8, np.int32, np.uint64, np.int64):
                b.count(f"{ln_}[label dtype]")
                d_ = dict(layer=ln_, labels=good.tolist(), label_dtype=np.dtype(ldt).name)
                try:
                    got = np.asarray(lf_(good.astype(ldt)).data)
                    if not close(got, ref_out, rtol=1e-12, atol=0):
                        b.fail(f"C16.layers.{ln_}.value", d_, "the value depends on the integer type of the labels")
                except Exception as e:
                    b.fail(f"C16.layers.{ln_}.rejects_valid", d_, f"{type(e).__name__}: {e}")
                b.case(d_)
            for row in range(Nl):
                for badv in (Cl, Cl + 1, 2 * Cl, -1, -Cl, -Cl - 1):
                    y = good.copy()
                    y[row] = badv
                    d_ = dict(layer=ln_, labels=y.tolist(), classes=Cl, kind="label outside [0, C)")
                    b.count(f"{ln_}[label range]")
                    try:
                        out = lf_(y)
                    except Exception:
                        b.case(d_)
                        continue
                    b.fail(f"C16.layers.{ln_}.accepts_invalid", d_, f"label {badv} (row {row}) is outside [0, {Cl}) and was accepted; returned {np.asarray(out.data).tolist()}")
                    b.case(d_)
        # integer-valued scores (the layers accept them; the formulas are evaluated in floating point)
        for dt, vals, ys in ((np.uint8, [[1, 2, 250], [0, 255, 128]], [2, 1]), (np.int8, [[-128, 127, 0], [100, -100, 5]], [1, 0]), (np.int16, [[-32768, 32767, 0]], [1]), (np.int64, [[-3, 0, 4], [10, 11, 9]], [0, 2]), (np.uint8, [[3, 1, 2]], [1])):
            xi, y = np.array(vals, dtype=dt), np.array(ys)
            xf = xi.astype(float)
            lsm = xf - xf.max(axis=1, keepdims=True) - np.log(np.exp(xf - xf.max(axis=1, keepdims=True)).sum(axis=1, keepdims=True))
            N = len(ys)
            desc = dict(layer="losses", x_dtype=np.dtype(dt).name, x=xi.tolist(), y=ys)
            ref_ce = sum(-lsm[n, y[n]] for n in range(N)) / N
            ref_f = np.array([-(1 - np.exp(lsm[n, y[n]])) ** 1.0 * lsm[n, y[n]] for n in range(N)])
            for nm, fn, ref in (("softmax_crossentropy", lambda: nn.softmax_crossentropy(xi, y).data, ref_ce), ("softmax_focal_loss", lambda: nn.softmax_focal_loss(xi, y, alpha=1, gamma=1).data, ref_f)):
                b.count(nm + "[integer scores]")
                try:
                    got = fn()
                except Exception as ex:
                    b.fail(f"C16.layers.{nm}.raises", desc, f"{type(ex).__name__}: {ex}")
                    continue
                if not close(got, ref, rtol=1e-8, atol=1e-10):
                    b.fail(f"C16.layers.{nm}.integer_input", desc, f"got {np.asarray(got).tolist()} expected {np.asarray(ref).tolist()}")
            b.case(desc)
        for N in (1, 3):
            for shape in ((N,), (N, 2)):
                x1, x2 = rng.normal(size=shape), rng.normal(size=shape)
                for yv in (1, -1, rng.choice([-1, 1], size=N)):
                    for margin in (0.0, 0.5):
                        yb = np.asarray(yv)
                        yy = yb if yb.ndim == 0 or len(shape) == 1 else yb[:, None]
                        ref = np.mean(np.maximum(0, margin - yy * (x1 - x2)))
                        got = nn.margin_ranking_loss(x1, x2, yv, margin).data
                        desc = dict(layer="margin_ranking_loss", shape=list(shape), y=np.asarray(yv).tolist(), margin=margin)
                        b.count("margin_ranking_loss")
                        b.case(desc)
                        if not close(got, ref, rtol=1e-9, atol=1e-12):
                            b.fail("C16.layers.margin_ranking_loss.value", desc, f"got {got} expected {ref}")
    # ---- GRU ---------------------------------------------------------------------------------------
    if not only or "gru" in only:
        for T, N, C, D in itertools.product([1, 2, 3], [1, 2], [1, 2], [1, 3]):
            for use_s0 in (False, True):
                P = [rng.normal(size=s) * 0.7 for s in [(T, N, C), (C, D), (D, D), (D,), (C, D), (D, D), (D,), (C, D), (D, D), (D,)]]
                s0 = rng.normal(size=(N, D)) if use_s0 else None
                desc = dict(layer="gru", T=T, N=N, C=C, D=D, s0=use_s0)
                out = mg_gru(*P, s0=s0).data
                ref = gru_naive(*P, s0 if use_s0 else np.zeros((N, D)))
                b.count("gru")
                b.case(desc)
                if out.shape != ref.shape or not close(out, ref, rtol=1e-6, atol=1e-8):
                    b.fail("C16.layers.gru.value", desc, "differs from the documented GRU equations")
    return b


if __name__ == "__main__":
    a = parse_args()
    run(a.tier, a.seed, a.only).emit()
