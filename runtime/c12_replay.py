"""Replay for refuted C12 ownership obligations (OWNG) of Operation.backward on the real code: search small
programs x seed kinds for a stored gradient that does not own its memory / aliases the caller's seed / aliases
another tensor's gradient, or for a seed that is modified."""
import itertools
import json

import numpy as np

import mygrad as mg

rng = np.random.default_rng(0)
progs = [
    ("L = mg.concatenate([a, a])", lambda a, b: mg.concatenate([a, a])),
    ("L = mg.stack([a, b])", lambda a, b: mg.stack([a, b])),
    ("L = a + b", lambda a, b: a + b),
    ("L = a[...] * 1 + a", lambda a, b: a[...] * 1 + a),
    ("L = mg.reshape(a, (3, 2)).T + b", lambda a, b: mg.reshape(a, (3, 2)).T + b),
    ("L = a * b", lambda a, b: a * b),
    ("L = mg.concatenate([a, b, a], axis=1)", lambda a, b: mg.concatenate([a, b, a], axis=1)),
    ("L = a.T", lambda a, b: a.T),
    ("L = +a", lambda a, b: +a),
]
for (pn, pf) in progs:
    for seedkind in ("owning array", "view of a buffer", "reshape of arange", "None"):
        a = mg.tensor(rng.uniform(1, 2, size=(2, 3)))
        b = mg.tensor(rng.uniform(1, 2, size=(2, 3)))
        L = pf(a, b)
        if seedkind == "owning array":
            g = rng.uniform(1, 2, size=L.shape)
        elif seedkind == "view of a buffer":
            buf = rng.uniform(1, 2, size=(L.size + 2,))
            g = buf[1:-1].reshape(L.shape)
        elif seedkind == "reshape of arange":
            g = np.arange(float(L.size)).reshape(L.shape)
        else:
            g = None
        gs = None if g is None else g.copy()
        L.backward(g) if g is not None else L.backward()
        prog = f"a, b = tensors (2,3); {pn}; L.backward({seedkind})"
        probs = []
        if g is not None and not np.array_equal(g, gs):
            probs.append("the array passed to backward(grad) was modified")
        for nm, t in (("a", a), ("b", b)):
            if t.grad is None:
                continue
            if t.grad.base is not None:
                probs.append(f"{nm}.grad does not own its memory (grad.base is not None)")
            if g is not None and np.shares_memory(t.grad, g):
                probs.append(f"{nm}.grad shares memory with the caller's seed")
            if np.shares_memory(t.grad, L.grad) and not np.shares_memory(t.data, L.data):
                probs.append(f"{nm}.grad shares memory with L.grad")
        if a.grad is not None and b.grad is not None and np.shares_memory(a.grad, b.grad):
            probs.append("a.grad shares memory with b.grad")
        if probs:
            print(json.dumps(dict(confirmed=True, input=prog, observed=probs, required="stored gradients own their memory, alias neither the caller's array nor each other; the seed is not written")))
            raise SystemExit(0)
print(json.dumps(dict(confirmed=False)))
