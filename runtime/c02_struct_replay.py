"""Replay of a refuted C02.struct obligation against the real code (under /venv/bin/python).

Input (JSON on argv[1]): {op: "module:Class", rank, args: "<repr with '$name' markers>", ones: [...], model: {...}}
The solver's model fixes extents n_k, shifts s_k and new extents m_k where it can; otherwise (and additionally) a small grid of
extents / shifts is tried.  For a pure rearrangement the exact VJP is known without differentiation: run the real forward on
an array of element numbers, then scatter-add the incoming gradient to the positions the output elements came from.  A point
FAILS when the gradient the real op sends back (through Tensor._op and backward) differs from that, in shape or value.
"""
import ast
import importlib
import itertools
import json
import sys

import numpy as np

import mygrad as mg
from mygrad import Tensor


def toint(s):
    try:
        return int(str(s).replace("?", ""))
    except Exception:
        return None


def subst(v, env):
    if isinstance(v, str) and v.startswith("$"):
        return env[v[1:]]
    if isinstance(v, tuple):
        return tuple(subst(x, env) for x in v)
    return v


def markers(v, out):
    if isinstance(v, str) and v.startswith("$"):
        out.append(v[1:])
    elif isinstance(v, tuple):
        for x in v:
            markers(x, out)
    return out


NUMPY = {
    "Tensor_Transpose_Property": lambda a: a.T, "Transpose": lambda a, axes=None: np.transpose(a, axes), "MoveAxis": np.moveaxis, "SwapAxes": np.swapaxes,
    "Roll": lambda a, shift, axis: np.roll(a, shift, axis), "Reshape": np.reshape, "Flatten": lambda a: a.flatten(), "Ravel": np.ravel,
    "Squeeze": lambda a, axis: np.squeeze(a, axis=axis), "ExpandDims": lambda a, axis: np.expand_dims(a, axis), "AtLeast1D": np.atleast_1d, "AtLeast2D": np.atleast_2d,
    "AtLeast3D": np.atleast_3d, "BroadcastTo": np.broadcast_to,
}


def join_replay(spec, Op, cls):
    """Concatenate / Stack with P pieces: every piece's gradient against the scatter of the incoming gradient (element numbers through the
    real forward), and the forward against the NumPy namesake."""
    P, axis, _index = ast.literal_eval(spec["args"])
    rank = spec["rank"]
    rng = np.random.default_rng(0)
    tried = 0
    for base in itertools.product((2, 1, 3), repeat=rank):
        for ext in itertools.product((1, 2, 3), repeat=P):
            shapes = []
            for p in range(P):
                d = list(base)
                if cls == "Concatenate" and axis is not None and rank:
                    d[axis % rank] = ext[p]
                elif cls == "Concatenate" and axis is None and rank:
                    d[0] = ext[p]
                shapes.append(tuple(d))
            xs = [rng.normal(size=s_) for s_ in shapes]
            sizes = [int(np.prod(s_)) for s_ in shapes]
            offs = np.concatenate([[0], np.cumsum(sizes)])
            ids = [np.arange(offs[p], offs[p + 1], dtype=float).reshape(shapes[p]) for p in range(P)]
            npf = np.concatenate if cls == "Concatenate" else np.stack
            try:
                ref_ids = npf(ids, axis=axis)
            except Exception:
                continue
            tried += 1
            try:
                ts = [mg.tensor(x) for x in xs]
                y = Tensor._op(Op, *ts, op_kwargs=dict(axis=axis))
                ref = npf(xs, axis=axis)
                if y.shape != ref.shape or not np.array_equal(y.data, ref):
                    print(json.dumps(dict(confirmed=True, op=spec["op"], shapes=[list(s_) for s_ in shapes], axis=axis, what="forward differs from NumPy", mygrad_shape=list(y.shape), numpy_shape=list(ref.shape))))
                    return True
                g = rng.normal(size=y.shape)
                y.backward(g)
                flatg = np.zeros(int(offs[-1]))
                np.add.at(flatg, ref_ids.astype(int).ravel(), g.ravel())
                for p in range(P):
                    e = flatg[offs[p]:offs[p + 1]].reshape(shapes[p])
                    got = ts[p].grad
                    if got is None or got.shape != e.shape or not np.allclose(got, e):
                        print(json.dumps(dict(confirmed=True, op=spec["op"], shapes=[list(s_) for s_ in shapes], axis=axis, piece=p, expected=e.tolist(), got=None if got is None else np.asarray(got).tolist(),
                                              how=f"mg.{cls.lower()}(pieces, axis={axis}).backward(g): piece {p}'s grad vs the slice of g it occupies")))
                        return True
            except Exception as e:
                print(json.dumps(dict(confirmed=True, op=spec["op"], shapes=[list(s_) for s_ in shapes], axis=axis, raised=f"{type(e).__name__}: {e}")))
                return True
            if tried >= 60:
                break
        if tried >= 60:
            break
    print(json.dumps(dict(confirmed=False, tried=tried, note="no failing input among the configurations tried")))
    return False


def reduce_replay(spec, Op, cls):
    """Sum / Mean: x.grad after op(x, axis, keepdims).backward(g) against g broadcast back over the reduced axes (divided by their extent
    for Mean), on small shapes; a backward that raises after an accepted forward fails too."""
    rank = spec["rank"]
    axis = ast.literal_eval(spec["axis"])
    keepdims = ast.literal_eval(spec["keepdims"])
    rng = np.random.default_rng(0)
    tried = 0
    for dims in itertools.product((2, 3, 1, 4), repeat=rank):
        x = rng.normal(size=dims)
        npf = np.sum if cls == "Sum" else np.mean
        try:
            ref = npf(x, axis=axis, keepdims=keepdims)
        except Exception:
            continue
        tried += 1
        t = mg.tensor(x)
        try:
            y = Tensor._op(Op, t, op_kwargs=dict(axis=axis, keepdims=keepdims))
            if y.shape != np.shape(ref) or not np.allclose(y.data, ref):
                print(json.dumps(dict(confirmed=True, op=spec["op"], shape=list(dims), axis=repr(axis), keepdims=keepdims, what="forward differs from NumPy")))
                return
            g = rng.normal(size=y.shape)
            y.backward(g)
            if keepdims or rank == 0 or axis == ():
                gk = np.asarray(g)
            else:
                axes = tuple(range(rank)) if axis is None else ((axis,) if isinstance(axis, int) else tuple(axis))
                gk = np.expand_dims(np.asarray(g), axes)
            e = np.broadcast_to(gk, dims) / (x.size / max(y.size, 1) if cls == "Mean" else 1.0)
            got = t.grad
            if got is None or got.shape != tuple(dims) or not np.allclose(got, e):
                print(json.dumps(dict(confirmed=True, op=spec["op"], shape=list(dims), axis=repr(axis), keepdims=keepdims, expected=np.asarray(e).tolist(), got=None if got is None else np.asarray(got).tolist(),
                                      how=f"Tensor._op({cls}, x{tuple(dims)}, op_kwargs=dict(axis={axis!r}, keepdims={keepdims})).backward(g); x.grad vs g broadcast over the reduced axes")))
                return
        except Exception as ex:
            print(json.dumps(dict(confirmed=True, op=spec["op"], shape=list(dims), axis=repr(axis), keepdims=keepdims, raised=f"{type(ex).__name__}: {ex}")))
            return
    print(json.dumps(dict(confirmed=False, tried=tried, note="no failing input among the configurations tried")))


def main():
    spec = json.loads(sys.argv[1])
    modname, cls = spec["op"].split(":")
    Op = getattr(importlib.import_module(modname), cls)
    rank = spec["rank"]
    if cls in ("Sum", "Mean"):
        reduce_replay(spec, Op, cls)
        return
    if cls in ("Concatenate", "Stack"):
        join_replay(spec, Op, cls)
        return
    args = ast.literal_eval(spec["args"]) if cls != "BroadcastTo" else ("$shape",)
    ones = set(spec.get("ones") or [])
    model = spec.get("model") or {}
    names = markers(args, [])
    cands = []
    md = [toint(model.get(f"n{k}")) for k in range(rank)]
    if all(v is not None and 0 <= v <= 6 for v in md):
        cands.append([1 if k in ones else v for k, v in enumerate(md)])
    for dims in itertools.product((2, 3, 1, 4), repeat=rank):
        cands.append([1 if k in ones else v for k, v in enumerate(dims)])
    rng = np.random.default_rng(0)
    tried = 0
    for dims in cands[:40]:
        size = int(np.prod(dims)) if dims else 1
        envs = []
        if cls == "BroadcastTo":
            envs = [dict(shape=tuple(lead) + tuple(dims)) for lead in ((), (2,), (3, 2))]
            envs += [dict(shape=tuple(lead) + tuple(4 if d == 1 else d for d in dims)) for lead in ((2,), (3, 2))]
        elif cls == "Reshape":
            q = len(names)
            envs = [dict(zip(names, [size] + [1] * (q - 1)))] if q else [dict()]
            if q >= 2:
                for a in range(1, size + 1):
                    if size % a == 0:
                        envs.append(dict(zip(names, [a, size // a] + [1] * (q - 2))))
        else:
            mv = {n: toint(model.get(n)) for n in names}
            if names and all(v is not None and abs(v) < 50 for v in mv.values()):
                envs.append(mv)
            for vals in itertools.product((1, -1, 2, 5, 0, -4), repeat=len(names)):
                envs.append(dict(zip(names, vals)))
        for env in envs[:40]:
            cargs = [subst(a, env) for a in args]
            x = rng.normal(size=dims)
            if spec.get("mode") == "forward":
                # C03: the real forward against NumPy's own call on the same array
                def attempt(f):
                    try:
                        r = np.asarray(f())
                        return ("ok", r.shape, r.tolist())
                    except Exception as e:
                        return ("raise", type(e).__name__)

                mine = attempt(lambda: Tensor._op(Op, mg.tensor(x), op_args=cargs).data)
                ref = attempt(lambda: NUMPY[cls](x, *cargs))
                tried += 1
                if mine[:2] != ref[:2] or (mine[0] == "ok" and not np.array_equal(np.asarray(mine[2]), np.asarray(ref[2]))):
                    print(json.dumps(dict(confirmed=True, op=spec["op"], shape=list(dims), args=repr(cargs), mygrad=[str(v)[:200] for v in mine], numpy=[str(v)[:200] for v in ref],
                                          how=f"Tensor._op({cls}, x{tuple(dims)}, op_args={cargs!r}).data  vs  the NumPy namesake on x")))
                    return
                continue
            ids = np.arange(size, dtype=float).reshape(dims)
            try:
                out_ids = Tensor._op(Op, mg.tensor(ids), op_args=cargs, constant=True).data
            except Exception:
                continue  # NumPy refuses this configuration
            tried += 1
            t = mg.tensor(x)
            y = Tensor._op(Op, t, op_args=cargs)
            g = rng.normal(size=y.shape)
            expected = np.zeros(size)
            np.add.at(expected, np.asarray(out_ids, dtype=int).ravel(), g.ravel())
            expected = expected.reshape(dims)
            try:
                y.backward(g)
                got = t.grad
                bad = got is None or got.shape != expected.shape or not np.allclose(got, expected)
                detail = dict(got=np.asarray(got).tolist() if got is not None else None)
            except Exception as e:  # a backward that raises after an accepted forward is a failure too
                bad, detail = True, dict(raised=f"{type(e).__name__}: {e}")
            if bad:
                print(json.dumps(dict(confirmed=True, op=spec["op"], shape=list(dims), args=repr(cargs), expected=expected.tolist(), **detail,
                                      how=f"Tensor._op({cls}, x{tuple(dims)}, op_args={cargs!r}); y.backward(g); compare x.grad with the scatter of g")))
                return
    print(json.dumps(dict(confirmed=False, tried=tried, note="no failing input among the configurations tried")))


if __name__ == "__main__":
    main()
