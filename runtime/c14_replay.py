"""Replay for refuted C14.seed obligations: L.backward(g) must equal (L*g).sum().backward() for every g that broadcasts to L."""
import itertools
import json

import numpy as np

import mygrad as mg

rng = np.random.default_rng(0)
for shp in [(3, 4), (2, 3, 4), (3,), ()]:
    cands = [shp]
    for mask in itertools.product([False, True], repeat=len(shp)):
        full = tuple(1 if m else s for m, s in zip(mask, shp))
        for drop in range(len(shp) + 1):
            c = full[drop:]
            try:
                if np.broadcast_shapes(c, shp) == shp and c not in cands:
                    cands.append(c)
            except ValueError:
                pass
    for gs in cands:
        for kind in ("array", "tensor", "list"):
            xv = rng.uniform(1, 2, size=shp)
            gv = rng.uniform(1, 2, size=gs)
            g = gv if kind == "array" else (mg.tensor(gv) if kind == "tensor" else gv.tolist())
            x1 = mg.tensor(xv.copy())
            L1 = x1 * 2.0
            L1.backward(g)
            x2 = mg.tensor(xv.copy())
            (x2 * 2.0 * gv).sum().backward()
            prog = f"x = tensor{shp}; L = x*2.0; L.backward(g) with g of shape {gs} ({kind})"
            if x1.grad is None or not np.allclose(x1.grad, x2.grad) or L1.grad.shape != shp or not np.allclose(L1.grad, np.broadcast_to(gv, shp)):
                print(json.dumps(dict(confirmed=True, input=prog, observed=dict(L_grad=np.asarray(L1.grad).tolist(), x_grad=None if x1.grad is None else x1.grad.tolist()), required=dict(L_grad=np.broadcast_to(gv, shp).tolist(), x_grad=x2.grad.tolist()))))
                raise SystemExit(0)
print(json.dumps(dict(confirmed=False)))
