"""Bounded run-time contract checks over the shared program catalogue (runtime/programs.py).

usage: graph_bounded.py --check C01|C04|C05|C06|C07|C12|C14 --tier quick|thorough --seed N
Each check evaluates the property's contract on every catalogue program (x value draws, x constant
assignments where relevant).  All of this is *bounded*: it is reported separately from the discharged
obligations and never counted as proved.
"""
from __future__ import annotations

import argparse
import gc
import itertools
import json
import sys
import weakref
import zlib

import numpy as np

import mygrad as mg
from mygrad.errors import InvalidBackprop
from mygrad import Tensor
from runtime.common import Bounded, close, robust_central
from runtime.programs import P, leaves, numeric_grads, run_numpy, select


def mg_run(f, vals, constants=None, dtype=np.float64):
    ts = [mg.tensor(np.array(v, dtype=dtype, copy=True), constant=bool(constants and constants[i])) for i, v in enumerate(vals)]
    out = f(mg, *ts)
    return out, ts


# ------------------------------------------------------------------------------------------------------------
def check_c01_c05(prop, tier, seed):
    rng = np.random.default_rng(seed)
    inplace = prop == "C05"
    progs = select(include=("inplace",)) if inplace else select(exclude=("inplace",))
    b = Bounded(
        f"{prop}.bounded",
        bound=f"{len(progs)} catalogue programs ({'in-place/view mutation' if inplace else 'pure DAGs and views'}) x {2 if tier=='quick' else 5} value draws x constant/non-constant leaf assignments (all subsets for <=3 leaves)",
        rule="case = (program, constant-mask, draw); non-trivial = at least one non-constant leaf whose .grad is compared with the 4th-order numeric derivative of the NumPy twin",
    )
    draws = 2 if tier == "quick" else 5
    for (name, tags, shapes, f) in progs:
        nl = len(shapes)
        masks = list(itertools.product([False, True], repeat=nl)) if nl <= 3 else [tuple([False] * nl)]
        if inplace:
            # an in-place target keeps its own flag (C10): when the target derives from constants only, the
            # written values are not tracked by design, so the functional twin is not the specification there
            masks = [m for m in masks if not m[0]]
        for d in range(draws):
            vals = leaves(rng, shapes)
            num = numeric_grads(f, vals)
            for cm in masks:
                if "leafmut" in tags and any(cm):
                    # mutating a constant leaf in place is legal but then it is no longer "the same program"
                    pass
                desc = dict(program=name, constants=list(cm), draw=d)
                try:
                    out, ts = mg_run(f, vals, cm)
                    L = out["L"]
                    L.backward()
                except Exception as e:
                    b.fail(f"{prop}.bounded.raises", desc, f"{type(e).__name__}: {e}")
                    b.case(desc)
                    continue
                ok_any = False
                for i, t in enumerate(ts):
                    b.count("leaf.grad == d sum(L)/d leaf")
                    if cm[i]:
                        if t.grad is not None:
                            b.fail(f"{prop}.bounded.constant_has_grad", dict(desc, leaf=i), "constant leaf acquired a gradient")
                        continue
                    if all(cm):
                        continue
                    if "leafmut" in tags and i == 0:
                        continue  # a mutated leaf's .grad is w.r.t. its post-mutation value (checked separately)
                    exp = num[i]
                    got = t.grad
                    if got is None:
                        if not np.allclose(exp, 0, atol=1e-7):
                            b.fail(f"{prop}.bounded.grad", dict(desc, leaf=i, values=[v.tolist() for v in vals]), f"grad is None, expected {exp.tolist()}")
                        continue
                    ok_any = True
                    if isinstance(exp, np.ma.MaskedArray):
                        b.count("elements skipped: finite-difference oracle unreliable next to a kink", int(np.ma.getmaskarray(exp).sum()))
                    if not close(got, exp, rtol=1e-5, atol=1e-6):
                        b.fail(f"{prop}.bounded.grad", dict(desc, leaf=i, values=[v.tolist() for v in vals]), f"got {np.asarray(got).tolist()} expected {exp.tolist()}")
                if name == "unused-branch" and not cm[1]:
                    if ts[1].grad is not None:
                        b.fail(f"{prop}.bounded.independent_tensor_got_grad", desc, "tensor L does not depend on received a gradient")
                # exposed intermediates: gradient of a mutated/intermediate tensor w.r.t. its *current* value
                b.case(desc, nontrivial=ok_any)
    if inplace:
        check_c05_mutated_current_value(b, rng, tier)
        check_c05_integer_array_setitem(b, rng, tier)
    check_index_array_ownership(b, rng, prop)
    if not inplace:
        check_mask_ownership(b, rng, prop)
        check_detached_twin(b, rng, prop)
        check_argument_ownership(b, rng, prop)
    return b


def check_index_array_ownership(b, rng, prop):
    """The index of x[idx] / x[idx] = y is part of the RECORDED computation: if the caller changes the index array (or list) afterwards,
    backward() must still differentiate what was computed.  C01: getitem; C05: setitem."""
    for kind in (("getitem",) if prop == "C01" else ("setitem", "setitem-view")):
        for container in ("int-array", "bool-array", "list", "tuple-of-arrays", "int-tensor", "bool-tensor", "tuple-of-tensors"):
            xv = rng.uniform(1, 2, size=(5,))
            x0 = mg.tensor(xv.copy())
            x = x0 * 1.0
            w = np.array([1.0, 2.0, 3.0, 4.0, 5.0])
            if container == "int-array":
                idx = np.array([0, 1]); alt = np.array([3, 4])
            elif container == "bool-array":
                idx = np.array([True, True, False, False, False]); alt = np.array([False, False, False, True, True])
            elif container == "list":
                idx = [0, 1]; alt = [3, 4]
            elif container == "int-tensor":
                idx = mg.tensor([0, 1]); alt = np.array([3, 4])
            elif container == "bool-tensor":
                idx = mg.tensor([True, True, False, False, False]); alt = np.array([False, False, False, True, True])
            elif container == "tuple-of-tensors":
                idx = (mg.tensor([0, 1]),); alt = (np.array([3, 4]),)
            else:
                idx = (np.array([0, 1]),); alt = (np.array([3, 4]),)
            desc = dict(statement=kind, index=container, then="the caller overwrites the index object before backward()")
            b.count("index object owned by the recorded operation")
            try:
                if kind == "getitem":
                    y = x[idx]
                    L = (y * np.array([10.0, 20.0])).sum() + (x * w).sum()
                    exp_x = w.copy(); exp_x[[0, 1]] += np.array([10.0, 20.0])
                    exp_y = None
                else:
                    yv = mg.tensor(np.array([7.0, 8.0]))
                    tgt = x[...] if kind == "setitem-view" else x
                    tgt[idx] = yv
                    L = (x * w).sum()
                    exp_x = w.copy(); exp_x[[0, 1]] = 0.0
                    exp_y = w[[0, 1]]
                # the caller re-uses its index object for something else
                if container in ("int-array", "bool-array", "int-tensor", "bool-tensor"):
                    idx[...] = alt  # (for a tensor: an in-place update of a constant index tensor)
                elif container == "list":
                    idx[:] = alt
                else:
                    idx[0][...] = alt[0]
                L.backward()
            except Exception as e:
                b.fail(f"{prop}.bounded.index_object_aliased", desc, f"{type(e).__name__}: {e}")
                continue
            ok = x0.grad is not None and np.allclose(x0.grad, exp_x) and (exp_y is None or (yv.grad is not None and np.allclose(yv.grad, exp_y)))
            if not ok:
                b.fail(f"{prop}.bounded.index_object_aliased", desc, f"x.grad = {None if x0.grad is None else x0.grad.tolist()}, expected {exp_x.tolist()}" + ("" if exp_y is None else f"; y.grad = {None if yv.grad is None else yv.grad.tolist()}, expected {exp_y.tolist()}"))
            b.case(desc)


def check_detached_twin(b, rng, prop):
    """A variable x and a DETACHED constant twin of it that wraps the very same array object (mg.astensor(x, constant=True),
    mg.tensor(x, constant=True, copy=False), Tensor(x.data, constant=True, copy=False)) fed to one operation: the twin is a constant like any
    other -- the gradients equal those of the same call with an independent constant copy of the values, in either operand order."""
    twins = [("astensor(x, constant=True)", lambda x: mg.astensor(x, constant=True)), ("tensor(x, constant=True, copy=False)", lambda x: mg.tensor(x, constant=True, copy=False)),
             ("Tensor(x.data, constant=True, copy=False)", lambda x: mg.Tensor(x.data, constant=True, copy=False))]
    ops = [
        ("einsum i,i->", lambda p, q: mg.einsum("i,i->", p, q)), ("einsum i,i->i", lambda p, q: mg.einsum("i,i->i", p, q)), ("einsum i,j->ij", lambda p, q: mg.einsum("i,j->ij", p, q)),
        ("einsum i,i,i->", lambda p, q: mg.einsum("i,i,i->", p, q, p)), ("multiply", lambda p, q: p * q), ("matmul", lambda p, q: mg.matmul(p, q)), ("add", lambda p, q: p + q), ("maximum", lambda p, q: mg.maximum(p, q * 0.5)),
        ("stack", lambda p, q: mg.stack((p, q))), ("concatenate", lambda p, q: mg.concatenate((p, q))), ("where", lambda p, q: mg.where(np.array([True, False, True]), p, q)), ("power", lambda p, q: p ** q),
    ]
    for tn, tf in twins:
        for on, of in ops:
            for order in ("x first", "twin first"):
                xv = rng.uniform(1, 2, size=(3,))
                w = np.array([1.0, 10.0, 100.0])
                desc = dict(family="variable and its detached constant twin sharing one array", twin=tn, op=on, order=order)
                b.count("detached twin behaves like an independent constant")
                grads = []
                try:
                    for shared in (True, False):
                        x = mg.tensor(xv.copy())
                        c = tf(x) if shared else mg.tensor(xv.copy(), constant=True)
                        out = of(x, c) if order == "x first" else of(c, x)
                        (out * (w if out.ndim == 1 and out.shape == (3,) else 1.0)).sum().backward()
                        grads.append(None if x.grad is None else x.grad.copy())
                except Exception as e:
                    b.fail(f"{prop}.bounded.detached_twin", desc, f"{type(e).__name__}: {e}")
                    continue
                if (grads[0] is None) != (grads[1] is None) or (grads[0] is not None and not np.allclose(grads[0], grads[1], rtol=1e-12, atol=0)):
                    b.fail(f"{prop}.bounded.detached_twin", desc, f"x.grad = {None if grads[0] is None else grads[0].tolist()} with the twin, {None if grads[1] is None else grads[1].tolist()} with an independent constant of the same values")
                b.case(desc)


def check_argument_ownership(b, rng, prop):
    """Mutable ARGUMENT objects (axes lists, stride / padding / dilation arrays, repeats, shifts, shapes) belong to the recorded computation:
    if the caller overwrites them after the forward pass, backward() still differentiates what was computed."""
    import mygrad.nnet as nn

    x3 = rng.uniform(1, 2, size=(2, 3, 4))
    x4 = rng.uniform(1, 2, size=(1, 1, 6, 6))
    w4 = rng.uniform(1, 2, size=(1, 1, 2, 2))
    cases = [
        ("transpose[axes list]", lambda t, a: mg.transpose(t, a), x3, [1, 2, 0], [2, 0, 1]),
        ("moveaxis[lists]", lambda t, a: mg.moveaxis(t, a, [2, 0]), x3, [0, 1], [1, 0]),
        ("reshape[shape list]", lambda t, a: mg.reshape(t, a), x3, [6, 4], [4, 6]),
        ("repeat[repeats array]", lambda t, a: mg.repeat(t, a, axis=0), x3, np.array([1, 2]), np.array([2, 1])),
        ("roll[shift array]", lambda t, a: mg.roll(t, a, axis=(0, 1)), x3, np.array([1, 2]), np.array([0, 1])),
        ("sum[axis list->tuple]", lambda t, a: mg.sum(t, axis=tuple(a)), x3, [0, 1], [1, 2]),
        ("conv_nd[stride array]", lambda t, a: nn.conv_nd(t, w4, stride=a), x4, np.array([2, 2]), np.array([1, 1])),
        ("conv_nd[dilation array]", lambda t, a: nn.conv_nd(t, w4, stride=1, dilation=a), x4, np.array([2, 2]), np.array([1, 1])),
        ("conv_nd[padding array]", lambda t, a: nn.conv_nd(t, w4, stride=2, padding=a), x4, np.array([1, 1]), np.array([0, 0])),
        ("max_pool[stride array]", lambda t, a: nn.max_pool(t, (2, 2), a), x4, np.array([2, 2]), np.array([1, 1])),
        ("max_pool[pool array]", lambda t, a: nn.max_pool(t, a, (2, 2)), x4, np.array([2, 2]), np.array([1, 1])),
        ("einsum[in a view: replayed args]", lambda t, a: mg.transpose(t, a)[0], x3, [2, 0, 1], [1, 0, 2]),
    ]
    for nm, call, xv, arg, alt in cases:
        desc = dict(family="argument object owned by the recorded operation", call=nm, then="the caller overwrites the argument object before backward()")
        b.count("argument object owned by the recorded operation")
        grads = []
        try:
            for overwrite in (False, True):
                t = mg.tensor(xv.copy())
                a = arg.copy() if isinstance(arg, np.ndarray) else list(arg)
                out = call(t, a)
                W = np.arange(1.0, out.size + 1).reshape(out.shape)
                L = (out * W).sum()
                if overwrite:
                    a[:] = alt
                L.backward()
                grads.append((t.grad.copy(), None if out.grad is None else out.grad.shape, out.shape))
        except Exception as e:
            b.fail(f"{prop}.bounded.argument_object_aliased", desc, f"{type(e).__name__}: {e}")
            continue
        if not np.array_equal(grads[0][0], grads[1][0]):
            b.fail(f"{prop}.bounded.argument_object_aliased", desc, "the gradient differs when the caller overwrites the argument object after the forward pass")
        elif grads[1][1] is not None and grads[1][1] != grads[1][2]:
            b.fail(f"{prop}.bounded.argument_object_aliased", desc, f"the result's gradient has shape {grads[1][1]}, the result {grads[1][2]}")
        b.case(desc)


def check_mask_ownership(b, rng, prop):
    """where= masks and the condition of mg.where belong to the recorded computation as well."""
    w = np.array([1.0, 10.0, 100.0])
    for kind in ("ufunc-where-binary", "ufunc-where-unary", "mg.where", "sum-where" if False else "ufunc-where-inplace"):
        x = mg.tensor(rng.uniform(1, 2, size=(3,)))
        y = mg.tensor(rng.uniform(1, 2, size=(3,)))
        m = np.array([True, False, True])
        desc = dict(statement=kind, then="the caller overwrites the mask / condition array before backward()")
        b.count("mask object owned by the recorded operation")
        try:
            if kind == "ufunc-where-binary":
                z = mg.multiply(x, y, where=m, out=np.zeros(3))
                ex, ey = w * y.data * m, w * x.data * m
            elif kind == "ufunc-where-unary":
                z = mg.exp(x, where=m, out=np.zeros(3))
                ex, ey = w * np.exp(x.data) * m, None
            elif kind == "mg.where":
                z = mg.where(m, x, y)
                ex, ey = w * m, w * ~m
            else:
                t = y * 1.0
                mg.multiply(t, x, where=m, out=t)
                z = t
                ex, ey = w * y.data * m, np.where(m, w * x.data, w)
            m[...] = [False, True, False]
            (z * w).sum().backward()
        except Exception as e:
            b.fail(f"{prop}.bounded.mask_object_aliased", desc, f"{type(e).__name__}: {e}")
            continue
        ok = x.grad is not None and np.allclose(x.grad, ex) and (ey is None or (y.grad is not None and np.allclose(y.grad, ey)))
        if not ok:
            b.fail(f"{prop}.bounded.mask_object_aliased", desc, f"x.grad = {None if x.grad is None else x.grad.tolist()}, expected {np.asarray(ex).tolist()}" + ("" if ey is None else f"; y.grad = {None if y.grad is None else y.grad.tolist()}, expected {np.asarray(ey).tolist()}"))
        b.case(desc)


def check_c05_integer_array_setitem(b, rng, tier):
    """x[int_array] = y with repeated and distinct indices, for every integer index dtype, directly and through a view, on small tensors and
    on tensors large enough for float16/float32 to run out of exact integers: the written elements pass no gradient to the old contents,
    of repeated writes only the last one passes gradient to its value, every other written value gets its full gradient."""
    cases = []
    for idt in (np.int64, np.int32, np.int16, np.uint8, np.intp, np.uint64):
        cases.append(("small-repeated", (6,), np.float64, np.array([0, 0, 3, 5, 3], dtype=idt)))
        cases.append(("small-distinct", (6,), np.float64, np.array([4, 1, 0], dtype=idt)))
    for fdt, n in ((np.float16, 4200), (np.float32, 4200), (np.float16, 70000)):
        cases.append(("large-distinct-neighbours", (n,), fdt, np.array([2048, 2049, 4095, 4097, 10], dtype=np.int64)))
        cases.append(("large-repeated", (n,), fdt, np.array([2049, 2049, 4097, 10, 4097], dtype=np.int64)))
    cases.append(("2d-large", (64, 70), np.float16, (np.array([40, 40, 63]), np.array([0, 1, 69]))))
    for name, shape, fdt, idx in cases:
        for through_view in (False, True):
            xv = rng.uniform(1, 2, size=shape).astype(fdt)
            nidx = len(idx[0]) if isinstance(idx, tuple) else len(idx)
            yv = rng.uniform(1, 2, size=(nidx,)).astype(fdt)
            x0 = mg.tensor(xv.copy())
            y = mg.tensor(yv.copy())
            x = x0 * 1.0
            tgt = x[...] if through_view else x
            desc = dict(setitem=name, x_dtype=np.dtype(fdt).name, index_dtype=str(idx[0].dtype if isinstance(idx, tuple) else idx.dtype), through_view=through_view)
            b.count("integer-array setitem")
            try:
                tgt[idx] = y
                (x * 1.0).sum().backward()
            except Exception as e:
                b.fail("C05.bounded.raises", desc, f"{type(e).__name__}: {e}")
                continue
            ref = xv.copy()
            ref[idx] = yv
            # expected gradients: which y-entry survives at each written position (NumPy: the last write wins)
            flat = np.ravel_multi_index(idx, shape) if isinstance(idx, tuple) else np.asarray(idx, dtype=np.int64)
            last = {}
            for k, pos in enumerate(flat.tolist()):
                last[pos] = k
            ey = np.zeros(nidx)
            for pos, k in last.items():
                ey[k] = 1.0
            ex = np.ones(int(np.prod(shape)))
            ex[list(last)] = 0.0
            ok = np.array_equal(x.data, ref) and y.grad is not None and np.array_equal(np.asarray(y.grad, dtype=float), ey) and x0.grad is not None and np.array_equal(np.asarray(x0.grad, dtype=float).ravel(), ex)
            if not ok:
                b.fail("C05.bounded.setitem_integer_array", desc, f"y.grad = {None if y.grad is None else np.asarray(y.grad, dtype=float).tolist()}, expected {ey.tolist()}; old contents' gradient correct: {x0.grad is not None and bool(np.array_equal(np.asarray(x0.grad, dtype=float).ravel(), ex))}; values equal NumPy: {bool(np.array_equal(x.data, ref))}")
            b.case(desc)


def check_c05_mutated_current_value(b, rng, tier):
    """For a tensor that was itself mutated, .grad is the derivative w.r.t. its current (post-mutation) value."""
    cases = []

    def c1(xp, a, b_, delta):
        x = a * 1.0
        x[1:3] = b_
        x = x + delta if xp is np else x  # numpy twin: perturb the *post-mutation* value
        return x, xp.sum(x * x * 2.0)

    def c2(xp, a, b_, delta):
        x = a * 1.0
        v = x[::2]
        v *= b_
        x = x + delta if xp is np else x
        return x, xp.sum(xp.exp(x))

    def c3(xp, a, b_, delta):
        x = a * 1.0
        xp.multiply(x, b_, out=x, where=np.array([True, False, True, True]))
        x = x + delta if xp is np else x
        return x, xp.sum(x * x * x)

    for nm, fn, shapes in (("setitem", c1, [(4,), (2,)]), ("view-imul", c2, [(4,), (2,)]), ("out-where", c3, [(4,), (4,)])):
        for d in range(2 if tier == "quick" else 5):
            vals = leaves(rng, shapes)
            ts = [mg.tensor(v.copy()) for v in vals]
            x, L = fn(mg, *ts, None)
            L.backward()
            got = x.grad
            h = 1e-3
            exp = np.zeros(4)
            for i in range(4):
                def ev(dl):
                    delta = np.zeros(4)
                    delta[i] = dl
                    _x, Lv = fn(np, *[v.copy() for v in vals], delta)
                    return float(Lv)
                exp[i], _ok = robust_central(ev, h)
            desc = dict(program=f"mutated-current-value/{nm}", draw=d)
            b.count("mutated.grad == d L / d (post-mutation value)")
            b.case(desc)
            if got is None or not close(got, exp, rtol=1e-5, atol=1e-6):
                b.fail("C05.bounded.mutated_tensor_grad", dict(desc, values=[v.tolist() for v in vals]), f"got {None if got is None else got.tolist()} expected {exp.tolist()}")


# ------------------------------------------------------------------------------------------------------------
def owner_name(np_out, name):
    q = np_out[name]
    if not isinstance(q, np.ndarray):
        return None
    for r, arr in np_out.items():
        if isinstance(arr, np.ndarray) and arr.base is None and arr.size and np.shares_memory(q, arr):
            return r
    return None


def check_c04(tier, seed):
    rng = np.random.default_rng(seed)
    progs = select()
    b = Bounded(
        "C04.step",
        bound=f"{len(progs)} catalogue programs x {2 if tier=='quick' else 4} draws; every exposed tensor; all pairs for memory sharing; plus enumerated histories (see C04.histories)",
        rule="case = (program, draw); non-trivial = program exposes >= 2 tensors of which one is a view or in-place target",
    )
    for (name, tags, shapes, f) in progs:
        for d in range(2 if tier == "quick" else 4):
            vals = leaves(rng, shapes)
            desc = dict(program=name, draw=d)
            np_out, np_leaves = run_numpy(f, vals)
            try:
                out, ts = mg_run(f, vals)
            except Exception as e:
                b.fail("C04.step.raises", desc, f"{type(e).__name__}: {e}")
                continue
            names = [k for k in out if isinstance(out[k], Tensor)]
            for k in names:
                b.count("value == numpy")
                if not (np.shape(out[k].data) == np.shape(np_out[k]) and np.allclose(out[k].data, np_out[k], rtol=1e-12, atol=0, equal_nan=True)):
                    b.fail("C04.step.value", dict(desc, tensor=k), f"tensor {k}: {out[k].data.tolist()} != numpy {np.asarray(np_out[k]).tolist()}")
            arr_names = [k for k in names if isinstance(np_out[k], np.ndarray) and np_out[k].ndim > 0 and k != "L"]
            for p, q in itertools.combinations(arr_names, 2):
                b.count("shares_memory == numpy")
                if np.shares_memory(out[p].data, out[q].data) != np.shares_memory(np_out[p], np_out[q]):
                    b.fail("C04.step.sharing", dict(desc, pair=[p, q]), f"shares_memory({p},{q}) = {np.shares_memory(out[p].data, out[q].data)} but NumPy gives {np.shares_memory(np_out[p], np_out[q])}")
            for k in arr_names:
                b.count("base == owner")
                t = out[k]
                if t.base is not None:
                    if t.base.base is not None or not np.shares_memory(t.data, t.base.data):
                        b.fail("C04.step.base", dict(desc, tensor=k), "base does not own the memory of its view")
                    o = owner_name(np_out, k)
                    if o is not None and o in out and out[o] is not t.base and o != k:
                        b.fail("C04.step.base", dict(desc, tensor=k), f".base is not the exposed owner {o}")
                else:
                    o = owner_name(np_out, k)
                    if o is not None and o != k and o in arr_names:
                        b.fail("C04.step.base", dict(desc, tensor=k), f".base is None but NumPy twin is a view of {o}")
            for i, t in enumerate(ts):
                if t.constant:
                    b.fail("C04.step.constant_flag", dict(desc, leaf=i), "leaf flag flipped")
            for k in names:
                if out[k].constant:
                    b.fail("C04.step.constant_flag", dict(desc, tensor=k), "non-constant tensor became constant across an update")
            b.case(desc, nontrivial=len(arr_names) >= 2)
    return b


def check_c04_histories(tier, seed):
    """Enumerated histories of view creators / mutators over one family; oracle = NumPy."""
    rng = np.random.default_rng(seed)
    depth = 3 if tier == "quick" else 4
    b = Bounded(
        "C04.histories",
        bound=f"all histories of length <= {depth} over 7 view creators x 7 mutators on any member of a family rooted at a (3,4) tensor (family capped at 5 members), within one epoch",
        rule="case = the statement list; non-trivial = contains at least one view creation and one in-place update",
    )
    creators = [
        ("[1:]", lambda t: t[1:] if t.shape and t.shape[0] > 1 else None),
        ("[::-1]", lambda t: t[::-1] if t.ndim else None),
        ("[...,::2]", lambda t: t[..., ::2] if t.ndim else None),
        (".T", lambda t: t.T if t.ndim >= 2 else None),
        (".reshape(-1)", lambda t: t.reshape(-1)),
        ("[None]", lambda t: t[None] if t.ndim < 3 else None),
        ("[0]", lambda t: t[0] if t.ndim >= 2 else None),
    ]
    mutators = [
        ("[...]=c", lambda t, c: t.__setitem__(Ellipsis, c)),
        ("[0]=c", lambda t, c: t.__setitem__(0, c) if t.ndim and t.shape[0] else None),
        ("*=c", lambda t, c: t.__imul__(c)),
        ("+=self", lambda t, c: t.__iadd__(t)),
        ("[::2]=c", lambda t, c: t.__setitem__(slice(None, None, 2), c) if t.ndim else None),
        ("[bool]=c", lambda t, c: t.__setitem__(np.asarray(t) > 0, c) if t.ndim else None),
        ("[-1:]*=c", None),
    ]

    def m_last(t, c):
        if not t.ndim:
            return None
        v = t[-1:]
        v *= c
        return True

    mutators[-1] = ("[-1:]*=c", m_last)
    steps = [("view", i, j) for i in range(5) for j in range(len(creators))] + [("mut", i, j) for i in range(5) for j in range(len(mutators))]
    base_vals = rng.uniform(-2, 2, size=(3, 4))

    root_layout = {"v": "C"}

    def run_hist(hist, use_mg):
        root = base_vals.copy() if root_layout["v"][0] == "C" else np.asfortranarray(base_vals)
        # the owner is a non-leaf tensor produced by an op that keeps its operand's memory layout (K-order) -- or, in the "+grad" variants,
        # a leaf that still holds the gradient of an earlier backward pass when the history starts (a training loop that updates slices)
        if root_layout["v"].endswith("+grad"):
            fam = [mg.tensor(root.copy()) if use_mg else root.copy()]
            if use_mg:
                (fam[0] * fam[0]).sum().backward()
        else:
            fam = [mg.tensor(root, copy=False) * 1.0 if use_mg else root * 1.0]
        cval = 1.5
        for (kind, i, j) in hist:
            if i >= len(fam):
                return None
            if kind == "view":
                if len(fam) >= 5:
                    return None
                v = creators[j][1](fam[i])
                if v is None:
                    return None
                fam.append(v)
            else:
                r = mutators[j][1](fam[i], cval)
                if r is None and mutators[j][0] in ("[0]=c", "[::2]=c", "[bool]=c", "[-1:]*=c") and not (fam[i].ndim and fam[i].shape[0]):
                    return None
                cval += 0.25
        return fam

    count = 0
    for layout in ("C", "F", "C+grad"):
        root_layout["v"] = layout
        for L in range(1, depth + 1):
            for hist in itertools.product(steps, repeat=L):
                # canonical: indices refer to existing members only; at least one view and one mutation for L>=2
                nviews = 0
                ok = True
                for (kind, i, j) in hist:
                    if i > nviews:
                        ok = False
                        break
                    if kind == "view":
                        nviews += 1
                if not ok:
                    continue
                kinds = {k for k, _, _ in hist}
                if L >= 2 and kinds != {"view", "mut"}:
                    continue
                if tier == "quick" and L == depth and (zlib.crc32(repr(hist).encode()) % 7):
                    continue  # deterministic sample
                try:
                    ref = run_hist(hist, False)
                except Exception:
                    continue  # NumPy itself rejects the statement: not a history of the domain
                if ref is None:
                    continue
                desc = [f"root:{layout}"] + [f"{k}:{i}:{(creators if k=='view' else mutators)[j][0]}" for (k, i, j) in hist]
                try:
                    got = run_hist(hist, True)
                except Exception as e:
                    b.fail("C04.histories.raises", dict(history=desc), f"MyGrad raises {type(e).__name__}: {e} where NumPy accepts")
                    b.case(desc, nontrivial=kinds == {"view", "mut"})
                    continue
                count += 1
                b.count("family mirror")
                bad = None
                for n_, (t, r) in enumerate(zip(got, ref)):
                    if t.shape != r.shape or not np.array_equal(t.data, r):
                        bad = f"member {n_} value {t.data.tolist()} != numpy {r.tolist()}"
                        break
                    if n_ > 0:
                        shares = bool(r.size) and np.shares_memory(r, ref[0])
                        if shares and t.base is not got[0]:
                            bad = f"member {n_}.base is not the family owner"
                            break
                        if not shares and r.size and t.base is not None and not np.shares_memory(t.data, t.base.data):
                            bad = f"member {n_} does not share memory with its .base"
                            break
                if bad is None and got[0].base is not None:
                    bad = "owner has a base"
                if bad is None:
                    for p, q in itertools.combinations(range(len(got)), 2):
                        if np.shares_memory(got[p].data, got[q].data) != np.shares_memory(ref[p], ref[q]):
                            bad = f"shares_memory({p},{q}) differs from NumPy"
                            break
                if bad:
                    b.fail("C04.histories.mirror", dict(history=desc), bad)
                b.case(desc, nontrivial=kinds == {"view", "mut"})

    # ---- `.shape = ...` on any member of a chain  owner -> view -> view of view, followed by an in-place update of any member --------
    def shapes_for(t):
        if t.size == 0:
            return []
        out_ = [(t.size,), (1,) + tuple(t.shape)]
        if t.ndim == 2:
            out_.append((t.shape[1], t.shape[0]))
        return out_

    def run_shape(c1, c2, target, k_shape, m_idx, member, use_mg, layout):
        root = base_vals.copy() if layout == "C" else np.asfortranarray(base_vals)
        fam = [mg.tensor(root, copy=False) * 1.0 if use_mg else root * 1.0]
        for c in (c1, c2):
            if c is None:
                continue
            v = creators[c][1](fam[-1])
            if v is None:
                return None
            fam.append(v)
        if target >= len(fam) or member >= len(fam):
            return None
        opts = shapes_for(fam[target])
        if k_shape >= len(opts):
            return None
        fam[target].shape = opts[k_shape]
        r = mutators[m_idx][1](fam[member], 1.75)
        if r is None and mutators[m_idx][0] in ("[0]=c", "[::2]=c", "[bool]=c", "[-1:]*=c") and not (fam[member].ndim and fam[member].shape[0]):
            return None
        return fam

    for layout in ("C", "F"):
        for c1 in range(len(creators)):
            for c2 in [None] + list(range(len(creators))):
                for target in (0, 1, 2):
                    for k_shape in range(3):
                        for m_idx in range(len(mutators)):
                            for member in (0, 1, 2):
                                if tier == "quick" and (zlib.crc32(repr((layout, c1, c2, target, k_shape, m_idx, member)).encode()) % 3):
                                    continue
                                try:
                                    ref = run_shape(c1, c2, target, k_shape, m_idx, member, False, layout)
                                except Exception:
                                    continue  # NumPy refuses the in-place reshape (or the statement): outside the domain
                                if ref is None:
                                    continue
                                desc = [f"root:{layout}", f"view:{creators[c1][0]}"] + ([] if c2 is None else [f"view:{creators[c2][0]}"]) + [f"member{target}.shape={shapes_for(ref[target]) and tuple(ref[target].shape)}", f"mut:{member}:{mutators[m_idx][0]}"]
                                try:
                                    got = run_shape(c1, c2, target, k_shape, m_idx, member, True, layout)
                                except Exception as e:
                                    b.fail("C04.histories.shape_raises", dict(history=desc), f"MyGrad raises {type(e).__name__}: {e} where NumPy accepts")
                                    b.case(desc)
                                    continue
                                b.count("shape assignment then in-place update: family mirror")
                                bad = None
                                for n_, (t, r) in enumerate(zip(got, ref)):
                                    if t.shape != r.shape or not np.array_equal(t.data, r):
                                        bad = f"member {n_} value {t.data.tolist()} != numpy {r.tolist()}"
                                        break
                                    if n_ > 0 and r.size and np.shares_memory(r, ref[0]) and t.base is not got[0]:
                                        bad = f"member {n_}.base is not the family owner"
                                        break
                                if bad is None:
                                    for p_, q_ in itertools.combinations(range(len(got)), 2):
                                        if np.shares_memory(got[p_].data, got[q_].data) != np.shares_memory(ref[p_], ref[q_]):
                                            bad = f"shares_memory({p_},{q_}) differs from NumPy"
                                            break
                                if bad:
                                    b.fail("C04.histories.shape_mirror", dict(history=desc), bad)
                                b.case(desc)

    # ---- owners whose memory is AXIS-PERMUTED (neither C- nor Fortran-ordered: x = swapaxes(a, 0, 1) * 2 for a 3-d a), views that are views only
    # because of that layout (swap back, then reshape), and an in-place update of any member: the family mirrors NumPy before and after
    def permuted_family(xp, a3):
        bb = (xp.swapaxes(a3, 0, 1) * 2.0) if xp is np else mg.swapaxes(mg.tensor(a3), 0, 1) * 2.0
        s_ = bb.swapaxes(0, 1)
        r_ = s_.reshape(6, 4)
        n_ = r_[:, None, ::2]
        t_ = bb.transpose(2, 0, 1)
        return [bb, s_, r_, n_, t_]

    pupdates = [("r[0] = row", lambda fam: fam[2].__setitem__(0, np.arange(4.0))), ("r += 1", lambda fam: fam[2].__iadd__(1.0)), ("n[...] = c", lambda fam: fam[3].__setitem__(Ellipsis, 0.5)),
                ("b *= 2", lambda fam: fam[0].__imul__(2.0)), ("s *= 2", lambda fam: fam[1].__imul__(2.0)), ("t[0] = c", lambda fam: fam[4].__setitem__(0, 7.0)), ("b[0, 1] = row", lambda fam: fam[0].__setitem__((0, 1), np.arange(4.0)))]
    for u1, f1 in pupdates:
        for u2, f2 in [("-", None)] + pupdates[:4]:
            a3 = rng.uniform(-2, 2, size=(2, 3, 4))
            desc = dict(family="axis-permuted 3-d owner", updates=[u1, u2])
            try:
                ref = permuted_family(np, a3.copy())
                f1(ref)
                if f2:
                    f2(ref)
            except Exception:
                continue
            b.count("family mirror")
            try:
                got = permuted_family(mg, a3.copy())
                f1(got)
                if f2:
                    f2(got)
            except Exception as e:
                b.fail("C04.histories.raises", desc, f"MyGrad raises {type(e).__name__}: {e} where NumPy accepts")
                b.case(desc)
                continue
            bad = None
            for n_i, (t, r) in enumerate(zip(got, ref)):
                if t.shape != r.shape or not np.array_equal(t.data, r):
                    bad = f"member {n_i} holds {t.data.ravel()[:6].tolist()}..., NumPy's {r.ravel()[:6].tolist()}..."
                    break
                if n_i > 0 and np.shares_memory(r, ref[0]) and t.base is not got[0]:
                    bad = f"member {n_i}.base is not the family owner"
                    break
            if bad is None:
                for p_, q_ in itertools.combinations(range(len(got)), 2):
                    if np.shares_memory(got[p_].data, got[q_].data) != np.shares_memory(ref[p_], ref[q_]):
                        bad = f"shares_memory({p_},{q_}) differs from NumPy"
                        break
            if bad:
                b.fail("C04.histories.mirror", desc, bad)
            b.case(desc)

    # ---- which results are views: every shape-manipulation routine x every source layout, in the function / method / NumPy-on-tensor spelling -----
    # source = a slicing pattern of a (3,4) owner of either memory order; result = routine(source).  Mirror on NumPy: the result shares memory
    # with the owner exactly when NumPy's does, `.base` is the owner then and None otherwise; after an in-place update of the owner, and after one
    # of the result, owner / source / result hold NumPy's values.
    sources = [
        ("x", lambda x: x), ("x[0, ::2]", lambda x: x[0, ::2]), ("x[1, ::-1]", lambda x: x[1, ::-1]), ("x[:, 1:2]", lambda x: x[:, 1:2]), ("x[::2]", lambda x: x[::2]), ("x.T", lambda x: x.T),
        ("x[::-1]", lambda x: x[::-1]), ("x[:, ::-1]", lambda x: x[:, ::-1]), ("x[1:]", lambda x: x[1:]), ("x[None]", lambda x: x[None]), ("x[1]", lambda x: x[1]), ("x[:, 0]", lambda x: x[:, 0]),
        ("x[:, ::3]", lambda x: x[:, ::3]), ("x.T[1:3]", lambda x: x.T[1:3]),
    ]
    routines = [
        ("ravel", lambda xp, t: xp.ravel(t)), ("ravel()", lambda xp, t: t.ravel()), ("flatten()", lambda xp, t: t.flatten()), ("reshape(-1)", lambda xp, t: t.reshape(-1)), ("reshape(t,-1)", lambda xp, t: xp.reshape(t, -1)),
        ("reshape(1,-1)", lambda xp, t: t.reshape(1, -1)), ("reshape(-1,1)", lambda xp, t: t.reshape(-1, 1)), ("squeeze", lambda xp, t: xp.squeeze(t)), ("squeeze()", lambda xp, t: t.squeeze()),
        ("expand_dims0", lambda xp, t: xp.expand_dims(t, 0)), ("expand_dims-1", lambda xp, t: xp.expand_dims(t, -1)), ("T", lambda xp, t: t.T), ("transpose", lambda xp, t: xp.transpose(t)), ("transpose()", lambda xp, t: t.transpose()),
        ("swapaxes", lambda xp, t: xp.swapaxes(t, 0, -1)), ("moveaxis", lambda xp, t: xp.moveaxis(t, 0, -1)), ("[...]", lambda xp, t: t[...]), ("[::-1]", lambda xp, t: t[::-1]), ("[[0]]", lambda xp, t: t[[0]]),
        ("[t>0]", lambda xp, t: t[np.asarray(t) > 0]), ("atleast_2d", lambda xp, t: xp.atleast_2d(t)), ("broadcast_to", lambda xp, t: xp.broadcast_to(t, (2,) + tuple(t.shape))), ("roll", lambda xp, t: xp.roll(t, 1)),
        ("repeat", lambda xp, t: xp.repeat(t, 1)), ("copy()", lambda xp, t: t.copy()), ("astype", lambda xp, t: t.astype(t.dtype)), ("+0", lambda xp, t: t + 0),
    ]
    vals = rng.uniform(-2, 2, size=(3, 4))
    for layout in ("C", "F"):
        for sn, sf in sources:
            for rn, rf in routines:
                for spelling in ("mg", "np-on-tensor"):
                    root = vals.copy() if layout == "C" else np.asfortranarray(vals)
                    xr = root * 1.0
                    xt = mg.tensor(root, copy=False) * 1.0
                    desc = dict(owner_order=layout, source=sn, routine=rn, spelling=spelling)
                    try:
                        rr = rf(np, sf(xr))
                    except Exception:
                        continue  # NumPy rejects: outside the domain
                    if spelling == "np-on-tensor" and (rn.endswith("()") or rn in ("T", "[...]", "[::-1]", "[[0]]", "[t>0]", "astype", "+0", "reshape(-1)", "reshape(1,-1)", "reshape(-1,1)")):
                        continue  # method / operator spellings are the same call in both
                    try:
                        st = sf(xt)
                        rt = rf(mg if spelling == "mg" else np, st)
                    except Exception as e:
                        b.fail("C04.viewness.raises", desc, f"{type(e).__name__}: {e}")
                        continue
                    if not isinstance(rt, Tensor):
                        continue  # a NumPy function mygrad does not override returns an array: not a tensor routine
                    b.count("view-ness of a shape routine")
                    bad = None
                    rr_shares = bool(rr.size) and np.shares_memory(rr, xr)
                    if rt.shape != rr.shape or not np.array_equal(rt.data, rr):
                        bad = f"value/shape differs: {rt.data.tolist()} vs numpy {rr.tolist()}"
                    elif bool(rt.size) and np.shares_memory(rt.data, xt.data) != rr_shares:
                        bad = f"shares memory with the owner: {np.shares_memory(rt.data, xt.data)}, NumPy: {rr_shares}"
                    elif rt is xt or rt is st:
                        pass  # the routine handed back its argument itself (NumPy does the same for some no-ops): nothing new to relate
                    elif rr_shares and rt.base is not xt:
                        bad = f".base is {'None' if rt.base is None else 'another tensor'} although the result shares the owner's memory"
                    elif not rr_shares and rr.size and rt.base is not None:
                        bad = ".base is set although the result owns its memory"
                    if bad is None:
                        xr[0] *= 3.0
                        xt[0] *= 3.0
                        if not np.array_equal(rt.data, rr) or not np.array_equal(st.data, sf(xr)):
                            bad = f"after an in-place update of the owner the result holds {rt.data.tolist()}, NumPy's {rr.tolist()}"
                    if bad is None and rr.size and rr.flags.writeable:
                        try:
                            rr[...] = rr * 0.5 + 1.0
                            rt[...] = rt * 0.5 + 1.0
                        except Exception as e:
                            bad = f"in-place update of the result raises {type(e).__name__}: {e}"
                        if bad is None and (not np.array_equal(xt.data, xr) or not np.array_equal(rt.data, rr)):
                            bad = f"after an in-place update of the result the owner holds {xt.data.tolist()}, NumPy's {xr.tolist()}"
                    if bad:
                        b.fail("C04.viewness.mirror", desc, bad)
                    b.case(desc)
    return b


# ------------------------------------------------------------------------------------------------------------
def check_c06(tier, seed):
    rng = np.random.default_rng(seed)
    b = Bounded(
        "C06.bounded",
        bound="all view chains of length <= %d over 8 view ops x which member (base or a view) is consumed first x C/F-ordered base data" % (2 if tier == "quick" else 3),
        rule="case = (chain, order of base data, which member contributes first); non-trivial = chain length >= 1 and base.grad is not None",
    )
    ops = [
        ("[1:]", lambda t: t[1:]),
        ("[::-1]", lambda t: t[::-1]),
        ("[:,None]", lambda t: t[:, None] if t.ndim >= 1 else None),
        (".reshape(-1)", lambda t: t.reshape(-1)),
        (".T", lambda t: t.T),
        ("transpose", lambda t: mg.transpose(t) if isinstance(t, Tensor) else np.transpose(t)),
        ("swapaxes(0,-1)", lambda t: (mg.swapaxes(t, 0, -1) if isinstance(t, Tensor) else np.swapaxes(t, 0, -1)) if t.ndim >= 2 else None),
        ("diag", lambda t: (mg.einsum("ii->i", t) if isinstance(t, Tensor) else np.einsum("ii->i", t)) if t.ndim == 2 and t.shape[0] == t.shape[1] else None),
    ]
    maxlen = 2 if tier == "quick" else 3
    for order in ("C", "F"):
        for L in range(1, maxlen + 1):
            for chain in itertools.product(range(len(ops)), repeat=L):
                for first in range(L + 1):  # which member receives / contributes gradient first
                    base_arr = np.asarray(rng.uniform(-1, 1, size=(3, 3)), order=order)
                    base = mg.tensor(base_arr, copy=False)
                    if order == "F" and not base.data.flags.f_contiguous:
                        continue
                    fam = [base]
                    ok = True
                    for j in chain:
                        try:
                            v = ops[j][1](fam[-1])
                        except Exception:
                            ok = False
                            break
                        if v is None or not np.shares_memory(v.data, base.data):
                            ok = False
                            break
                        fam.append(v)
                    if not ok:
                        continue
                    desc = dict(chain=[ops[j][0] for j in chain], order=order, first=first)
                    coef = [rng.uniform(0.5, 2.0) for _ in fam]
                    # the member `first` is consumed by the op that is back-propagated last in creation order;
                    # put it first in the sum so that its contribution reaches the base first/last deterministically
                    idxs = [first] + [i for i in range(len(fam)) if i != first]
                    terms = [(fam[i] * coef[i]).sum() for i in idxs]
                    Lt = terms[0]
                    for tm in terms[1:]:
                        Lt = Lt + tm
                    try:
                        Lt.backward()
                    except Exception as e:
                        b.fail("C06.bounded.raises", desc, f"{type(e).__name__}: {e}")
                        continue
                    bg = base.grad
                    b.count("view.grad is the view of base.grad")
                    if bg is None:
                        b.fail("C06.bounded.base_grad_missing", desc, "base.grad is None")
                        continue
                    # specification: apply the same chain to base.grad with NumPy
                    ref = bg
                    for n_, j in enumerate(chain):
                        ref = ops[j][1](ref)
                        vg = fam[n_ + 1].grad
                        if vg is None:
                            b.fail("C06.bounded.view_grad_unavailable", dict(desc, member=n_ + 1), "view.grad is None although base.grad is available")
                            break
                        if vg.shape != ref.shape or not np.array_equal(vg, ref):
                            b.fail("C06.bounded.view_grad_value", dict(desc, member=n_ + 1), "view.grad differs from the chain applied to base.grad")
                            break
                        if vg.size and not np.shares_memory(vg, bg):
                            b.fail("C06.bounded.view_grad_not_shared", dict(desc, member=n_ + 1), "view.grad does not share memory with base.grad")
                            break
                    if bg.shape != base.shape or bg.dtype != base.dtype:
                        b.fail("C06.bounded.I1", desc, "base.grad shape/dtype")
                    b.case(desc)
    # views taken *after* backward (view ops do not null gradients): the base's gradient must already have the
    # layout of the base's data, whatever layout its first contribution had
    for order in ("C", "F"):
        for contrib in ("same-layout", "other-layout", "transposed-operand"):
            for L in range(1, maxlen + 1):
                for chain in itertools.product(range(len(ops)), repeat=L):
                    base_arr = np.asarray(rng.uniform(-1, 1, size=(3, 3)), order=order)
                    base = mg.tensor(base_arr, copy=False)
                    cvals = rng.uniform(1, 2, size=(3, 3))
                    if contrib == "same-layout":
                        Lt = (base * 2.0).sum()
                    elif contrib == "other-layout":
                        Lt = (base * np.asarray(cvals, order=("F" if order == "C" else "C"))).sum()
                    else:
                        Lt = (base.T * cvals).sum()
                    Lt.backward()
                    bg = base.grad
                    desc = dict(chain=[ops[j][0] for j in chain], order=order, contribution=contrib, views="taken after backward")
                    if bg is None:
                        b.fail("C06.bounded.base_grad_missing", desc, "base.grad is None")
                        continue
                    v, ref, ok = base, bg, True
                    for j in chain:
                        try:
                            v2 = ops[j][1](v)
                        except Exception:
                            ok = False
                            break
                        if v2 is None or not np.shares_memory(v2.data, base.data):
                            ok = False
                            break
                        v = v2
                        ref = ops[j][1](ref)
                    if not ok:
                        continue
                    b.count("late view.grad is the view of base.grad")
                    vg = v.grad
                    if vg is None:
                        b.fail("C06.bounded.view_grad_unavailable", desc, "view.grad is None although base.grad is available and the view belongs to the same epoch")
                    elif vg.shape != ref.shape or not np.array_equal(vg, ref):
                        b.fail("C06.bounded.view_grad_value", desc, "view.grad differs from the chain applied to base.grad")
                    elif vg.size and not np.shares_memory(vg, base.grad):
                        b.fail("C06.bounded.view_grad_not_shared", desc, "view.grad does not share memory with base.grad")
                    b.case(desc)
    # owners whose memory is neither C- nor Fortran-ordered (an elementwise result of an axis-permuted >= 3-d tensor keeps that K-order)
    # with views that exist only because of that layout; first contribution arriving as a fresh C-ordered array or in the owner's layout
    perms = [(1, 0, 2), (2, 0, 1), (0, 2, 1), (1, 2, 0)]
    for perm in perms:
        for contrib in ("fresh-C", "own-layout", "matmul", "seed-C"):
            for vname, vf in (("T-perm.reshape", lambda t, pm: (mg.transpose(t, np.argsort(pm)) if isinstance(t, Tensor) else np.transpose(t, np.argsort(pm))).reshape(-1)),
                              ("T-perm.reshape2", lambda t, pm: (mg.transpose(t, np.argsort(pm)) if isinstance(t, Tensor) else np.transpose(t, np.argsort(pm))).reshape(t.shape[int(np.argsort(pm)[0])], -1)),
                              ("[1:]", lambda t, pm: t[1:]), ("[...,::-1]", lambda t, pm: t[..., ::-1])):
                x = mg.tensor(rng.uniform(1, 2, size=(2, 3, 4)))
                base = mg.exp(mg.transpose(x, perm) * 0.1)  # owns K-ordered memory
                if base.data.flags.c_contiguous or base.data.flags.f_contiguous:
                    continue
                try:
                    v = vf(base, perm)
                except Exception:
                    continue
                if not np.shares_memory(v.data, base.data):
                    continue
                desc = dict(owner="K-ordered 3-d", perm=list(perm), contribution=contrib, view=vname)
                try:
                    if contrib == "fresh-C":
                        (base * np.ascontiguousarray(rng.uniform(1, 2, size=base.shape))).sum().backward()
                    elif contrib == "own-layout":
                        (base * 2.0).sum().backward()
                    elif contrib == "matmul":
                        mg.matmul(base, rng.uniform(1, 2, size=(base.shape[-1], 2))).sum().backward()
                    else:
                        base.backward(np.ascontiguousarray(rng.uniform(1, 2, size=base.shape)))
                except Exception as e:
                    b.fail("C06.bounded.raises", desc, f"{type(e).__name__}: {e}")
                    continue
                b.count("K-ordered owner: view.grad is the view of base.grad")
                bg, vg = base.grad, v.grad
                ref = vf(bg, perm) if bg is not None else None
                if bg is None or vg is None:
                    b.fail("C06.bounded.view_grad_unavailable", desc, "base.grad or view.grad missing")
                elif vg.shape != ref.shape or not np.array_equal(vg, ref):
                    b.fail("C06.bounded.view_grad_value", desc, "view.grad differs from the view of base.grad")
                elif not np.shares_memory(vg, bg):
                    b.fail("C06.bounded.view_grad_not_shared", desc, f"view.grad does not share memory with base.grad (data strides {base.data.strides}, grad strides {bg.strides})")
                b.case(desc)
    # views that sit in the back-propagated graph but receive no gradient of their own: every consumer of the view is a detached
    # (constant=True) op, the base gets its gradient through another path; the view's gradient must still follow the base's
    for order in ("C", "F"):
        for L in range(1, maxlen + 1):
            for chain in itertools.product(range(len(ops)), repeat=L):
                for n_detached in range(1, L + 1):  # the last n_detached members only feed detached ops
                    base = mg.tensor(np.asarray(rng.uniform(-1, 1, size=(3, 3)), order=order), copy=False)
                    fam, ok = [base], True
                    for j in chain:
                        try:
                            v = ops[j][1](fam[-1])
                        except Exception:
                            ok = False
                            break
                        if v is None or not np.shares_memory(v.data, base.data):
                            ok = False
                            break
                        fam.append(v)
                    if not ok:
                        continue
                    desc = dict(chain=[ops[j][0] for j in chain], order=order, detached_members=n_detached, consumers="constant=True ops")
                    Lt = (base * 3.0).sum()
                    for i, m_ in enumerate(fam[1:], start=1):
                        if i > L - n_detached:
                            Lt = Lt + mg.sum(mg.exp(m_, constant=True))
                        else:
                            Lt = Lt + (m_ * 2.0).sum()
                    try:
                        Lt.backward()
                    except Exception as e:
                        b.fail("C06.bounded.raises", desc, f"{type(e).__name__}: {e}")
                        continue
                    bg = base.grad
                    b.count("view fed only to detached ops: view.grad is the view of base.grad")
                    if bg is None:
                        b.fail("C06.bounded.base_grad_missing", desc, "base.grad is None")
                        continue
                    ref = bg
                    for n_, j in enumerate(chain):
                        ref = ops[j][1](ref)
                        vg = fam[n_ + 1].grad
                        if vg is None:
                            b.fail("C06.bounded.view_grad_unavailable", dict(desc, member=n_ + 1), "view.grad is None although base.grad is available (the view only feeds detached ops)")
                            break
                        if vg.shape != ref.shape or not np.array_equal(vg, ref):
                            b.fail("C06.bounded.view_grad_value", dict(desc, member=n_ + 1), "view.grad differs from the chain applied to base.grad")
                            break
                        if vg.size and not np.shares_memory(vg, bg):
                            b.fail("C06.bounded.view_grad_not_shared", dict(desc, member=n_ + 1), "view.grad does not share memory with base.grad")
                            break
                    b.case(desc)
    # the base is the *terminal* tensor: its gradient is the caller's seed, of any layout / dtype / broadcastable shape
    def seeds(shape):
        full = rng.uniform(1, 2, size=shape)
        yield "C-ordered", np.ascontiguousarray(full)
        yield "F-ordered", np.asfortranarray(full)
        yield "transposed-copy", np.ascontiguousarray(full.T).T
        yield "strided", np.repeat(full, 2, axis=-1)[..., ::2]
        yield "float32", full.astype(np.float32)
        yield "float32-F", np.asfortranarray(full.astype(np.float32))
        yield "broadcast-row", full[:1]
        yield "broadcast-last", full[..., :1]
        yield "tensor-F", mg.tensor(np.asfortranarray(full))
        if len(shape) == 3:
            yield "broadcast-2d-F", np.asfortranarray(full[0])

    for order in ("C", "F"):
        for shape in ((3, 3), (2, 3, 2)):
            for sname, _unused in seeds(shape):
                for L in range(1, maxlen + 1):
                    for chain in itertools.product(range(len(ops)), repeat=L):
                        src = mg.tensor(np.asarray(rng.uniform(-1, 1, size=shape), order=order), copy=False)
                        base = src * 2.0  # terminal tensor that owns its memory (layout follows src)
                        v, ok = base, True
                        for j in chain:
                            try:
                                v2 = ops[j][1](v)
                            except Exception:
                                ok = False
                                break
                            if v2 is None or not np.shares_memory(v2.data, base.data):
                                ok = False
                                break
                            v = v2
                        if not ok:
                            continue
                        g = dict(seeds(shape))[sname]
                        desc = dict(chain=[ops[j][0] for j in chain], order=order, shape=list(shape), seed=sname, terminal="base")
                        try:
                            base.backward(g)
                        except Exception as e:
                            b.fail("C06.bounded.raises", desc, f"{type(e).__name__}: {e}")
                            continue
                        bg = base.grad
                        ref = bg
                        for j in chain:
                            ref = ops[j][1](ref)
                        b.count("view of a seeded terminal: view.grad is the view of base.grad")
                        vg = v.grad
                        if vg is None:
                            b.fail("C06.bounded.view_grad_unavailable", desc, "view.grad is None although base.grad is available")
                        elif vg.shape != ref.shape or not np.array_equal(vg, ref):
                            b.fail("C06.bounded.view_grad_value", desc, "view.grad differs from the chain applied to base.grad")
                        elif vg.size and not np.shares_memory(vg, bg):
                            b.fail("C06.bounded.view_grad_not_shared", desc, "view.grad does not share memory with base.grad (seeded terminal)")
                        b.case(desc)
    # gradients of tensors that do not share memory never share memory
    for (name, tags, shapes, f) in select():
        vals = leaves(rng, shapes)
        out, ts = mg_run(f, vals)
        try:
            out["L"].backward()
        except Exception:
            continue
        tens = [(k, t) for k, t in list(out.items()) + [(f"leaf{i}", t) for i, t in enumerate(ts)] if isinstance(t, Tensor) and t.grad is not None and t.ndim]
        for (p, tp), (q, tq) in itertools.combinations(tens, 2):
            if tp is tq:
                continue
            b.count("grads share memory only if data do")
            if np.shares_memory(tp.grad, tq.grad) and not np.shares_memory(tp.data, tq.data):
                b.fail("C06.bounded.noalias", dict(program=name, pair=[p, q]), "gradients of tensors with distinct memory share memory")
        b.case(dict(program=name, contract="noalias"))
    # the base's FIRST gradient contribution comes from an op whose VJP hands back a view of a temporary it allocated (matmul w.r.t. a 1-d operand,
    # einsum, roll, cumsum, repeat, max along an axis, conv filters), the base also has views inside the graph, in both orders of the summands
    A_ = rng.uniform(1, 2, size=(2, 3))
    direct_ops = [
        ("matmul-1d", lambda bb: mg.matmul(A_, bb)), ("einsum", lambda bb: mg.einsum("ij,j->i", A_, bb)), ("roll", lambda bb: mg.roll(bb, 1)), ("cumsum", lambda bb: mg.cumsum(bb)),
        ("repeat", lambda bb: mg.repeat(bb, 2)), ("max-axis", lambda bb: mg.max(mg.stack((bb, bb * 0.5)), axis=0)), ("multiply", lambda bb: bb * 3.0), ("sum-of-squares", lambda bb: bb * bb),
        ("cumprod", lambda bb: mg.cumprod(bb)), ("tensordot-like einsum", lambda bb: mg.einsum("i,i->", bb, bb)),
    ]
    in_graph_views = [("reshape", lambda t: t.reshape(3, 1)), ("[::-1]", lambda t: t[::-1]), ("[None]", lambda t: t[None]), ("reshape.T", lambda t: t.reshape(1, 3).T)]
    for dn, df in direct_ops:
        for vn, vf in in_graph_views:
            for order in ("view-term first", "direct-term first"):
                a0 = mg.tensor(rng.uniform(1, 2, size=(3,)))
                bb = a0 * 1.0
                v = vf(bb)
                t_view, t_direct = (v * 2.0).sum(), df(bb).sum()
                L = (t_view + t_direct) if order.startswith("view") else (t_direct + t_view)
                desc = dict(family="first contribution is a view of a temporary", direct_consumer=dn, view=vn, order=order)
                b.count("view gradient available whatever op contributed first")
                try:
                    L.backward()
                    vg, bg = v.grad, bb.grad
                except Exception as e:
                    b.fail("C06.bounded.raises", desc, f"{type(e).__name__}: {e}")
                    continue
                if bg is None:
                    b.fail("C06.bounded.raises", desc, "base has no gradient")
                elif vg is None:
                    b.fail("C06.bounded.view_grad_unavailable", desc, "view.grad is None although base.grad is available")
                elif not np.array_equal(vg, vf(bg)):
                    b.fail("C06.bounded.view_grad_value", desc, "view.grad differs from the view of base.grad")
                elif not np.shares_memory(vg, bg):
                    b.fail("C06.bounded.view_grad_not_shared", desc, "view.grad does not share memory with base.grad")
                elif bg.base is not None:
                    b.fail("C06.bounded.base_grad_not_owner", desc, "the base's gradient does not own its memory (it is a window onto a temporary)")
                b.case(desc)
    # successive backward passes on the base itself, seeded with DIFFERENT windows of one buffer (the seed is kept as it is when dtype, shape and
    # layout match -- known finding F6 -- so the base's gradient does not own its memory): a side view's gradient follows the base's CURRENT one
    side_views = [("[1:3]", lambda t: t[1:3]), ("[::-1]", lambda t: t[::-1]), ("reshape", lambda t: t.reshape(2, 2)), ("[1:][:2]", lambda t: t[1:][:2]), ("[...]", lambda t: t[...])]
    for vn, vf in side_views:
        for buf in ("rows of a 2-d buffer", "halves of a 1-d buffer", "owning arrays"):
            bt = mg.tensor(rng.uniform(1, 2, size=(4,)))
            v = vf(bt)
            G = np.arange(1.0, 9.0)
            seeds = [G.reshape(2, 4)[0], G.reshape(2, 4)[1]] if buf.startswith("rows") else ([G[:4], G[4:]] if buf.startswith("halves") else [G[:4].copy(), G[4:].copy()])
            for k_, g in enumerate(seeds):
                desc = dict(family="base seeded twice from one buffer", view=vn, seeds=buf, backward_pass=k_ + 1)
                b.count("view gradient follows the base's current gradient")
                try:
                    bt.backward(g)
                    vg = v.grad
                except Exception as e:
                    b.fail("C06.bounded.raises", desc, f"{type(e).__name__}: {e}")
                    break
                exp = vf(bt.grad)
                if vg is None or vg.shape != exp.shape or not np.array_equal(vg, exp):
                    b.fail("C06.bounded.view_grad_value", desc, f"view.grad = {None if vg is None else vg.tolist()}, the view of base.grad is {exp.tolist()}")
                elif not np.shares_memory(vg, bt.grad):
                    b.fail("C06.bounded.view_grad_not_shared", desc, "view.grad does not share memory with base.grad")
                b.case(desc)
    return b


# ------------------------------------------------------------------------------------------------------------
def check_c07(tier, seed):
    rng = np.random.default_rng(seed)
    b = Bounded(
        "C07.bounded",
        bound=f"{len(P)} catalogue programs: graph fields after backward, weakref liveness with gc disabled, staleness on reuse (non-view op / in-place / another backward / view), {3 if tier=='quick' else 5} repeated iterations",
        rule="case = (program, contract); non-trivial = program creates at least one intermediate tensor",
    )
    iters = 3 if tier == "quick" else 5
    for (name, tags, shapes, f) in select():
        vals = leaves(rng, shapes)
        desc = dict(program=name)
        gc.collect()
        gc.disable()
        try:
            out, ts = mg_run(f, vals)
            leaf_ids = {id(t) for t in ts}
            refs = {k: weakref.ref(t) for k, t in out.items() if isinstance(t, Tensor) and id(t) not in leaf_ids}
            oprefs = {k: weakref.ref(t.creator) for k, t in out.items() if isinstance(t, Tensor) and t.creator is not None}
            # internal placeholders / intermediate tensors reachable upstream
            upstream = []

            def walk(t, seen):
                if id(t) in seen:
                    return
                seen.add(id(t))
                if t.creator is not None:
                    for v in t.creator.variables:
                        if id(v) not in leaf_ids:
                            upstream.append(weakref.ref(v))
                        walk(v, seen)

            seen_ids = set()
            walk(out["L"], seen_ids)
            out["L"].backward()
            b.count("cleared after backward")
            for k, t in out.items():
                if isinstance(t, Tensor) and (t.creator is not None or len(t._ops) != 0):
                    # only L and tensors upstream of L are required to be cleared
                    pass
            Lt = out["L"]
            if Lt.creator is not None or len(Lt._ops):
                b.fail("C07.bounded.L_not_cleared", desc, "L keeps creator/consumers after backward")
            for t in ts:
                if id(t) in seen_ids and (t.creator is not None or len(t._ops)):
                    b.fail("C07.bounded.leaf_not_cleared", desc, "leaf upstream of L keeps creator/consumers after backward")
            del out, Lt, t
            b.count("freed by refcount")
            alive = [k for k, r in refs.items() if r() is not None]
            alive_ops = [k for k, r in oprefs.items() if r() is not None]
            alive_up = sum(1 for r in upstream if r() is not None)
            if alive or alive_ops or alive_up:
                b.fail("C07.bounded.not_freed_by_refcount", desc, f"still alive without a GC pass: tensors {alive}, creators of {alive_ops}, {alive_up} upstream/placeholder tensors")
        except Exception as e:
            b.error(f"{name}: {type(e).__name__}: {e}")
        finally:
            gc.enable()
        b.case(dict(desc, contract="release"))
        # repeated identical steps: bit-identical gradients, no accumulation
        if "leafmut" not in tags:
            ts = [mg.tensor(v.copy()) for v in vals]
            prev = None
            for it in range(iters):
                out = f(mg, *ts)
                out["L"].backward()
                cur = [None if t.grad is None else t.grad.copy() for t in ts]
                if prev is not None:
                    b.count("bit-identical on repetition")
                    for i, (p, c) in enumerate(zip(prev, cur)):
                        if (p is None) != (c is None) or (p is not None and not np.array_equal(p, c)):
                            b.fail("C07.bounded.not_bit_identical", dict(desc, iteration=it, leaf=i), "gradients differ between identical iterations")
                prev = cur
            b.case(dict(desc, contract="repeat"))
    # every kind of non-view consumer nulls the gradients of *all* its tensor operands (also when NumPy's result
    # happens to carry a .base: mixed slice+advanced indexing, pooling, reshape of a non-contiguous tensor, in-place on a view)
    import mygrad.nnet as nn

    consumers = [
        ("x[:, [0, 2]]", lambda x, y: x[:, [0, 2]], "x"), ("x[[0, 1]]", lambda x, y: x[[0, 1]], "x"), ("x[x > 0]", lambda x, y: x[x > 0], "x"),
        ("max_pool(x)", lambda x, y: nn.max_pool(x, (2,), 2), "x"), ("mg.sum(x, axis=0)", lambda x, y: mg.sum(x, axis=0), "x"),
        ("x + y", lambda x, y: x + y, "xy"), ("mg.einsum('ij,ij->ij', x, y)", lambda x, y: mg.einsum("ij,ij->ij", x, y), "xy"), ("mg.matmul(x, y.T)", lambda x, y: mg.matmul(x, y.T), "xy-yview"),
        ("mg.concatenate((x, y))", lambda x, y: mg.concatenate((x, y)), "xy"), ("mg.stack((x, y))", lambda x, y: mg.stack((x, y)), "xy"), ("mg.where(x > 0, x, y)", lambda x, y: mg.where(x > 0, x, y), "xy"),
        ("w = +x; v = w[0]; v += y", None, "y-inplace-view"), ("w = +x; w[0] = y", None, "y-setitem"), ("w = +x; mg.add(w, y2, out=w)", None, "y-out"),
        ("mg.repeat(x, 2)", lambda x, y: mg.repeat(x, 2), "x"), ("mg.clip(x, -1, 1)", lambda x, y: mg.clip(x, -1, 1), "x"), ("nn.softmax(x)", lambda x, y: nn.softmax(x), "x"),
        ("mg.reshape(x[:, ::2], (4,))", lambda x, y: mg.reshape(x[:, ::2], (4,)), "none"),
    ]
    for nm, f, who in consumers:
        x = mg.tensor(rng.uniform(-1, 1, size=(2, 4)))
        y = mg.tensor(rng.uniform(-1, 1, size=(4,)))
        y2 = mg.tensor(rng.uniform(-1, 1, size=(2, 4)))
        vx = x[0]
        ((x * x).sum() + (y * 3.0).sum() + (y2 * y2).sum()).backward()
        desc = dict(staleness_consumer=nm)
        b.count("non-view consumer nulls operand gradients")
        if x.grad is None or y.grad is None or vx.grad is None or y2.grad is None:
            b.error(f"{nm}: setup failed")
            continue
        try:
            if f is not None:
                yy = y2 if who.startswith("xy") else y
                out = f(x, yy)
            elif who == "y-inplace-view":
                w = +x
                v = w[0]
                v += y
            elif who == "y-setitem":
                w = +x
                w[0] = y
            else:
                w = +x
                mg.add(w, y2, out=w)
        except Exception as e:
            b.error(f"{nm}: {type(e).__name__}: {e}")
            continue
        bad = []
        if who in ("x", "xy", "xy-yview") and (x.grad is not None or vx.grad is not None):
            bad.append("x / its view")
        if who == "xy" and y2.grad is not None:
            bad.append("second operand")
        if who in ("y-inplace-view", "y-setitem") and y.grad is not None:
            bad.append("the value operand of the in-place update")
        if who == "y-out" and y2.grad is not None:
            bad.append("the operand of the out= update")
        if bad:
            b.fail("C07.bounded.stale_after_nonview_consumer", desc, f"gradient of {bad} still readable after the tensor was consumed by a non-view operation / in-place update")
        b.case(desc)
    # staleness: a leaf's gradient persists until the leaf is next used in a non-view op / in-place / backward
    for how in ("non-view-op", "in-place", "another-backward", "view-only", "null_grad"):
        x = mg.tensor(rng.uniform(1, 2, size=(4,)))
        v = x[:2]
        (x * x).sum().backward()
        g0 = x.grad.copy()
        desc = dict(staleness=how)
        b.count("staleness")
        ok = x.grad is not None and v.grad is not None and np.shares_memory(v.grad, x.grad)
        if not ok:
            b.fail("C07.bounded.grad_missing", desc, "gradient of leaf/view missing after backward")
        if how == "view-only":
            w = x[1:]
            if x.grad is None or not np.array_equal(x.grad, g0):
                b.fail("C07.bounded.grad_lost_on_view", desc, "creating a view dropped the leaf gradient")
        elif how == "non-view-op":
            y = x + 1
            if x.grad is not None or v.grad is not None:
                b.fail("C07.bounded.stale", desc, ".grad of leaf / its view not None after reuse in a non-view op")
        elif how == "in-place":
            x[0] = 3.0
            if x.grad is not None or v.grad is not None:
                b.fail("C07.bounded.stale", desc, ".grad of leaf / its view not None after an in-place update")
        elif how == "another-backward":
            x.backward()
            if not np.array_equal(x.grad, np.ones(4)):
                b.fail("C07.bounded.stale", desc, "second backward accumulated into the old gradient")
        elif how == "null_grad":
            x.null_grad()
            if x.grad is not None or v.grad is not None:
                b.fail("C07.bounded.stale", desc, "null_grad left a gradient on the leaf / its view")
        b.case(desc)
    # an in-place update of a VIEW of a leaf that still holds a gradient (w[:2] -= lr * w.grad[:2] after backward): the statement works as
    # on NumPy arrays, and the gradient of the leaf -- whose memory changed -- and of its views is gone
    upd = [("v[...]=c", lambda v: v.__setitem__(Ellipsis, 0.5)), ("v*=c", lambda v: v.__imul__(2.0)), ("v-=lr*g", lambda v: v.__isub__(0.1 * np.ones(v.shape))), ("out=v", lambda v: mg.multiply(v, 3.0, out=v)), ("v[0]=c", lambda v: v.__setitem__(0, 7.0))]
    viewsel = [("[:2]", lambda t: t[:2]), ("[::-1]", lambda t: t[::-1]), ("[1:][:1]", lambda t: t[1:][:1]), ("reshape", lambda t: t.reshape(2, 2))]
    for vn, vf in viewsel:
        for un, uf in upd:
            w = mg.tensor(rng.uniform(1, 2, size=(4,)))
            ref = w.data.copy()
            (w * w).sum().backward()
            desc = dict(view=vn, update=un, leaf="holds the gradient of an earlier backward")
            b.count("in-place update of a view of a gradient-holding leaf")
            try:
                v = vf(w)
                uf(v)
                rv = vf(ref)
                if un == "v[...]=c":
                    rv[...] = 0.5
                elif un == "v*=c":
                    rv *= 2.0
                elif un == "v-=lr*g":
                    rv -= 0.1 * np.ones(rv.shape)
                elif un == "out=v":
                    np.multiply(rv, 3.0, out=rv)
                else:
                    rv[0] = 7.0
            except Exception as e:
                b.fail("C07.bounded.inplace_on_view_of_grad_holder_raises", desc, f"{type(e).__name__}: {e}")
                continue
            if not np.array_equal(w.data, ref):
                b.fail("C07.bounded.inplace_on_view_of_grad_holder_value", desc, f"leaf = {w.data.tolist()}, NumPy twin = {ref.tolist()}")
            elif w.grad is not None or v.grad is not None:
                b.fail("C07.bounded.stale", desc, "the leaf or its view still reports the old gradient after the in-place update")
            b.case(desc)
    # a training loop that keeps VIEWS of its leaves across iterations: views of the parameters made once (W = params[:6].reshape(2, 3)), used in
    # every iteration through further view ops and non-view ops, optionally updated in place inside no_autodiff between iterations -- every
    # iteration yields the same gradients on the leaf, the persistent view and the per-iteration view (bit-identical, never None on one iteration)
    first_uses = [("view op", lambda W: W[:1]), ("view-of-view", lambda W: W.T[1:]), ("non-view op", lambda W: W * 1.0), ("reshape", lambda W: W.reshape(-1))]
    for fn_, ff_ in first_uses:
        for update in (False, True):
            params = mg.tensor(np.arange(1.0, 9.0))
            W = params[:6].reshape(2, 3)
            seen = []
            desc = dict(family="persistent views across iterations", first_use_of_the_view=fn_, in_place_update_between_iterations=update)
            b.count("iterations repeat exactly")
            try:
                for it in range(4):
                    R = ff_(W)
                    L = (R * R).sum() + (W * 2.0).sum()
                    L.backward()
                    seen.append((None if params.grad is None else params.grad.copy(), None if W.grad is None else W.grad.copy(), None if R.grad is None else np.array(R.grad, copy=True), R.base is params or R.base is None))
                    if update:
                        with mg.no_autodiff:
                            params[...] = params.data  # an update that keeps the values: the next iteration computes the same thing
            except Exception as e:
                b.fail("C07.bounded.iterations_raise", desc, f"{type(e).__name__}: {e}")
                continue
            bad = None
            for it, cur in enumerate(seen[1:], start=1):
                for nm_, a_, c_ in zip(("leaf.grad", "persistent view.grad", "per-iteration tensor.grad"), seen[0][:3], cur[:3]):
                    if (a_ is None) != (c_ is None) or (a_ is not None and not np.array_equal(a_, c_)):
                        bad = f"iteration {it}: {nm_} = {None if c_ is None else np.asarray(c_).tolist()}, iteration 0 gave {None if a_ is None else np.asarray(a_).tolist()}"
                        break
                if bad:
                    break
            if bad:
                b.fail("C07.bounded.iterations_differ", desc, bad)
            b.case(desc)
    # assigning .shape is an in-place update too (C04): on a tensor that still holds a gradient -- a leaf, a view of one, a tensor whose view
    # was back-propagated through, with or without views taken after the backward pass -- it works as on NumPy arrays, and the old gradient
    # of the tensor (its memory keeps its values, but the statement is an in-place update: "the old value is gone") reads None afterwards
    holders = [
        ("leaf", lambda: (lambda x: (x, x, (x * x).sum()))(mg.tensor(rng.uniform(1, 2, size=(4,))))),
        ("view of a leaf", lambda: (lambda x: (x, x[:4], None))(mg.tensor(rng.uniform(1, 2, size=(6,))))),
        ("leaf whose view was back-propagated through", lambda: (lambda x: (x, x, (x[:2] * 2.0).sum()))(mg.tensor(rng.uniform(1, 2, size=(4,))))),
        ("intermediate", lambda: (lambda x: (x, x * 1.0, None))(mg.tensor(rng.uniform(1, 2, size=(4,))))),
    ]
    for hn, hf in holders:
        for late_view in (False, True):
            owner, target, L = hf()
            (L if L is not None else (target * target).sum()).backward()
            desc = dict(target=hn, view_taken_after_backward=late_view, statement="target.shape = (2, 2)")
            b.count("shape assignment on a gradient-holding tensor")
            had = target.grad is not None
            try:
                w = target[1:] if late_view else None
                ref = target.data.copy()
                target.shape = (2, 2)
            except Exception as e:
                b.fail("C07.bounded.shape_assignment_on_grad_holder_raises", desc, f"{type(e).__name__}: {e}")
                continue
            if target.shape != (2, 2) or not np.array_equal(target.data, ref.reshape(2, 2)):
                b.fail("C07.bounded.shape_assignment_value", desc, f"shape {target.shape}, values {target.data.tolist()}")
            elif target.grad is not None:
                b.fail("C07.bounded.stale", desc, "the tensor still reports the old gradient after the in-place update of its shape")
            b.case(desc, nontrivial=had)
    # a nulled gradient stays gone -- for the tensor, the views it had and the views taken afterwards -- until the next backward,
    # whichever member was nulled and whatever (non-backward) statements follow
    vops = [("[::-1]", lambda t: t[::-1]), ("reshape", lambda t: t.reshape(-1, 1)), ("[...]", lambda t: t[...]), ("T", lambda t: t.T)]
    follow = [("view-op", lambda t: t[::-1]), ("two-view-ops", lambda t: t[...][1:]), ("nothing", lambda t: None), ("non-view-op", lambda t: t * 2.0), ("view-of-base", None)]
    for through_view in (True, False):
        for who in ("base", "view", "view-of-view"):
            for vn, vf in vops:
                for fn, ff in follow:
                    x = mg.tensor(rng.uniform(1, 2, size=(4,)))
                    v = x[:3]
                    vv = vf(v)
                    L = ((vv * vv).sum() + (v * 2.0).sum()) if through_view else (x * x).sum()
                    L.backward()
                    target = dict(base=x, view=v)[who] if who != "view-of-view" else vv
                    desc = dict(nulled=who, backward_through_views=through_view, view=vn, then=fn)
                    b.count("nulled gradient stays nulled")
                    target.null_grad()
                    new_t = None
                    try:
                        new_t = ff(target) if ff is not None else x[1:]
                    except Exception as e:
                        b.error(f"nulled/{desc}: {type(e).__name__}: {e}")
                        continue
                    def window_or_none(t):
                        # after nulling, a tensor may only report a gradient that is a live window onto its base's CURRENT gradient (C06);
                        # anything else is the old value coming back
                        g = t.grad
                        return g is None or (t.base is not None and t.base.grad is not None and np.shares_memory(g, t.base.grad))

                    if not window_or_none(target):
                        b.fail("C07.bounded.nulled_gradient_came_back", desc, f"target.grad = {np.asarray(target.grad).tolist()} after null_grad(), not a window onto its base's gradient")
                    elif who == "base" and (x.grad is not None or v.grad is not None or vv.grad is not None):
                        b.fail("C07.bounded.nulled_gradient_came_back", desc, "the nulled leaf or one of its views still reports a gradient")
                    elif new_t is not None and isinstance(new_t, Tensor) and fn in ("view-op", "two-view-ops") and not window_or_none(new_t):
                        b.fail("C07.bounded.nulled_gradient_came_back", desc, f"a fresh view of the nulled tensor reports a gradient {np.asarray(new_t.grad).tolist()} that is not a window onto its base's gradient")
                    elif not window_or_none(v) or not window_or_none(vv):
                        b.fail("C07.bounded.nulled_gradient_came_back", desc, "an existing view reports a gradient that is not a window onto its base's gradient")
                    b.case(desc)
    return b


# ------------------------------------------------------------------------------------------------------------
def check_c12(tier, seed):
    rng = np.random.default_rng(seed)
    b = Bounded(
        "C12.bounded",
        bound=f"{len(P)} catalogue programs x seeds {{None, array, broadcast array}}: checksums of every caller array before/after forward and backward; pairwise shares_memory over all .grad vs .data; in-place edit of one grad",
        rule="case = (program, seed kind); non-trivial = at least two tensors hold gradients",
    )
    for (name, tags, shapes, f) in select():
        for seedkind in ("none", "array", "array-view", "tensor-grad"):
            vals = leaves(rng, shapes)
            desc = dict(program=name, seed=seedkind)
            arrs = [v.copy() for v in vals]
            ts = [mg.tensor(a, copy=False) for a in arrs]
            snap = [a.copy() for a in arrs]
            try:
                out = f(mg, *ts)
            except Exception as e:
                b.error(f"{name}: {e}")
                continue
            L = out["L"]
            b.count("forward leaves inputs unchanged")
            if "leafmut" not in tags:
                for i, (a, s) in enumerate(zip(arrs, snap)):
                    if not np.array_equal(ts[i].data, s):
                        b.fail("C12.bounded.forward_mutated_input", dict(desc, leaf=i), "forward pass changed an input's contents")
            data_snap = {k: t.data.copy() for k, t in out.items() if isinstance(t, Tensor)}
            leaf_snap = [t.data.copy() for t in ts]
            if seedkind == "none":
                g = None
                L.backward()
            elif seedkind == "array":
                g = rng.uniform(1, 2, size=L.shape)
                gs = g.copy()
                L.backward(g)
            elif seedkind == "array-view":
                gbuf = rng.uniform(1, 2, size=(L.size + 2,))
                g = gbuf[1:-1].reshape(L.shape)  # a non-owning view of the caller's buffer
                gs = g.copy()
                L.backward(g)
            else:
                other = mg.tensor(rng.uniform(1, 2, size=L.shape))
                (other * 2.0).sum().backward()
                g = other.grad
                gs = g.copy()
                L.backward(g)
            b.count("backward leaves data and seed unchanged")
            if g is not None and not np.array_equal(g, gs):
                b.fail("C12.bounded.seed_mutated", desc, "backward(grad) changed the caller's gradient array")
            for k, t in out.items():
                if isinstance(t, Tensor) and not np.array_equal(t.data, data_snap[k]):
                    b.fail("C12.bounded.backward_changed_data", dict(desc, tensor=k), "backward changed a tensor's data")
            for i, t in enumerate(ts):
                if not np.array_equal(t.data, leaf_snap[i]):
                    b.fail("C12.bounded.backward_changed_data", dict(desc, leaf=i), "backward changed a leaf's data")
            tens = {k: t for k, t in out.items() if isinstance(t, Tensor)}
            tens.update({f"leaf{i}": t for i, t in enumerate(ts)})
            if seedkind == "tensor-grad":
                tens["seed-owner"] = other
            holders = [(k, t) for k, t in tens.items() if t.grad is not None and t.ndim]
            for (p, tp) in holders:
                b.count("stored gradient owns its memory")
                if tp.grad.base is not None and p != "L" and tp.base is None:
                    b.fail("C12.bounded.grad_not_owner", dict(desc, tensor=p), f"{p}.grad is a view of another array (it does not own its memory)")
            for (p, tp), (q, tq) in itertools.combinations(holders, 2):
                if tp is tq:
                    continue
                b.count("grad aliasing only where data alias")
                if np.shares_memory(tp.grad, tq.grad) and not np.shares_memory(tp.data, tq.data):
                    b.fail("C12.bounded.grad_alias", dict(desc, pair=[p, q]), f"editing {p}.grad in place would change {q}.grad although the tensors do not share memory")
            for (p, tp) in holders:
                for (q, tq) in tens.items():
                    if tq.ndim and np.shares_memory(tp.grad, tq.data):
                        b.fail("C12.bounded.grad_data_alias", dict(desc, pair=[p, q]), "a gradient array shares memory with a tensor's data")
                if g is not None and seedkind in ("array", "array-view") and np.shares_memory(tp.grad, g):
                    b.fail("C12.bounded.grad_aliases_seed", dict(desc, tensor=p), f"{p}.grad shares memory with the array passed to backward(grad)")
            b.case(desc, nontrivial=len(holders) >= 2)
    return b


# ------------------------------------------------------------------------------------------------------------
def check_c14(tier, seed):
    rng = np.random.default_rng(seed)
    b = Bounded(
        "C14.bounded",
        bound=f"{len(P)} catalogue programs x dtypes {{float64,float32,float16}}: L.backward() vs L.sum().backward(); L.backward(g) vs (L*g).sum().backward() for scalar/array/Tensor/broadcastable g; non-broadcastable g rejected; I1 on every .grad",
        rule="case = (program, dtype, seed kind); non-trivial = terminal tensor with ndim >= 1 or a non-default seed",
    )

    def grads_of(f, vals, dtype, how, g=None):
        out, ts = mg_run(f, vals, dtype=dtype)
        L = out["L"]
        if how == "plain":
            L.backward()
        elif how == "sum":
            L.sum().backward()
        elif how == "seed":
            L.backward(g)
        elif how == "mulsum":
            (L * g).sum().backward()
        return out, ts, L

    def i1(b_, desc, out, ts, name="C14.bounded.I1"):
        for k, t in list(out.items()) + [(f"leaf{i}", t) for i, t in enumerate(ts)]:
            if isinstance(t, Tensor) and t.grad is not None:
                b_.count("I1")
                gr = t.grad
                if type(gr) is not np.ndarray or gr.shape != t.shape or gr.dtype != t.dtype:
                    b_.fail(name, dict(desc, tensor=k), f"grad type/shape/dtype = {type(gr).__name__}/{getattr(gr,'shape',None)}/{getattr(gr,'dtype',None)} vs tensor {t.shape}/{t.dtype}")

    for (name, tags, shapes, f) in select():
        for dtype in (np.float64, np.float32, np.float16):
            tol = {np.float64: 1e-10, np.float32: 2e-4, np.float16: 6e-2}[dtype]
            vals = leaves(rng, shapes)
            desc = dict(program=name, dtype=np.dtype(dtype).name)
            try:
                o1, t1, L1 = grads_of(f, vals, dtype, "plain")
                o2, t2, L2 = grads_of(f, vals, dtype, "sum")
            except Exception as e:
                b.error(f"{name}/{dtype}: {type(e).__name__}: {e}")
                continue
            i1(b, desc, o1, t1)
            b.count("backward() == sum().backward()")
            for i, (a, c) in enumerate(zip(t1, t2)):
                if (a.grad is None) != (c.grad is None) or (a.grad is not None and not np.allclose(a.grad.astype(float), c.grad.astype(float), rtol=tol, atol=tol)):
                    b.fail("C14.bounded.sum_equivalence", dict(desc, leaf=i), "L.backward() differs from L.sum().backward()")
            b.case(dict(desc, seed="none"), nontrivial=L1.ndim >= 1)
            if dtype is np.float16:
                continue
            shp = L1.shape
            seeds = [("scalar", 2.5), ("array", rng.uniform(1, 2, size=shp)), ("tensor", mg.tensor(rng.uniform(1, 2, size=shp))), ("int-array", np.full(shp, 2))]
            if len(shp) >= 1:
                # every shape that broadcasts TO shp: each subset of axes collapsed to 1, and leading axes dropped
                seen_shapes = set()
                for mask_ in itertools.product([False, True], repeat=len(shp)):
                    full = tuple(1 if m_ else s_ for m_, s_ in zip(mask_, shp))
                    for drop in range(len(shp) + 1):
                        cand = full[drop:]
                        if all(full[i_] == 1 or True for i_ in range(drop)) and cand != shp and cand not in seen_shapes:
                            if all(m_ or True for m_ in mask_[:drop]):
                                try:
                                    if np.broadcast_shapes(cand, shp) != shp:
                                        continue
                                except ValueError:
                                    continue
                                seen_shapes.add(cand)
                                seeds.append((f"broadcast{list(cand)}", rng.uniform(1, 2, size=cand)))
            for sk, g in seeds:
                d2 = dict(desc, seed=sk)
                try:
                    o3, t3, L3 = grads_of(f, vals, dtype, "seed", g)
                    gv = g.data if isinstance(g, Tensor) else g
                    o4, t4, L4 = grads_of(f, vals, dtype, "mulsum", np.asarray(gv, dtype=dtype))
                except Exception as e:
                    b.fail("C14.bounded.seed_raises", d2, f"{type(e).__name__}: {e}")
                    continue
                i1(b, d2, o3, t3)
                b.count("backward(g) == (L*g).sum().backward()")
                for i, (a, c) in enumerate(zip(t3, t4)):
                    if (a.grad is None) != (c.grad is None) or (a.grad is not None and not np.allclose(a.grad.astype(float), c.grad.astype(float), rtol=max(tol, 1e-6), atol=max(tol, 1e-6))):
                        b.fail("C14.bounded.seed_equivalence", dict(d2, leaf=i), "L.backward(g) differs from (L*g).sum().backward()")
                b.case(d2)
            # non-broadcastable seeds are rejected and nothing is written
            bads = [rng.uniform(1, 2, size=shp + (2,)), rng.uniform(1, 2, size=(7,))]
            if len(shp) >= 1 and shp[-1] != 1:
                bads.append(rng.uniform(1, 2, size=(2,) + shp))  # broadcasts *with* L but not *to* L
            for gbad in bads:
                if gbad.shape == shp:
                    continue
                out, ts = mg_run(f, vals, dtype=dtype)
                d3 = dict(desc, bad_seed_shape=list(gbad.shape))
                b.count("bad seed rejected")
                try:
                    out["L"].backward(gbad)
                    try:
                        np.broadcast_to(gbad, shp)
                        continue  # it does broadcast to L
                    except ValueError:
                        b.fail("C14.bounded.bad_seed_accepted", d3, "non-broadcastable seed accepted")
                except ValueError:
                    for i, t in enumerate(ts):
                        if t.grad is not None:
                            b.fail("C14.bounded.bad_seed_wrote_grad", dict(d3, leaf=i), "a gradient was written although the seed was rejected")
                    if out["L"].grad is not None:
                        b.fail("C14.bounded.bad_seed_wrote_grad", d3, "L.grad written although the seed was rejected")
                except Exception as e:
                    b.fail("C14.bounded.bad_seed_wrong_error", d3, f"{type(e).__name__}: {e}")
                b.case(d3)
    # gradients computed at another precision than the tensor's (ops called with an explicit dtype=), for 0-d and n-d tensors: the stored
    # gradient has the tensor's own dtype and shape whatever the precision and shape of the first contribution
    lowprec = [(np.float64, np.float32), (np.float64, np.float16), (np.float32, np.float16), (np.float32, np.float64), (np.float16, np.float32)]
    dops = [("multiply", lambda x, y, d: mg.multiply(x, y, dtype=d)), ("add", lambda x, y, d: mg.add(x, y, dtype=d)), ("exp", lambda x, y, d: mg.exp(x, dtype=d)), ("sum-of-product", lambda x, y, d: mg.sum(mg.multiply(x, y, dtype=d))),
            ("divide", lambda x, y, d: mg.divide(y, x, dtype=d))]
    for (tdt, odt) in lowprec:
        for shape in ((), (3,), (2, 2)):
            for yshape in ((), (3,) if shape != (2, 2) else (2, 2)):
                for on, of in dops:
                    for twice in (False, True):
                        x = mg.tensor(np.asarray(rng.uniform(1, 2, size=shape), dtype=tdt))
                        y = mg.tensor(np.asarray(rng.uniform(1, 2, size=yshape), dtype=tdt))
                        d5 = dict(op=on, tensor_dtype=np.dtype(tdt).name, op_dtype=np.dtype(odt).name, x_shape=list(shape), y_shape=list(yshape), second_contribution=twice)
                        b.count("I1 with explicit op dtype")
                        try:
                            out = of(x, y, odt)
                            if twice:
                                out = out.sum() + (x * 2.0).sum()  # a second, full-precision contribution arrives later
                            out.backward()
                        except Exception as e:
                            b.error(f"lowprec/{d5}: {type(e).__name__}: {e}")
                            continue
                        for nm_, t in (("x", x), ("y", y)):
                            gr = t.grad
                            if gr is None:
                                continue
                            if not isinstance(gr, np.ndarray) or gr.shape != t.shape or gr.dtype != t.dtype:
                                b.fail("C14.bounded.I1", dict(d5, tensor=nm_), f"grad type/shape/dtype = {type(gr).__name__}/{getattr(gr,'shape',None)}/{getattr(gr,'dtype',None)} vs tensor {t.shape}/{t.dtype}")
                        b.case(d5)
    # operations whose backward_var hands back a VIEW of the incoming gradient (joins, item assignment with a tensor value), fed pieces of
    # MIXED float precision: the incoming gradient has the promoted dtype, each piece's stored gradient must have the piece's own dtype and shape
    # -- for every piece shape, in particular pieces all of whose axes have length 1 and 0-d pieces (no stride distinguishes their layouts)
    fl = (np.float16, np.float32, np.float64)
    joins = [("concatenate axis=0", lambda a, c: mg.concatenate((a, c), axis=0), lambda sa, sc: len(sa) >= 1 and len(sc) == len(sa) and sa[1:] == sc[1:]),
             ("concatenate axis=-1", lambda a, c: mg.concatenate((a, c), axis=-1), lambda sa, sc: len(sa) >= 1 and len(sc) == len(sa) and sa[:-1] == sc[:-1]),
             ("concatenate axis=None", lambda a, c: mg.concatenate((a, c), axis=None), lambda sa, sc: True),
             ("stack axis=0", lambda a, c: mg.stack((a, c), axis=0), lambda sa, sc: sa == sc and len(sa) >= 1),
             ("stack axis=-1", lambda a, c: mg.stack((a, c), axis=-1), lambda sa, sc: sa == sc and len(sa) >= 1),
             ("setitem tensor value", None, lambda sa, sc: len(sc) >= 1 and sa == sc[1:] or sa == sc),
             ("hstack", lambda a, c: mg.hstack((a, c)) if hasattr(mg, "hstack") else mg.concatenate((mg.atleast_1d(a), mg.atleast_1d(c)), axis=0), lambda sa, sc: len(sa) == 1 and len(sc) == 1)]
    pshapes = [(), (1,), (1, 1), (1, 1, 1), (2,), (3,), (1, 2), (2, 1), (2, 3), (3, 1)]
    for jn, jf, ok_ in joins:
        for sa in pshapes:
            for sc in pshapes:
                if not ok_(sa, sc):
                    continue
                for lo in fl:
                    for hi in fl:
                        if np.dtype(lo).itemsize >= np.dtype(hi).itemsize:
                            continue
                        for narrow_first in (True, False):
                            a = mg.tensor(np.asarray(rng.uniform(1, 2, size=sa), dtype=lo))
                            c = mg.tensor(np.asarray(rng.uniform(1, 2, size=sc), dtype=hi))
                            d6 = dict(family="mixed-precision pieces of a join / assigned value", op=jn, narrow=[list(sa), np.dtype(lo).name], wide=[list(sc), np.dtype(hi).name], narrow_first=narrow_first)
                            b.count("I1 for pieces of mixed precision")
                            try:
                                if jf is None:
                                    tgt = +c
                                    if sa == sc:
                                        tgt[...] = a
                                    else:
                                        tgt[0] = a
                                    out = tgt
                                else:
                                    out = jf(a, c) if narrow_first else jf(c, a)
                                (out * np.arange(1.0, out.size + 1.0).reshape(out.shape)).sum().backward()
                            except Exception as e:
                                continue  # NumPy / MyGrad refuse this combination: not a case
                            for nm_, t in (("narrow piece", a), ("wide piece", c)):
                                gr = t.grad
                                if gr is None or not isinstance(gr, np.ndarray) or gr.shape != t.shape or gr.dtype != t.dtype:
                                    b.fail("C14.bounded.I1.mixed_precision_pieces", dict(d6, tensor=nm_), f"grad type/shape/dtype = {type(gr).__name__}/{getattr(gr,'shape',None)}/{getattr(gr,'dtype',None)} vs tensor {t.shape}/{t.dtype}")
                            b.case(d6)
    # the terminal tensor in every graph position: leaf, intermediate, view of a leaf, view that already went through a backward pass
    # (its graph is cleared, its base link lingers), view whose base holds a gradient: L.backward([g]) leaves L.grad = the seed
    def terminals():
        x = mg.tensor(rng.uniform(1, 2, size=(4,)))
        yield "leaf", x
        x = mg.tensor(rng.uniform(1, 2, size=(4,)))
        yield "intermediate", x * 2.0
        x = mg.tensor(rng.uniform(1, 2, size=(4,)))
        yield "view-of-leaf", x[:3]
        x = mg.tensor(rng.uniform(1, 2, size=(4,)))
        v = x[:3]
        (v * 2.0).sum().backward()
        yield "view-after-its-own-backward", v
        x = mg.tensor(rng.uniform(1, 2, size=(4,)))
        (x * x).sum().backward()
        yield "fresh-view-of-leaf-holding-a-gradient", x[1:]
        x = mg.tensor(rng.uniform(1, 2, size=(4,)))
        v = x[:3]
        w = v[::-1]
        (w * 2.0).sum().backward()
        yield "view-of-view-after-backward", w
        x = mg.tensor(rng.uniform(1, 2, size=(2, 2)))
        v = x.T
        (x * 3.0).sum().backward()
        yield "dangling-view-after-base-backward", v

    for seedk in ("none", "scalar", "array"):
        for nm, t in terminals():
            g = None if seedk == "none" else (2.5 if seedk == "scalar" else rng.uniform(1, 2, size=t.shape))
            d4 = dict(terminal=nm, seed=seedk)
            b.count("terminal.grad == seed")
            try:
                t.backward() if g is None else t.backward(g)
            except InvalidBackprop:
                # a dangling view whose base's consumers were cleared by another backward pass: the loud failure C09 requires
                b.case(d4, nontrivial=False)
                continue
            except Exception as e:
                b.fail("C14.bounded.terminal_raises", d4, f"{type(e).__name__}: {e}")
                continue
            exp = np.ones(t.shape) if g is None else np.broadcast_to(np.asarray(g, dtype=float), t.shape)
            got = t.grad
            if got is None or got.shape != t.shape or got.dtype != t.dtype or not np.array_equal(got, exp):
                b.fail("C14.bounded.terminal_grad_is_seed", d4, f"terminal.grad = {None if got is None else np.asarray(got).tolist()}, expected {exp.tolist()}")
            b.case(d4)
    # seed representations: the seed's own dtype and memory layout (another float precision, a strided window whose byte strides happen to
    # equal those of the terminal's data, the real part of a complex array, Fortran order, reversed, integer, bool, list) never show in the
    # stored gradients: L.grad has L's dtype, shape and layout and the value of the seed converted to L.dtype
    def seed_reprs(shp, ldt):
        s_ = np.dtype(ldt).itemsize
        for sdt in (np.float64, np.float32, np.float16):
            if np.dtype(sdt) == np.dtype(ldt):
                continue
            yield f"{np.dtype(sdt).name}-contiguous", np.asarray(rng.uniform(1, 2, size=shp), dtype=sdt)
            k_ = s_ // np.dtype(sdt).itemsize
            if k_ >= 2 and len(shp) >= 1:
                big = np.asarray(rng.uniform(1, 2, size=shp[:-1] + (shp[-1] * k_,)), dtype=sdt)
                yield f"{np.dtype(sdt).name}-strided-with-equal-byte-strides", big[..., ::k_]
        cdt = {8: np.complex64, 4: None, 2: None}[s_]
        if cdt is not None and len(shp) >= 1:
            z = (rng.uniform(1, 2, size=shp) + 1j * rng.uniform(1, 2, size=shp)).astype(cdt)
            yield "real-part-of-complex64", z.real
        if len(shp) >= 1:
            yield "same-dtype-reversed", np.asarray(rng.uniform(1, 2, size=shp), dtype=ldt)[::-1]
            yield "same-dtype-every-other", np.asarray(rng.uniform(1, 2, size=shp[:-1] + (2 * shp[-1],)), dtype=ldt)[..., ::2]
        if len(shp) >= 2:
            yield "same-dtype-fortran", np.asfortranarray(np.asarray(rng.uniform(1, 2, size=shp), dtype=ldt))
            yield "other-dtype-fortran", np.asfortranarray(np.asarray(rng.uniform(1, 2, size=shp), dtype=np.float32 if np.dtype(ldt) != np.float32 else np.float64))
        yield "int64-strided", np.arange(1, 1 + 2 * int(np.prod(shp, dtype=int))).reshape(shp[:-1] + (2 * shp[-1],))[..., ::2] if len(shp) >= 1 else np.int64(3)
        yield "bool", np.ones(shp, dtype=bool)
        yield "nested-list", np.asarray(rng.integers(1, 5, size=shp)).tolist()

    for ldt in (np.float64, np.float32, np.float16):
        for shp in ((4,), (2, 3), (2, 1, 2)):
            for tk in ("leaf", "intermediate"):
                for sk, g in seed_reprs(shp, ldt):
                    x = mg.tensor(np.asarray(rng.uniform(1, 2, size=shp), dtype=ldt))
                    L = x if tk == "leaf" else x * 2
                    g0 = np.array(g, copy=True) if isinstance(g, np.ndarray) else g
                    d6 = dict(terminal=tk, terminal_dtype=np.dtype(ldt).name, shape=list(shp), seed=sk, seed_strides=list(getattr(g, "strides", ())), data_strides=list(L.data.strides))
                    b.count("seed representation")
                    try:
                        L.backward(g)
                    except Exception as e:
                        b.fail("C14.bounded.seed_raises", d6, f"{type(e).__name__}: {e}")
                        continue
                    exp = np.asarray(g0).astype(ldt)
                    for nm_, t, e_ in (("L", L, exp),) + ((("x", x, (exp * np.asarray(2, dtype=ldt)).astype(ldt)),) if tk == "intermediate" else ()):
                        gr = t.grad
                        if type(gr) is not np.ndarray or gr.shape != t.shape or gr.dtype != t.dtype:
                            b.fail("C14.bounded.I1", dict(d6, tensor=nm_), f"grad type/shape/dtype = {type(gr).__name__}/{getattr(gr,'shape',None)}/{getattr(gr,'dtype',None)} vs tensor {t.shape}/{t.dtype}")
                        elif not np.allclose(gr.astype(float), e_.astype(float), rtol=4e-3 if ldt is np.float16 else 1e-6, atol=0):
                            b.fail("C14.bounded.seed_value", dict(d6, tensor=nm_), f"grad {gr.tolist()} expected {e_.tolist()}")
                        elif gr.strides != t.data.strides:
                            b.fail("C14.bounded.seed_layout", dict(d6, tensor=nm_), f"grad strides {gr.strides} vs data strides {t.data.strides}")
                    if isinstance(g, np.ndarray) and not np.array_equal(g, g0):
                        b.fail("C14.bounded.seed_mutated", d6, "the caller's seed array was written")
                    b.case(d6)
    # nnet layer outputs: I1
    import mygrad.nnet as nn
    from mygrad.nnet.layers import gru

    layer_cases = [
        ("conv_nd", lambda x, w: nn.conv_nd(x, w, stride=1), [(1, 1, 4), (2, 1, 2)]),
        ("max_pool", lambda x: nn.max_pool(x, (2,), 2), [(2, 4)]),
        ("batchnorm", lambda x: nn.batchnorm(x, eps=1e-3), [(3, 2)]),
        ("softmax", lambda x: nn.softmax(x), [(2, 3)]),
        ("logsoftmax", lambda x: nn.logsoftmax(x), [(2, 3)]),
        ("softmax_crossentropy", lambda x: nn.softmax_crossentropy(x, np.array([0, 1])), [(2, 3)]),
        ("multiclass_hinge", lambda x: nn.multiclass_hinge(x, np.array([0, 1])), [(2, 3)]),
        ("focal", lambda x: nn.softmax_focal_loss(x, np.array([0, 1]), gamma=1.0), [(2, 3)]),
        ("margin", lambda a, c: nn.margin_ranking_loss(a, c, 1, 0.5), [(3,), (3,)]),
        ("gru", lambda X, Uz, Wz, bz, Ur, Wr, br, Uh, Wh, bh: gru(X, Uz, Wz, bz, Ur, Wr, br, Uh, Wh, bh), [(2, 1, 2), (2, 3), (3, 3), (3,), (2, 3), (3, 3), (3,), (2, 3), (3, 3), (3,)]),
        ("relu", lambda x: nn.relu(x), [(3,)]),
        ("glu", lambda x: nn.glu(x), [(2, 4)]),
    ]
    for nm, fn, shapes in layer_cases:
        for dtype in (np.float64, np.float32):
            ts = [mg.tensor(rng.uniform(0.2, 1.0, size=s).astype(dtype)) for s in shapes]
            desc = dict(layer=nm, dtype=np.dtype(dtype).name)
            try:
                out = fn(*ts)
                out.backward()
            except Exception as e:
                b.error(f"{nm}: {type(e).__name__}: {e}")
                continue
            i1(b, desc, {"out": out}, ts)
            b.case(desc)
    # mixed precision: every operand of every layer in turn (and every subset for the GRU's biases) at a narrower float type than the rest, and
    # 0-d operands under a 0-d `where=` mask given as an array / NumPy bool: the stored gradient keeps the OPERAND's dtype and is an ndarray
    for nm, fn, shapes in layer_cases:
        if len(shapes) < 2:
            continue
        narrow_sets = [{i} for i in range(len(shapes))]
        if nm == "gru":
            narrow_sets += [{3, 6, 9}, {3}, {9}, {1, 2, 3}, set(range(1, 10))]
            if tier == "quick":
                narrow_sets = [{3, 6, 9}, {3}, {0}, {1, 2, 3}]  # (every distinct dtype signature makes the layer's compiled kernels specialise again)
        for narrow in narrow_sets:
            for lo, hi in ((np.float32, np.float64), (np.float16, np.float32), (np.float16, np.float64)):
                if nm == "gru" and lo is np.float16:
                    continue  # the GRU's compiled kernels do not take float16
                ts = [mg.tensor(rng.uniform(0.2, 1.0, size=s_).astype(lo if i in narrow else hi)) for i, s_ in enumerate(shapes)]
                desc = dict(layer=nm, narrow_operands=sorted(narrow), narrow_dtype=np.dtype(lo).name, other_dtype=np.dtype(hi).name)
                b.count("I1 under mixed precision")
                try:
                    out = fn(*ts)
                    out.backward()
                except NotImplementedError:
                    continue  # the layer's compiled kernels do not take this float type: outside the domain
                except Exception as e:
                    b.error(f"{nm} mixed precision {desc}: {type(e).__name__}: {e}")
                    continue
                i1(b, desc, {} if nm == "gru" else {"out": out}, ts, name="C14.bounded.I1.mixed_precision")  # (the GRU's own output: known finding F5b, checked above)
                b.case(desc)
    for wn, wv in (("np.array(True)", np.array(True)), ("np.bool_(True)", np.bool_(True)), ("True", True), ("np.array(False)", np.array(False))):
        for dt in (np.float64, np.float32, np.float16):
            for on, of in (("exp", lambda x, y, w: mg.exp(x, where=w)), ("multiply", lambda x, y, w: mg.multiply(x, y, where=w)), ("add", lambda x, y, w: mg.add(x, y, where=w)), ("negative", lambda x, y, w: mg.negative(x, where=w))):
                x, y = mg.tensor(np.asarray(1.5, dtype=dt)), mg.tensor(np.asarray(0.5, dtype=dt))
                desc = dict(op=on, where=wn, dtype=np.dtype(dt).name, operands="0-d")
                b.count("I1 for 0-d operands under a 0-d where= mask")
                try:
                    of(x, y, wv).backward()
                except Exception as e:
                    b.error(f"0-d where {desc}: {type(e).__name__}: {e}")
                    continue
                i1(b, desc, {}, [x, y], name="C14.bounded.I1.where_0d")
                b.case(desc)
    return b


def main():
    ap = argparse.ArgumentParser()
    ap.add_argument("--check", required=True)
    ap.add_argument("--tier", default="quick")
    ap.add_argument("--seed", type=int, default=0)
    a = ap.parse_args()
    c = a.check
    if c in ("C01", "C05"):
        b = check_c01_c05(c, a.tier, a.seed)
    elif c == "C04":
        b = check_c04(a.tier, a.seed)
    elif c == "C04h":
        b = check_c04_histories(a.tier, a.seed)
    elif c == "C06":
        b = check_c06(a.tier, a.seed)
    elif c == "C07":
        b = check_c07(a.tier, a.seed)
    elif c == "C12":
        b = check_c12(a.tier, a.seed)
    elif c == "C14":
        b = check_c14(a.tier, a.seed)
    else:
        raise SystemExit(f"unknown check {c}")
    b.emit()


if __name__ == "__main__":
    main()
