"""C11.registry [E] — complete enumeration of the live dispatch tables after `import mygrad`."""
import json

import numpy as np

import mygrad as mg
from mygrad.tensor_base import (_REGISTERED_BOOL_ONLY_UFUNC, _REGISTERED_CONST_ONLY_UFUNC, _REGISTERED_DIFFERENTIABLE_NUMPY_FUNCS, _REGISTERED_NO_DIFF_NUMPY_FUNCS, _REGISTERED_UFUNC)

items, failures = [], []


def fail(name, detail):
    failures.append(dict(name=name, detail=detail, confirmed=True))


for uf, cls in _REGISTERED_UFUNC.items():
    op = getattr(cls, "_wrapped_op", None)
    nm = uf.__name__
    items.append(f"ufunc {nm} -> {getattr(op, '__name__', None)}")
    if op is None or getattr(op, "numpy_ufunc", None) is not uf:
        fail(f"C11.registry.ufunc.{nm}", f"_REGISTERED_UFUNC[np.{nm}] wraps {op} whose kernel is {getattr(op, 'numpy_ufunc', None)}")
    pub = getattr(mg, nm, None)
    if pub is not None and pub is not cls:
        fail(f"C11.registry.public.{nm}", f"mg.{nm} is not the registered ufunc object")
    if uf.nin != getattr(cls, "nin", uf.nin):
        fail(f"C11.registry.arity.{nm}", "arity differs")
for npf, mgf in _REGISTERED_DIFFERENTIABLE_NUMPY_FUNCS.items():
    nm = getattr(npf, "__name__", repr(npf))
    items.append(f"override {nm} -> {getattr(mgf, '__module__', '')}.{getattr(mgf, '__name__', None)}")
    if getattr(mgf, "__name__", None) != nm and nm not in ("amax", "amin", "norm", "multi_dot"):
        fail(f"C11.registry.override.{nm}", f"np.{nm} is overridden by a function called {getattr(mgf, '__name__', None)}")
sets = dict(ufunc=set(_REGISTERED_UFUNC), bool_only=set(_REGISTERED_BOOL_ONLY_UFUNC), const_only=set(_REGISTERED_CONST_ONLY_UFUNC))
for a in sets:
    for b in sets:
        if a < b and sets[a] & sets[b]:
            fail(f"C11.registry.disjoint.{a}.{b}", f"{[u.__name__ for u in sets[a] & sets[b]]} registered twice")
if set(_REGISTERED_DIFFERENTIABLE_NUMPY_FUNCS) & set(_REGISTERED_NO_DIFF_NUMPY_FUNCS):
    fail("C11.registry.disjoint.functions", "a function is both differentiable-override and no-diff")
for u in _REGISTERED_BOOL_ONLY_UFUNC | _REGISTERED_CONST_ONLY_UFUNC:
    items.append(f"{'bool-only' if u in _REGISTERED_BOOL_ONLY_UFUNC else 'const-only'} ufunc {u.__name__}")
for f in _REGISTERED_NO_DIFF_NUMPY_FUNCS:
    items.append(f"no-diff function {f.__name__}")
# Tensor methods bound in mygrad.__init__ refer to the same Operation classes as the functions (names exist)
for meth in ("sum", "prod", "cumprod", "cumsum", "mean", "std", "var", "max", "min", "swapaxes", "transpose", "moveaxis", "squeeze", "ravel", "reshape", "clip", "flatten", "argmax", "argmin", "any"):
    items.append(f"method Tensor.{meth}")
    if not callable(getattr(mg.Tensor, meth, None)):
        fail(f"C11.registry.method.{meth}", "missing Tensor method")
print(json.dumps(dict(items=items, failures=failures, note=f"{len(_REGISTERED_UFUNC)} ufuncs, {len(_REGISTERED_DIFFERENTIABLE_NUMPY_FUNCS)} overrides")))
