"""Replay of a refuted C04.shape obligation: `.shape = ...` on a member of owner -> view -> view-of-view, followed by in-place updates of
every member, mirrored on NumPy arrays."""
import itertools
import json

import numpy as np

import mygrad as mg

creators = [("[1:]", lambda t: t[1:]), ("[::-1]", lambda t: t[::-1]), (".T", lambda t: t.T), ("[:, ::2]", lambda t: t[:, ::2])]
mutators = [("[...]=c", lambda t: t.__setitem__(Ellipsis, 7.5)), ("*=c", lambda t: t.__imul__(1.5)), ("[0]=c", lambda t: t.__setitem__(0, -2.0))]
bad = []
n = 0
vals = np.arange(12.0).reshape(3, 4) + 1


def run(use_mg, c1, c2, target, member, mut):
    fam = [mg.tensor(vals.copy()) * 1.0 if use_mg else vals.copy() * 1.0]
    fam.append(creators[c1][1](fam[-1]))
    if c2 is not None:
        fam.append(creators[c2][1](fam[-1]))
    if target >= len(fam) or member >= len(fam):
        return None
    t = fam[target]
    t.shape = (1,) + tuple(t.shape)
    mutators[mut][1](fam[member])
    return fam


for c1, c2, target, member, mut in itertools.product(range(4), [None, 0, 1, 2, 3], (1, 2), (0, 1, 2), range(3)):
    try:
        ref = run(False, c1, c2, target, member, mut)
    except Exception:
        continue
    if ref is None:
        continue
    n += 1
    prog = f"x=tensor((3,4))*1; m=x{creators[c1][0]}" + (f"; y=m{creators[c2][0]}" if c2 is not None else "") + f"; member{target}.shape=(1,)+shape; member{member}{mutators[mut][0]}"
    try:
        got = run(True, c1, c2, target, member, mut)
    except Exception as e:
        bad.append(dict(program=prog, observed=f"raises {type(e).__name__}: {str(e)[:80]}"))
        continue
    for i, (g, r) in enumerate(zip(got, ref)):
        if g.shape != r.shape or not np.array_equal(g.data, r):
            bad.append(dict(program=prog, observed=f"member {i} = {g.data.tolist()}", required=r.tolist()))
            break
if bad:
    print(json.dumps(dict(confirmed=True, input=dict(cases=n), observed=bad[:3], required="every member equals its NumPy twin after the same statements")))
else:
    print(json.dumps(dict(confirmed=False, cases=n)))
