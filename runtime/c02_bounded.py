"""C02.rest [B] — bounded run-time VJP contract for the operations outside PyVC's subset.

contract (monitor on the real functions, via the public API):
    after  out = f(*tensors, **options); out.backward(g.copy())  # the seed must not be shared with the op under test (C12 is checked elsewhere)
    ensures for every non-constant operand i:
        tensors[i].grad == d/dx_i  sum(g * f_forward(x_0..x_n))       (rel 1e-5, float64)
where f_forward is MyGrad's *own* forward pass evaluated under no_autodiff and differentiated
by 4th-order central differences.  Domain: the enumerated catalogue below (exhaustive over the
listed shapes x options; values drawn with VERIF_SEED, away from kinks unless a convention is
being checked).  Labelled bounded; never counted as proved.
"""
from __future__ import annotations

import itertools
import sys

import numpy as np

import mygrad as mg
import mygrad.nnet as nn
from mygrad.nnet.layers import gru as mg_gru
from runtime.common import Bounded, close, distinct_values, num_vjp, parse_args, rng_values


def cases(rng, tier):
    """yield (name, f, [arrays], options-description, vjp_indices)"""
    S = [(2, 3), (3,), (), (2, 1, 3)]
    V = lambda shape, **k: rng_values(rng, shape, **k)  # noqa
    DV = lambda shape: distinct_values(rng, shape)  # noqa

    # ---- reductions -------------------------------------------------------------------------
    def axes_for(nd):
        ax = [None]
        ax += list(range(nd)) + [-(i + 1) for i in range(nd)]
        if nd >= 2:
            ax += [(0, 1), (1, 0), (-1, 0), tuple(range(nd))]
        ax += [()]
        return ax

    for shape in S:
        nd = len(shape)
        for ax in axes_for(nd):
            for kd in (False, True):
                for nm, fn, vals in (
                    ("sum", mg.sum, V),
                    ("mean", mg.mean, V),
                    ("prod", mg.prod, V),
                    ("max", mg.max, DV),
                    ("min", mg.min, DV),
                ):
                    if nm in ("max", "min") and ax == ():
                        continue
                    yield (f"{nm}", (lambda fn=fn, ax=ax, kd=kd: lambda x: fn(x, axis=ax, keepdims=kd))(), [vals(shape)], dict(axis=ax, keepdims=kd, shape=shape), None)
                for nm, fn in (("var", mg.var), ("std", mg.std)):
                    for ddof in (0, 1):
                        n_red = int(np.prod([shape[a] for a in (range(nd) if ax is None else (ax if isinstance(ax, tuple) else (ax,)))])) if nd else 1
                        if n_red - ddof <= 0 or (nm == "std" and n_red < 2):
                            continue
                        yield (f"{nm}", (lambda fn=fn, ax=ax, kd=kd, ddof=ddof: lambda x: fn(x, axis=ax, keepdims=kd, ddof=ddof))(), [DV(shape)], dict(axis=ax, keepdims=kd, ddof=ddof, shape=shape), None)
        # cumulative
        for ax in [None] + list(range(nd)) + [-(i + 1) for i in range(nd)]:
            if nd == 0 and ax is not None:
                continue
            yield ("cumsum", (lambda ax=ax: lambda x: mg.cumsum(x, axis=ax))(), [V(shape)], dict(axis=ax, shape=shape), None)
            yield ("cumprod", (lambda ax=ax: lambda x: mg.cumprod(x, axis=ax))(), [V(shape)], dict(axis=ax, shape=shape), None)
    # prod / cumprod with zeros on a reduced line (one zero, two zeros)
    for zeros in ([1], [0, 2], [0, 1, 2]):
        x = V((2, 3), away_from=(0,))
        x[0, zeros] = 0.0
        for ax in (None, 0, 1, (0, 1)):
            yield ("prod", (lambda ax=ax: lambda t: mg.prod(t, axis=ax))(), [x.copy()], dict(axis=ax, zeros=zeros), None)
        for ax in (None, 0, 1):
            yield ("cumprod", (lambda ax=ax: lambda t: mg.cumprod(t, axis=ax))(), [x.copy()], dict(axis=ax, zeros=zeros), None)
    # non-contiguous operands
    base = V((3, 4))
    for nm, fn in (("sum", lambda t: mg.sum(t, axis=0)), ("prod", lambda t: mg.prod(t, axis=1)), ("max", lambda t: mg.max(t, axis=0)), ("cumsum", lambda t: mg.cumsum(t, axis=1))):
        yield (nm, fn, [np.asarray(DV((4, 3)).T)], dict(layout="transposed"), None)
        yield (nm, fn, [DV((3, 8))[:, ::2]], dict(layout="strided"), None)

    # ---- matmul / einsum / norm ---------------------------------------------------------------
    for sa, sb in [((3,), (3,)), ((2, 3), (3,)), ((3,), (3, 2)), ((2, 3), (3, 4)), ((2, 2, 3), (3, 2)), ((2, 1, 2, 3), (3, 3, 2)), ((2, 2, 3), (2, 3, 2)), ((3,), (2, 3, 2)), ((2, 2, 3), (3,))]:
        yield ("matmul", lambda a, b: mg.matmul(a, b), [V(sa), V(sb)], dict(shapes=(sa, sb)), None)
    for spec, shapes in [
        ("ij,jk->ik", [(2, 3), (3, 2)]), ("ii->i", [(3, 3)]), ("ii", [(3, 3)]), ("ij->ji", [(2, 3)]), ("i,i->", [(3,), (3,)]),
        ("ij,ij->", [(2, 3), (2, 3)]), ("bij,bjk->bik", [(2, 2, 3), (2, 3, 2)]), ("...i,...i->...", [(2, 3), (2, 3)]),
        ("ij->", [(2, 3)]), ("i,j->ij", [(2,), (3,)]), ("ij,j->i", [(2, 3), (3,)]), ("ijk->kji", [(2, 1, 3)]), ("ij,ij,ij->ij", [(2, 3)] * 3),
        ("i,i,i->", [(3,)] * 3), ("ij->i", [(2, 3)]), ("iij->j", [(2, 2, 3)]), ("i->", [(3,)]), ("ij,kj->ik", [(2, 3), (4, 3)]), ("...,...->...", [(2, 3), (3,)]),
    ]:
        yield ("einsum", (lambda spec=spec: lambda *a: mg.einsum(spec, *a))(), [V(s) for s in shapes], dict(spec=spec), None)
        yield ("einsum", (lambda spec=spec: lambda *a: mg.einsum(spec, *a, optimize=True))(), [V(s) for s in shapes], dict(spec=spec, optimize=True), None)
    # one tensor at several operand positions of one einsum, labels permuted / identical, a further operand breaking the symmetry
    yield ("einsum", lambda a, b: mg.einsum("ij,ji,j->", a, a, b), [V((3, 3)), V((3,))], dict(spec="ij,ji,j->", repeated_operand="permuted labels"), None)
    yield ("einsum", lambda a, b: mg.einsum("ij,ij,j->", a, a, b), [V((3, 3)), V((3,))], dict(spec="ij,ij,j->", repeated_operand="identical labels"), None)
    yield ("einsum", lambda a, b: mg.einsum("ij,ji->ij", a, a) * b, [V((3, 3)), V((3, 3))], dict(spec="ij,ji->ij", repeated_operand="permuted labels, weighted output"), None)
    yield ("einsum", lambda a, b: mg.einsum("ijk,k,kji->i", a, b, a), [V((2, 3, 2)), V((2,))], dict(spec="ijk,k,kji->i", repeated_operand="positions 0 and 2"), None)
    for ordv in (None, 1, 2, 3, 0.5, 4.0):
        for shape, axes in [((3,), [None, 0, -1]), ((2, 3), [0, 1, -1]), ((2, 1, 3), [0, 2, -2])]:
            for ax in axes:
                for kd in (False, True):
                    if len(shape) > 1 and ax is None:
                        continue
                    yield ("norm", (lambda o=ordv, ax=ax, kd=kd: lambda x: mg.linalg.norm(x, ord=o, axis=ax, keepdims=kd))(), [V(shape, away_from=(0,))], dict(ord=ordv, axis=ax, keepdims=kd, shape=shape), None)

    # ---- indexing ---------------------------------------------------------------------------
    x34 = (3, 4)
    idxs = [
        (slice(None),), (1,), (-1, slice(None, None, -1)), (slice(0, 3, 2), slice(1, None)), (Ellipsis, 0), (None, 1, None), (slice(None), None, slice(None, None, 2)),
        ([0, 2],), ([0, 0, 2],), ([0, 2], [1, 1]), (np.array([[0, 1], [2, 2]]),), (np.array([True, False, True]),), (slice(None), [1, 1, 3]),
        (np.array([[True, False, True, False]] * 3),), (1, [0, 0]), (slice(None, None, -1), slice(None, None, -2)), ((),),
    ]
    for ix in idxs:
        key = ix if len(ix) != 1 else ix[0]
        yield ("getitem", (lambda key=key: lambda t: t[key])(), [V(x34)], dict(index=repr(key)), None)
    yield ("getitem", lambda t: t[()], [V(())], dict(index="()"), None)
    yield ("getitem", lambda t: t[...], [V(())], dict(index="..."), None)
    yield ("getitem", lambda t: t[None], [V(())], dict(index="None"), None)

    # setitem as a differentiable function of (target, value)
    def setter(key):
        def f(t, v):
            t = +t  # non-leaf copy so the public tensors keep their roles
            t[key] = v
            return t
        return f

    for key, vshape in [
        ((slice(None),), (3, 4)), ((1,), (4,)), ((1,), ()), ((slice(0, 3, 2), slice(1, None)), (2, 3)), ((slice(0, 3, 2), slice(1, None)), (3,)), ((Ellipsis, 0), (3,)),
        (([0, 2],), (2, 4)), (([0, 2], [1, 1]), (2,)), ((np.array([True, False, True]),), (2, 4)), ((np.array([True, False, True]),), (4,)),
        ((np.array([[True, False, True, False]] * 3),), (6,)), ((np.array([[True, False, True, False]] * 3),), ()), ((slice(None), [1, 3]), (3, 2)), ((slice(None), [1, 3]), (1, 2)),
        ((1, 2), ()), ((slice(None, None, -1),), (3, 4)), ((slice(None), None), (3, 1, 4)), ((slice(None), None), (4,)),
    ]:
        k = key if len(key) != 1 else key[0]
        yield ("setitem", setter(k), [V(x34), V(vshape)], dict(index=repr(k), value_shape=vshape), None)
    # repeated integer indices: last write wins, overwritten sources get zero gradient
    yield ("setitem", setter(([0, 0, 2],)), [V(x34), V((3, 4))], dict(index="[0,0,2]", repeated=True), None)
    yield ("setitem", setter(([0, 0], [1, 1])), [V(x34), V((2,))], dict(index="([0,0],[1,1])", repeated=True), None)

    # ---- shape manipulation ---------------------------------------------------------------------
    yield ("reshape", lambda t: mg.reshape(t, (3, 2)), [V((2, 3))], {}, None)
    yield ("reshape", lambda t: t.reshape(-1), [V((2, 3))], dict(newshape=-1), None)
    yield ("reshape", lambda t: t.reshape(1, 1), [V(())], dict(newshape=(1, 1)), None)
    yield ("reshape", lambda t: mg.reshape(t, (6,)), [np.asarray(V((3, 2)).T)], dict(layout="transposed"), None)
    yield ("squeeze", lambda t: mg.squeeze(t), [V((2, 1, 3))], {}, None)
    yield ("squeeze", lambda t: mg.squeeze(t, axis=1), [V((2, 1, 3))], dict(axis=1), None)
    yield ("squeeze", lambda t: mg.squeeze(t, axis=-2), [V((2, 1, 3))], dict(axis=-2), None)
    yield ("ravel", lambda t: mg.ravel(t), [V((2, 3))], {}, None)
    yield ("ravel", lambda t: mg.ravel(t), [np.asarray(V((3, 2)).T)], dict(layout="transposed"), None)
    yield ("flatten", lambda t: t.flatten(), [V((2, 3))], {}, None)
    for ax in (0, 1, -1, 2):
        yield ("expand_dims", (lambda ax=ax: lambda t: mg.expand_dims(t, ax))(), [V((2, 3))], dict(axis=ax), None)
    for shp, to in [((3,), (2, 3)), ((), (2, 2)), ((1, 3), (2, 3)), ((2, 1, 3), (2, 2, 3)), ((2, 1, 3), (4, 2, 5, 3))]:
        yield ("broadcast_to", (lambda to=to: lambda t: mg.broadcast_to(t, to))(), [V(shp)], dict(frm=shp, to=to), None)
    for fn in (mg.atleast_1d, mg.atleast_2d, mg.atleast_3d):
        for shp in ((), (3,), (2, 3)):
            yield (fn.__name__, fn, [V(shp)], dict(shape=shp), None)
    for axes in (None, (1, 0, 2), (2, 0, 1), (-1, -3, -2), (0, 1, 2)):
        yield ("transpose", (lambda axes=axes: lambda t: mg.transpose(t, axes) if axes is not None else mg.transpose(t))(), [V((2, 1, 3))], dict(axes=axes), None)
        if axes is not None:
            yield ("transpose", (lambda axes=axes: lambda t: t.transpose(*axes))(), [V((2, 1, 3))], dict(axes=axes, method=True), None)
    yield ("T", lambda t: t.T, [V((2, 3))], {}, None)
    yield ("T", lambda t: t.T, [V((2, 1, 3))], {}, None)
    yield ("T", lambda t: t.T, [V((3,))], {}, None)
    for s, d in [(0, 2), (-1, 0), ((0, 1), (1, 2)), ((0, 2), (2, 0)), (1, 1)]:
        yield ("moveaxis", (lambda s=s, d=d: lambda t: mg.moveaxis(t, s, d))(), [V((2, 1, 3))], dict(source=s, destination=d), None)
    for a1, a2 in [(0, 2), (-1, 0), (1, 1), (2, 1)]:
        yield ("swapaxes", (lambda a1=a1, a2=a2: lambda t: mg.swapaxes(t, a1, a2))(), [V((2, 1, 3))], dict(axis1=a1, axis2=a2), None)
    for sh, ax in [(1, None), (-2, None), (1, 0), (2, 1), ((1, 2), (0, 1)), (7, -1), ((1, 1), (1, 1)), (3, (0, 1))]:
        yield ("roll", (lambda sh=sh, ax=ax: lambda t: mg.roll(t, sh, axis=ax))(), [V((2, 3))], dict(shift=sh, axis=ax), None)
    # joining
    for ax in (0, 1, -1, None):
        shapes = [(2, 3), (2, 3)] if ax in (None,) else ([(2, 3), (1, 3), (3, 3)] if ax == 0 else [(2, 3), (2, 1), (2, 2)])
        yield ("concatenate", (lambda ax=ax: lambda *ts: mg.concatenate(ts, axis=ax))(), [V(s) for s in shapes], dict(axis=ax, shapes=shapes), None)
    for ax in (0, 1, -1, 2):
        yield ("stack", (lambda ax=ax: lambda *ts: mg.stack(ts, axis=ax))(), [V((2, 3)) for _ in range(3)], dict(axis=ax), None)
    yield ("stack", lambda a: mg.stack((a, a), axis=0), [V((2, 3))], dict(repeated_operand=True), None)
    yield ("concatenate", lambda a: mg.concatenate((a, a, a), axis=1), [V((2, 3))], dict(repeated_operand=True), None)
    for rep, ax in [(2, None), (2, 0), (3, 1), ([1, 2], 0), ([2, 0, 1], 1), (1, -1), ([0, 3], 0)]:
        yield ("repeat", (lambda rep=rep, ax=ax: lambda t: mg.repeat(t, rep, axis=ax))(), [V((2, 3))], dict(repeats=rep, axis=ax), None)
    yield ("repeat", lambda t: mg.repeat(t, 3), [V(())], dict(repeats=3, shape=()), None)
    # 0-d operands of reductions with an explicit axis / keepdims (whatever the forward pass accepts, the backward pass must differentiate)
    for nm0, fn0 in [("sum", lambda t: mg.sum(t, axis=0)), ("sum", lambda t: mg.sum(t, axis=-1)), ("sum", lambda t: mg.sum(t, axis=0, keepdims=True)), ("sum", lambda t: mg.sum(t, axis=())), ("prod", lambda t: mg.prod(t, axis=0)),
                     ("max", lambda t: mg.max(t, axis=0)), ("min", lambda t: mg.min(t, axis=-1)), ("mean", lambda t: mg.mean(t, axis=())), ("cumsum", lambda t: mg.cumsum(t)), ("cumprod", lambda t: mg.cumprod(t)), ("sum", lambda t: t.sum(0))]:
        try:
            with mg.no_autodiff:
                fn0(mg.tensor(1.5))
        except Exception:
            continue  # the forward pass refuses this spelling for a 0-d operand: not a case
        yield (nm0, fn0, [V(())], dict(operand="0-d", call=nm0, note="explicit axis on a 0-d tensor"), None)
    # integer arguments in every representation NumPy accepts (NumPy integer scalars, 0-d / length-1 arrays, tuples)
    for rep, ax in [(np.int64(2), 0), (np.int32(3), None), (np.array(2), 1), (np.array([2]), 0), ([3], 1), ((1, 2), 0), (np.array([1, 2]), 0), (np.int64(0), 0), (np.array([2, 0, 1]), np.int64(1))]:
        yield ("repeat", (lambda rep=rep, ax=ax: lambda t: mg.repeat(t, rep, axis=ax))(), [V((2, 3))], dict(repeats=repr(rep), axis=repr(ax), representation=type(rep).__name__), None)
    i64 = np.int64
    for nm, fn in [
        ("sum", lambda t: mg.sum(t, axis=i64(1))), ("mean", lambda t: mg.mean(t, axis=(i64(0),))), ("max", lambda t: mg.max(t, axis=i64(0))), ("prod", lambda t: mg.prod(t, axis=i64(-1))),
        ("cumsum", lambda t: mg.cumsum(t, axis=i64(1))), ("cumprod", lambda t: mg.cumprod(t, axis=i64(0))), ("var", lambda t: mg.var(t, axis=i64(1), ddof=i64(1))), ("std", lambda t: mg.std(t, axis=i64(0))),
        ("reshape", lambda t: t.reshape(i64(3), i64(2))), ("reshape", lambda t: mg.reshape(t, np.array([3, 2]))), ("roll", lambda t: mg.roll(t, i64(1), axis=i64(0))), ("roll", lambda t: mg.roll(t, np.array([1, 2]), axis=(0, 1))),
        ("moveaxis", lambda t: mg.moveaxis(t, i64(0), i64(-1))), ("swapaxes", lambda t: mg.swapaxes(t, i64(0), i64(1))), ("expand_dims", lambda t: mg.expand_dims(t, i64(1))), ("transpose", lambda t: mg.transpose(t, np.array([1, 0]))),
        ("squeeze", lambda t: mg.squeeze(t[None], axis=i64(0))), ("stack", lambda t: mg.stack((t, t * 2.0), axis=i64(1))), ("concatenate", lambda t: mg.concatenate((t, t * 2.0), axis=i64(1))),
        ("getitem", lambda t: t[i64(1)]), ("getitem", lambda t: t[np.array(1)]), ("getitem", lambda t: t[i64(0), i64(1):i64(3)]), ("broadcast_to", lambda t: mg.broadcast_to(t, (i64(2), i64(2), i64(3)))),
        ("tile-like repeat", lambda t: mg.repeat(t, i64(2))), ("flatten", lambda t: t.flatten()), ("einsum", lambda t: mg.einsum("ij->j", t)),
        # unsigned / 0-d / boolean representations of a shift (negating them must not wrap or iterate)
        ("roll", lambda t: mg.roll(t, np.uint8(1))), ("roll", lambda t: mg.roll(t, np.uint8(1), axis=1)), ("roll", lambda t: mg.roll(t, np.uint16(2), axis=np.uint8(1))), ("roll", lambda t: mg.roll(t, np.array(1))),
        ("roll", lambda t: mg.roll(t, np.array(2), axis=1)), ("roll", lambda t: mg.roll(t, np.array([1, 2], dtype=np.uint8), axis=(0, 1))), ("roll", lambda t: mg.roll(t, (np.uint8(1), np.uint8(2)), axis=(0, 1))),
        ("roll", lambda t: mg.roll(t, np.uint64(1), axis=1)), ("roll", lambda t: mg.roll(t, True, axis=1)), ("repeat", lambda t: mg.repeat(t, np.uint8(2), axis=0)), ("repeat", lambda t: mg.repeat(t, np.array([1, 2], dtype=np.uint8), axis=0)),
    ]:
        yield (nm, fn, [V((2, 3))], dict(argument_types="numpy integers / integer arrays", call=nm), None)

    # ---- where / clip / ties / broadcasting / masks ----------------------------------------------
    cond = np.array([[True, False, True], [False, False, True]])
    yield ("where", lambda a, b: mg.where(cond, a, b), [V((2, 3)), V((2, 3))], {}, None)
    yield ("where", lambda a, b: mg.where(cond, a, b), [V((3,)), V(())], dict(broadcast=True), None)
    yield ("where", lambda a, b: mg.where(cond[0], a, b), [V((2, 1)), V((1, 3))], dict(broadcast="mutual"), None)
    yield ("clip", lambda a: mg.clip(a, -0.5, 0.7), [V((2, 3), away_from=(-0.5, 0.7))], {}, None)
    yield ("clip", lambda a: mg.clip(a, None, 0.7), [V((2, 3), away_from=(0.7,))], dict(a_min=None), None)
    yield ("clip", lambda a: mg.clip(a, -0.5, None), [V((2, 3), away_from=(-0.5,))], dict(a_max=None), None)
    yield ("clip", lambda a, lo, hi: mg.clip(a, lo, hi), [DV((2, 3)), np.full((3,), -0.55), np.full((2, 1), 0.61)], dict(tensor_bounds=True), [0])
    # broadcasting of each operand through binary ufuncs, incl. where= masks and repeated operands
    mask = np.array([[True, False, True], [True, True, False]])
    for nm, fn, kw in (("add", mg.add, {}), ("multiply", mg.multiply, {}), ("divide", mg.divide, dict(away_from=(0,))), ("subtract", mg.subtract, {}), ("power", mg.power, dict(lo=0.5, hi=2.0)), ("arctan2", mg.arctan2, dict(away_from=(0,))), ("logaddexp", mg.logaddexp, {}), ("maximum", mg.maximum, {}), ("minimum", mg.minimum, {})):
        for sa, sb in [((2, 3), (3,)), ((), (2, 3)), ((2, 1), (1, 3)), ((2, 3), (2, 3)), ((1,), (2, 1, 3)), ((2, 3), ())]:
            vals = DV if nm in ("maximum", "minimum") else (lambda s, kw=kw: V(s, **kw))
            a, b = vals(sa), vals(sb)
            if nm in ("maximum", "minimum"):
                b = np.asarray(b + 0.013)
            yield (nm, fn, [a, b], dict(shapes=(sa, sb)), None)
        yield (nm, (lambda fn=fn: lambda a: fn(a, a))(), [V((2, 3), **{k: v for k, v in kw.items()})] if nm not in ("maximum", "minimum") else [DV((2, 3))], dict(repeated_operand=True), None) if nm not in ("maximum", "minimum") else (nm + "-tie-self", (lambda fn=fn: lambda a: fn(a, a))(), [DV((2, 3))], dict(repeated_operand=True, convention="ties->0"), "TIES")
    # corners of the domain where the derivative exists although the generic formula needs care: zero (and negative) bases under
    # exponents that are exact positive integers -- x**1 is x, x**2 is x*x, ...: d/dx exists everywhere
    zb = np.array([[0.0, 1.5, 0.0], [2.0, 0.0, -1.25]])
    for ev in (np.array([1.0, 2.0, 3.0]), np.array(1.0), np.array(2.0), np.array([[1.0], [3.0]])):
        yield ("power", lambda a, e: mg.power(a, e), [zb.copy(), ev], dict(corner="zero/negative base, exact integer exponent", exponent=np.asarray(ev).tolist()), [0])
    yield ("power", lambda a: mg.power(a, 1.0), [zb.copy()], dict(corner="zero base, python exponent 1.0"), None)
    yield ("power", lambda a: mg.power(a, 3), [zb.copy()], dict(corner="zero base, python exponent 3"), None)
    yield ("multiply", lambda a, c: mg.multiply(a, c), [zb.copy(), zb.T.copy().T * 0.0], dict(corner="zero operands"), None)
    yield ("square", lambda a: mg.square(a), [zb.copy()], dict(corner="zero operand"), None)
    yield ("cbrt-away", lambda a: mg.cbrt(a), [np.array([1.0, -8.0, 0.125])], dict(corner="negative operand"), None)
    # where= mask with out= (in-place semantics): masked-out positions keep/flow to old contents
    def masked(fn):
        def f(a, b, o):
            o = +o
            fn(a, b, where=mask, out=o)
            return o
        return f

    for nm, fn in (("add", mg.add), ("multiply", mg.multiply), ("divide", mg.divide)):
        yield (nm + "[where,out]", masked(fn), [V((2, 3), away_from=(0,)), V((3,), away_from=(0,)), V((2, 3))], dict(where=True, out=True), None)

    def masked1(fn):
        def f(a, o):
            o = +o
            fn(a, where=mask, out=o)
            return o
        return f

    for nm, fn in (("exp", mg.exp), ("sin", mg.sin), ("square", mg.square), ("sqrt", mg.sqrt)):
        yield (nm + "[where,out]", masked1(fn), [V((2, 3), lo=0.3, hi=2.0), V((2, 3))], dict(where=True, out=True), None)
    # conventions at non-differentiable points
    yield ("abs@0", lambda a: mg.abs(a), [np.array([-1.0, 0.0, 2.0])], dict(convention="0 at 0"), "ABS0")
    yield ("maximum@tie", lambda a, b: mg.maximum(a, b), [np.array([1.0, 2.0, 3.0]), np.array([1.0, 0.0, 3.0])], dict(convention="ties->0"), "TIES")
    yield ("minimum@tie", lambda a, b: mg.minimum(a, b), [np.array([1.0, 2.0, 3.0]), np.array([1.0, 0.0, 3.0])], dict(convention="ties->0"), "TIES")
    yield ("arcsin@1", lambda a: mg.arcsin(a), [np.array([-1.0, 0.3, 1.0])], dict(convention="0 at +-1"), "PM1")
    yield ("arccos@1", lambda a: mg.arccos(a), [np.array([-1.0, 0.3, 1.0])], dict(convention="0 at +-1"), "PM1")
    # sequence ops
    yield ("add_sequence", lambda a, b, c: mg.add_sequence(a, b, c), [V((2, 3)), V((3,)), V(())], {}, None)
    yield ("multiply_sequence", lambda a, b, c: mg.multiply_sequence(a, b, c), [V((2, 3), away_from=(0,)), V((3,), away_from=(0,)), V((), away_from=(0,))], {}, None)
    z = V((2, 3), away_from=(0,))
    z[0, 1] = 0.0
    yield ("multiply_sequence", lambda a, b, c: mg.multiply_sequence(a, b, c), [z, V((2, 3), away_from=(0,)), V((2, 3), away_from=(0,))], dict(zeros=True), None)
    yield ("multi_matmul", lambda a, b, c: mg.multi_matmul((a, b, c)), [V((2, 3)), V((3, 4)), V((4, 2))], {}, None)

    # ---- nnet -----------------------------------------------------------------------------------
    for ax in (-1, 0, 1, None, (0, 1)):
        yield ("softmax", (lambda ax=ax: lambda x: nn.softmax(x, axis=ax))(), [V((2, 3))], dict(axis=ax), None)
        yield ("logsoftmax", (lambda ax=ax: lambda x: nn.logsoftmax(x, axis=ax))(), [V((2, 3))], dict(axis=ax), None)
    yield ("softmax", lambda x: nn.softmax(x), [V((3,))], dict(shape=(3,)), None)
    yield ("softmax", lambda x: nn.softmax(x), [V(())], dict(shape=()), None)
    yield ("logsoftmax", lambda x: nn.logsoftmax(x), [V((2, 2, 3))], dict(shape=(2, 2, 3)), None)
    tgt = np.array([0, 2, 1, 1])
    yield ("softmax_crossentropy", lambda x: nn.softmax_crossentropy(x, tgt), [V((4, 3))], {}, None)
    yield ("negative_log_likelihood", lambda x: nn.negative_log_likelihood(x, tgt), [V((4, 3))], {}, None)
    yield ("negative_log_likelihood", lambda x, w: nn.negative_log_likelihood(x, tgt, weights=w), [V((4, 3)), V((3,), lo=0.2, hi=1.5)], dict(weights=True), [0])
    yield ("multiclass_hinge", lambda x: nn.multiclass_hinge(x, tgt), [DV((4, 3)) * 3], {}, None)
    yield ("multiclass_hinge", lambda x: nn.multiclass_hinge(x, tgt, hinge=0.3), [DV((4, 3)) * 3], dict(hinge=0.3), None)
    for alpha, gamma in [(1, 0), (0.7, 2.0), (1, 1), (2.0, 0.5)]:
        yield ("softmax_focal_loss", (lambda alpha=alpha, gamma=gamma: lambda x: nn.softmax_focal_loss(x, tgt, alpha=alpha, gamma=gamma))(), [V((4, 3))], dict(alpha=alpha, gamma=gamma), None)
        probs = rng.uniform(0.1, 0.9, size=(4, 3))
        probs = probs / probs.sum(axis=1, keepdims=True)
        yield ("focal_loss", (lambda alpha=alpha, gamma=gamma: lambda p: nn.focal_loss(p, tgt, alpha=alpha, gamma=gamma))(), [probs], dict(alpha=alpha, gamma=gamma), None)
    y = np.array([1, -1, 1, -1])
    yield ("margin_ranking_loss", lambda a, b: nn.margin_ranking_loss(a, b, y, 0.5), [DV((4,)) * 2, DV((4,)) * 2 + 0.07], {}, None)
    yield ("margin_ranking_loss", lambda a, b: nn.margin_ranking_loss(a, b, y, 0.5), [DV((4, 2)) * 2, DV((4, 2)) * 2 + 0.07], dict(ndim=2), None)
    yield ("margin_ranking_loss", lambda a, b: nn.margin_ranking_loss(a, b, 1, 0.5), [DV((4,)) * 2, DV((4,)) * 2 + 0.07], dict(y="scalar"), None)
    for fn, kw in ((nn.relu, {}), (nn.sigmoid, {}), (nn.tanh, {}), (nn.soft_sign, {}), (nn.selu, {}), (nn.hard_tanh, {})):
        yield (fn.__name__, fn, [V((2, 3), away_from=(0, -1, 1))], {}, None)
    yield ("leaky_relu", lambda x: nn.leaky_relu(x, 0.1), [V((2, 3), away_from=(0,))], dict(slope=0.1), None)
    yield ("elu", lambda x: nn.elu(x, 0.7), [V((2, 3), away_from=(0,))], dict(alpha=0.7), None)
    yield ("hard_tanh", lambda x: nn.hard_tanh(x, lower_bound=-0.5, upper_bound=0.8), [V((2, 3), away_from=(-0.5, 0.8))], dict(bounds=(-0.5, 0.8)), None)
    for ax in (-1, 0, 1):
        yield ("glu", (lambda ax=ax: lambda x: nn.glu(x, axis=ax))(), [V((2, 4))], dict(axis=ax), None)
    # conv / pool / batchnorm / gru
    for (xs, ws, st, pad, dil) in [
        ((1, 1, 5), (1, 1, 3), 1, 0, 1), ((2, 2, 6), (3, 2, 2), 2, 0, 1), ((1, 2, 5), (2, 2, 3), 2, 1, 1), ((1, 1, 7), (1, 1, 3), 1, 0, 2), ((1, 1, 7), (2, 1, 2), 2, 1, 2),
        ((1, 1, 4, 4), (1, 1, 2, 2), 2, 0, 1), ((2, 2, 5, 4), (2, 2, 3, 2), (2, 1), (1, 0), 1), ((1, 1, 5, 5), (1, 1, 2, 2), 1, 0, (2, 1)), ((1, 2, 3, 3), (2, 2, 3, 3), 1, 1, 1),
        ((1, 1, 3, 3, 3), (1, 1, 2, 2, 2), 1, 0, 1),
    ]:
        yield ("conv_nd", (lambda st=st, pad=pad, dil=dil: lambda x, w: nn.conv_nd(x, w, stride=st, padding=pad, dilation=dil))(), [V(xs), V(ws)], dict(x=xs, w=ws, stride=st, padding=pad, dilation=dil), None)
    for (xs, pool, st) in [((1, 1, 4), (2,), 2), ((2, 2, 5), (3,), 1), ((1, 1, 4, 6), (2, 3), (2, 3)), ((2, 1, 5, 5), (3, 3), 2), ((1, 2, 4, 4), (2, 2), 1), ((3, 4), (2,), 2), ((2, 3, 4, 4), (1, 2, 2), (1, 2, 2))]:
        yield ("max_pool", (lambda pool=pool, st=st: lambda x: nn.max_pool(x, pool, st))(), [DV(xs)], dict(x=xs, pool=pool, stride=st), None)
    # generated grid: per pooled axis every valid (size, pool, stride) with size 4..6, pool 1..3, stride 1..4; two pooled axes combine the
    # per-axis relations stride <, =, > pool in every way (overlapping windows on one axis and gaps on the other, ...)
    per_axis = [(n_, p_, s_) for n_ in (4, 5, 6) for p_ in (1, 2, 3) for s_ in (1, 2, 3, 4) if (n_ - p_) % s_ == 0]
    rel = lambda t: (t[2] > t[1]) - (t[2] < t[1])  # noqa
    seen_rel = {}
    for a0 in per_axis:
        for a1 in per_axis:
            key = (rel(a0), rel(a1))
            if tier == "quick" and seen_rel.get(key, 0) >= 3:
                continue
            seen_rel[key] = seen_rel.get(key, 0) + 1
            xs, pool, st = (2, a0[0], a1[0]), (a0[1], a1[1]), (a0[2], a1[2])
            yield ("max_pool", (lambda pool=pool, st=st: lambda x: nn.max_pool(x, pool, st))(), [DV(xs)], dict(x=xs, pool=pool, stride=st, grid=True), None)
    # conv_nd: per-axis stride / padding / dilation tuples in every combination that is valid and inside sliding_window_view's acceptance rule
    import itertools as _it

    n_conv = 0
    for ws_, st, pad, dil in _it.product(((2, 3), (3, 2), (1, 2)), (1, 2, (2, 1), (1, 2), (3, 1)), (0, 1, (1, 0), (0, 2), (2, 1)), (1, 2, (2, 1), (1, 2))):
        tup = lambda v: v if isinstance(v, tuple) else (v, v)  # noqa
        x_sp = (5, 6)
        okc = all((x_ + 2 * p_ - ((w_ - 1) * d_ + 1)) >= 0 and (x_ + 2 * p_ - ((w_ - 1) * d_ + 1)) % s_ == 0 and w_ * d_ <= x_ + 2 * p_ for x_, w_, s_, p_, d_ in zip(x_sp, ws_, tup(st), tup(pad), tup(dil)))
        if not okc:
            continue
        n_conv += 1
        if tier == "quick" and n_conv % 4 != 1:
            continue
        xs, ws = (1, 2) + x_sp, (2, 2) + ws_
        yield ("conv_nd", (lambda st=st, pad=pad, dil=dil: lambda x, w: nn.conv_nd(x, w, stride=st, padding=pad, dilation=dil))(), [V(xs), V(ws)], dict(x=xs, w=ws, stride=st, padding=pad, dilation=dil, grid=True), None)
    for xs in ((4, 3), (3, 2, 4), (2, 2, 3, 2)):
        C = xs[1]
        yield ("batchnorm", lambda x: nn.batchnorm(x, eps=1e-3), [DV(xs)], dict(x=xs), None)
        yield ("batchnorm", lambda x, gm, bt: nn.batchnorm(x, gamma=gm, beta=bt, eps=1e-3), [DV(xs), V((C,), away_from=(0,)), V((C,))], dict(x=xs, gamma=True, beta=True), None)
        yield ("batchnorm", lambda x, gm: nn.batchnorm(x, gamma=gm, eps=1e-3), [DV(xs), V((C,), away_from=(0,))], dict(x=xs, gamma=True), None)
        yield ("batchnorm", lambda x, bt: nn.batchnorm(x, beta=bt, eps=1e-3), [DV(xs), V((C,))], dict(x=xs, beta=True), None)
    for (T, N, C, D) in ([(1, 1, 2, 2), (2, 2, 2, 3), (3, 1, 3, 2)] if tier == "quick" else [(1, 1, 2, 2), (2, 2, 2, 3), (3, 1, 3, 2), (3, 2, 2, 2), (4, 1, 1, 1)]):
        def g(X, Uz, Wz, bz, Ur, Wr, br, Uh, Wh, bh, s0):
            return mg_gru(X, Uz, Wz, bz, Ur, Wr, br, Uh, Wh, bh, s0=s0.data if hasattr(s0, "data") else s0)

        arrs = [V((T, N, C))]
        for _ in range(3):
            arrs += [V((C, D)) * 0.5, V((D, D)) * 0.5, V((D,)) * 0.5]
        arrs.append(V((N, D)) * 0.5)
        yield ("gru", g, arrs, dict(T=T, N=N, C=C, D=D), list(range(10)))


def convention_expected(kind, xs, g, i):
    """Expected gradient at the documented non-differentiable conventions."""
    if kind == "ABS0":
        x = xs[0]
        return g * np.sign(x)
    if kind == "TIES":
        a = xs[0]
        b = xs[1] if len(xs) > 1 else xs[0]
        return None, (a == b)
    if kind == "PM1":
        return None, (np.abs(xs[0]) == 1)
    return None


def layout_variants(arrs):
    """every catalogue case is also run with each >=2-d float operand Fortran-ordered and as a strided view"""
    yield "C", arrs
    if any(isinstance(a, np.ndarray) and a.ndim >= 2 and a.dtype.kind == "f" for a in arrs):
        yield "F", [np.asfortranarray(a) if (isinstance(a, np.ndarray) and a.ndim >= 2 and a.dtype.kind == "f") else a for a in arrs]
        out = []
        for a in arrs:
            if isinstance(a, np.ndarray) and a.ndim >= 2 and a.dtype.kind == "f" and a.size:
                big = np.zeros(tuple(2 * s for s in a.shape), dtype=a.dtype)
                view = big[tuple(slice(None, None, 2) for _ in a.shape)]
                view[...] = a
                out.append(view)
            else:
                out.append(a)
        yield "strided", out


def run_shard(tier, seed, only, rank, nproc):
    rng = np.random.default_rng(seed)
    b = Bounded(
        "C02.rest",
        bound="catalogue of %s (shapes (2,3),(3,),(),(2,1,3); every axis incl. negative/tuple/empty; keepdims; ddof 0/1; zeros for prod/cumprod; "
        "every case with C-ordered, Fortran-ordered and strided-view operands; where=/out= masks; broadcasting pairs; conv/pool/batchnorm/gru small configs); values seeded" % ("quick" if tier == "quick" else "thorough (3 value draws per case)"),
        rule="case = (function, options, operand shapes, operand layout); non-trivial = at least one float operand with a non-empty gradient compared against the numeric VJP of the op's own forward",
    )
    reps = 1 if tier == "quick" else 3
    n = -1
    for rep in range(reps):
        for (name, f, arrs0, opts, sel) in cases(rng, tier):
            if only and only not in name:
                continue
            for layout, arrs in layout_variants(arrs0):
              n += 1
              if n % nproc != rank:
                  continue
              desc = dict(fn=name, opts={k: repr(v) for k, v in opts.items()}, shapes=[list(np.shape(a)) for a in arrs], layout=layout)
              try:
                ts = [mg.tensor(a, constant=False, copy=(layout == "C")) for a in arrs]
                out = f(*ts)
                if not isinstance(out, mg.Tensor):
                    b.error(f"{name}: result is not a Tensor")
                    continue
                g = rng.uniform(0.5, 1.5, size=out.shape) * rng.choice([-1.0, 1.0], size=out.shape)
                try:
                    out.backward(g.copy())  # the seed must not be shared with the op under test (C12 is checked elsewhere)
                except Exception as e:
                    # the forward pass accepted these arguments: a backward pass that raises is not the VJP of anything
                    b.count("vjp")
                    b.fail(f"C02.rest.{name}.backward_raises", dict(desc, values=[np.asarray(a).tolist() for a in arrs]), f"forward accepted the call, backward raises {type(e).__name__}: {e}")
                    b.case(desc, nontrivial=True)
                    continue
                grads = [None if t.grad is None else np.array(t.grad, dtype=np.float64) for t in ts]

                def fwd(*xs):
                    with mg.no_autodiff:
                        r = f(*[mg.tensor(x) for x in xs])
                    return np.asarray(r.data if isinstance(r, mg.Tensor) else r, dtype=np.float64)

                indices = range(len(arrs)) if (sel is None or isinstance(sel, str)) else sel
                nontriv = False
                for i in indices:
                    if arrs[i].dtype.kind != "f":
                        continue
                    b.count("vjp")
                    if isinstance(sel, str):
                        kink = convention_expected(sel, arrs, g, i)
                        if sel == "ABS0":
                            exp = kink
                            ok = grads[i] is not None and close(grads[i], exp)
                        else:
                            _none, at = kink
                            at = np.broadcast_to(at, arrs[i].shape) if np.shape(at) != arrs[i].shape else at
                            num = num_vjp(fwd, arrs, i, g)
                            exp = np.ma.where(at, 0.0, num) if isinstance(num, np.ma.MaskedArray) else np.where(at, 0.0, num)
                            ok = grads[i] is not None and close(grads[i], exp, rtol=1e-5, atol=1e-6)
                    else:
                        exp = num_vjp(fwd, arrs, i, g)
                        got = grads[i] if grads[i] is not None else None
                        if got is None:
                            ok = bool(np.all(np.abs(exp) < 1e-7)) and arrs[i].size == 0
                        else:
                            ok = close(got, exp, rtol=2e-5, atol=2e-6)
                    if arrs[i].size:
                        nontriv = True
                    if not ok:
                        b.fail(
                            f"C02.rest.{name}.{i}",
                            dict(desc, operand=i, values=[np.asarray(a).tolist() for a in arrs], seed_grad=np.asarray(g).tolist()),
                            f"grad of operand {i}: got {None if grads[i] is None else np.asarray(grads[i]).tolist()} expected {np.asarray(exp).tolist()}",
                        )
                b.case(desc, nontrivial=nontriv)
              except Exception as e:  # an exception inside a *valid* catalogue call is a finding of the harness, not a verdict
                import traceback

                b.error(f"{name} {opts} [{layout}]: {type(e).__name__}: {e} :: {traceback.format_exc()[-300:]}")
    # masked ufuncs whose LOCAL derivative is not finite exactly where the mask excludes the element (the safe-divide idiom: divide(x, d, where=d != 0),
    # sqrt / log / reciprocal away from 0): excluded positions contribute 0 -- not inf * 0 = nan -- to every operand; included ones the usual derivative
    if rank == 0 and (not only or only in ("masked", "where")):
        xv_ = np.array([1.0, 2.0, 3.0, 4.0])
        dv_ = np.array([2.0, 0.0, 4.0, 0.0])
        zv_ = np.array([4.0, 0.0, 9.0, 0.0])
        masked_cases = [
            ("divide", lambda x, d, m: mg.divide(x, d, where=m, out=np.zeros(4)), (xv_, dv_), dv_ != 0, lambda x, d: (1.0 / np.where(d != 0, d, 1.0), -x / np.where(d != 0, d, 1.0) ** 2)),
            ("sqrt", lambda z, _u, m: mg.sqrt(z, where=m, out=np.zeros(4)), (zv_, None), zv_ > 0, lambda z, _u: (0.5 / np.sqrt(np.where(z > 0, z, 1.0)), None)),
            ("log", lambda z, _u, m: mg.log(z, where=m, out=np.zeros(4)), (zv_, None), zv_ > 0, lambda z, _u: (1.0 / np.where(z > 0, z, 1.0), None)),
            ("reciprocal", lambda z, _u, m: mg.reciprocal(z, where=m, out=np.zeros(4)), (zv_, None), zv_ != 0, lambda z, _u: (-1.0 / np.where(z != 0, z, 1.0) ** 2, None)),
            ("power", lambda z, _u, m: mg.power(z, -1.0, where=m, out=np.zeros(4)), (zv_, None), zv_ != 0, lambda z, _u: (-1.0 / np.where(z != 0, z, 1.0) ** 2, None)),
            ("arctan2-like divide in place", lambda x, d, m: mg.divide(x * 1.0, d, where=m), (xv_, dv_), dv_ != 0, lambda x, d: (1.0 / np.where(d != 0, d, 1.0), -x / np.where(d != 0, d, 1.0) ** 2)),
        ]
        for nm_, call_, (a_, b_), m_, ref_ in masked_cases:
            desc = dict(fn=nm_, contract="excluded positions contribute 0 although the local derivative is not finite there", mask=m_.tolist(), operands=[a_.tolist(), None if b_ is None else b_.tolist()])
            b.count("vjp")
            ta = mg.tensor(a_.copy())
            tb_ = None if b_ is None else mg.tensor(b_.copy())
            try:
                with np.errstate(all="ignore"):
                    out = call_(ta, tb_, m_)
                    g = np.array([1.0, 2.0, 3.0, 4.0])
                    out.backward(g)
            except Exception as e:
                b.fail(f"C02.rest.{nm_}.backward_raises", desc, f"{type(e).__name__}: {e}")
                continue
            ra, rb = ref_(a_, b_)
            for i_, (t_, r_) in enumerate(((ta, ra), (tb_, rb))):
                if t_ is None or r_ is None:
                    continue
                exp = np.where(m_, r_ * g, 0.0)
                got = t_.grad
                if got is None or not np.all(np.isfinite(got)) or not np.allclose(got, exp, rtol=1e-12, atol=0):
                    b.fail(f"C02.rest.{nm_}.masked_nonfinite", dict(desc, operand=i_), f"grad of operand {i_}: {None if got is None else got.tolist()}, expected {exp.tolist()}")
            b.case(desc, nontrivial=True)
    # translation invariance: d std(x + c)/dx = d std(x)/dx, likewise var -- at offsets c far larger than the spread of x, where a backward pass
    # that recomputes the statistics with a cancelling formula (E[x^2] - E[x]^2) stops being the VJP of the (stable) forward pass.  The numeric
    # oracle is useless at such magnitudes; the gradient at offset 0 (itself checked against the numeric VJP above) is the reference.
    if rank == 0 and (not only or only in ("std", "var")):
        for fname, fn in (("std", mg.std), ("var", mg.var)):
            for dt, offsets, rtol in ((np.float64, (1e4, 1e6, 1e8, 1.7e9), 1e-5), (np.float32, (64.0, 4096.0), 2e-2)):
                for axis, ddof, keepdims in ((None, 0, False), (0, 1, False), (-1, 0, True), ((0, 1), 1, False)):
                    base = np.array([[0.0, 1.0, 3.0, 2.0], [5.0, 4.0, 7.0, 9.0], [2.0, 8.0, 1.0, 6.0]], dtype=dt)
                    ref = None
                    for off in (0.0,) + tuple(offsets):
                        desc = dict(fn=fname, dtype=np.dtype(dt).name, axis=repr(axis), ddof=ddof, keepdims=keepdims, offset=off, contract="translation invariance of the gradient")
                        t = mg.tensor((base + dt(off)).astype(dt))
                        b.count("vjp")
                        try:
                            out = fn(t, axis=axis, ddof=ddof, keepdims=keepdims)
                            g = np.arange(1, out.size + 1, dtype=np.float64).reshape(out.shape) / 3.0
                            out.backward(g.astype(dt))
                            got = np.asarray(t.grad, dtype=np.float64)
                        except Exception as e:
                            b.fail(f"C02.rest.{fname}.backward_raises", desc, f"{type(e).__name__}: {e}")
                            continue
                        if off == 0.0:
                            ref = got
                        elif ref is not None and not (np.all(np.isfinite(got)) and np.allclose(got, ref, rtol=rtol, atol=rtol * float(np.max(np.abs(ref))))):
                            b.fail(f"C02.rest.{fname}.shift_invariance", desc, f"gradient at offset {off}: {got.ravel()[:4].tolist()}..., at offset 0: {ref.ravel()[:4].tolist()}...")
                        b.case(desc, nontrivial=True)
    return b


def _shard(args):
    b = run_shard(*args)
    return dict(evaluations=b.evaluations, cases=sorted(b.cases), failures=b.failures, errors=b.errors, samples=b.samples, contract_evals=b.contract_evals, bound=b.bound, rule=b.rule)


def run(tier, seed, only=None):
    import multiprocessing as mp
    import os

    import time

    t_start = time.time()
    nproc = max(1, min(12, (os.cpu_count() or 2) - 2))
    ctx = mp.get_context("fork")
    with ctx.Pool(nproc) as pool:
        parts = pool.map(_shard, [(tier, seed, only, r, nproc) for r in range(nproc)])
    b = Bounded("C02.rest", bound=parts[0]["bound"], rule=parts[0]["rule"])
    b.t0 = t_start
    for p in parts:
        b.evaluations += p["evaluations"]
        b.cases.update(p["cases"])
        b.failures += p["failures"]
        b.errors += p["errors"]
        for k, v in p["contract_evals"].items():
            b.contract_evals[k] = b.contract_evals.get(k, 0) + v
        if len(b.samples) < 6:
            b.samples += p["samples"][:2]
    b.failures = b.failures[:200]
    return b


if __name__ == "__main__":
    a = parse_args()
    b = run(a.tier, a.seed, a.only)
    b.emit()
