"""Shared helpers for the bounded run-time contract checks (run under /venv/bin/python).

Everything here is labelled *bounded* in the evidence: contracts are evaluated on the real
functions over an enumerated finite domain; nothing here counts as proved.
"""
from __future__ import annotations

import argparse
import itertools
import json
import os
import sys
import time
import traceback

import numpy as np


def parse_args():
    ap = argparse.ArgumentParser()
    ap.add_argument("--tier", default="quick")
    ap.add_argument("--seed", type=int, default=0)
    ap.add_argument("--replay", default=None)
    ap.add_argument("--only", default=None)
    return ap.parse_args()


class Bounded:
    """Collects evaluations / distinct cases / failures of one bounded obligation."""

    def __init__(self, name, bound, rule):
        self.name = name
        self.bound = bound
        self.rule = rule
        self.evaluations = 0
        self.cases = set()
        self.failures = []
        self.errors = []
        self.samples = []
        self.t0 = time.time()
        self.contract_evals = {}

    def case(self, key, nontrivial=True):
        self.evaluations += 1
        if nontrivial:
            k = key if isinstance(key, str) else json.dumps(key, sort_keys=True, default=str)
            if k not in self.cases and len(self.samples) < 6:
                self.samples.append(key)
            self.cases.add(k)

    def count(self, contract, n=1):
        self.contract_evals[contract] = self.contract_evals.get(contract, 0) + n

    def fail(self, name, inp, detail):
        # keep at most 30 witnesses per obligation name (every distinct failing obligation stays visible)
        self._per_name = getattr(self, "_per_name", {})
        n = self._per_name.get(name, 0)
        self._per_name[name] = n + 1
        cap = int(os.environ.get('VERIF_FAIL_CAP', str(getattr(self, 'fail_cap', 30))))
        if n < cap and len(self.failures) < max(600, cap):
            self.failures.append(dict(name=name, input=inp, detail=str(detail)[:800]))

    def error(self, msg):
        if len(self.errors) < 10:
            self.errors.append(str(msg)[:600])

    def emit(self):
        print(
            json.dumps(
                dict(
                    name=self.name,
                    bound=self.bound,
                    rule=self.rule,
                    evaluations=self.evaluations,
                    distinct_nontrivial=len(self.cases),
                    failures=self.failures,
                    errors=self.errors,
                    samples=self.samples,
                    contract_evaluations=self.contract_evals,
                    wall_s=round(time.time() - self.t0, 2),
                ),
                default=str,
            )
        )


def robust_central(ev, h=1e-3, rtol=1e-6, atol=1e-7, levels=5):
    """4th-order central difference of the scalar function ev(delta) at 0, with a smoothness certificate.

    The estimate is accepted only when two consecutive step sizes (h, h/4, h/16, ...) agree: for a smooth function they agree to
    ~1e-9, whereas a kink (a near-tie of max/min, the edge of a clip, a sign change under abs) closer than 2h makes the estimate
    depend on h.  Returns (value, True), or (last estimate, False) when no pair agrees -- the point is then too close to a
    non-differentiable point for the finite-difference *oracle*, which says nothing about the code under test: such an element is
    not compared (and counted as skipped by the caller)."""

    def est(hh):
        return (-ev(2 * hh) + 8 * ev(hh) - 8 * ev(-hh) + ev(-2 * hh)) / (12 * hh)

    prev = est(h)
    for _ in range(levels - 1):
        h = h / 4
        cur = est(h)
        if cur == prev or abs(cur - prev) <= atol + rtol * max(abs(cur), abs(prev)) or (cur != cur and prev != prev):
            return cur, True
        prev = cur
    return prev, False


def num_vjp(f, xs, i, g, h=1e-3):
    """sum(g * f(xs)) differentiated w.r.t. xs[i], 4th-order central differences (float64) with a smoothness certificate:
    elements where the finite-difference oracle is unreliable are masked (numpy.ma) and not compared by close()."""
    xs = [np.array(x, dtype=np.float64) if isinstance(x, np.ndarray) and x.dtype.kind == "f" else x for x in xs]
    xs[i] = np.asarray(xs[i], dtype=np.float64)
    x = xs[i]
    out = np.zeros(x.shape, dtype=np.float64)
    bad = np.zeros(x.shape, dtype=bool)
    it = np.ndindex(*x.shape) if x.ndim else [()]

    def ev(delta, idx):
        xx = x.copy()
        xx[idx] += delta
        ys = list(xs)
        ys[i] = xx
        return float(np.sum(np.asarray(g, dtype=np.float64) * np.asarray(f(*ys), dtype=np.float64)))

    for idx in it:
        out[idx], ok = robust_central(lambda d, idx=idx: ev(d, idx), h)
        bad[idx] = not ok
    return np.ma.masked_array(out, mask=bad) if bad.any() else out


def close(a, b, rtol=1e-6, atol=1e-7):
    mask = None
    for q in (a, b):
        if isinstance(q, np.ma.MaskedArray) and q.mask is not np.ma.nomask:
            mask = np.ma.getmaskarray(q) if mask is None else (mask | np.ma.getmaskarray(q))
    a = np.asarray(np.ma.getdata(a), dtype=np.float64)
    b = np.asarray(np.ma.getdata(b), dtype=np.float64)
    if a.shape != b.shape:
        return False
    if mask is not None:
        keep = ~np.broadcast_to(mask, a.shape)
        a, b = a[keep], b[keep]
    return bool(np.allclose(a, b, rtol=rtol, atol=atol, equal_nan=True))


def rng_values(rng, shape, lo=-2.0, hi=2.0, away_from=(), margin=0.15):
    """Values well inside the differentiable domain: away from the listed kinks."""
    x = rng.uniform(lo, hi, size=shape)
    for k in away_from:
        bad = np.abs(x - k) < margin
        x = np.where(bad, x + np.sign(x - k + 1e-12) * 2 * margin, x)
    return np.asarray(x, dtype=np.float64)


def distinct_values(rng, shape, lo=-2.0, hi=2.0):
    """All-distinct, well separated values (no ties for max/min/sort-like ops)."""
    n = int(np.prod(shape)) if len(shape) else 1
    base = np.linspace(lo, hi, n + 2)[1:-1]
    perm = rng.permutation(n)
    return np.asarray(base[perm].reshape(shape), dtype=np.float64)


def guard(b: Bounded, name, inp, fn):
    """Run fn(); exceptions from the machinery itself are errors (undecided), never violations."""
    try:
        return fn()
    except AssertionError:
        raise
    except Exception as e:
        b.error(f"{name} {inp}: {type(e).__name__}: {e}\n{traceback.format_exc()[-400:]}")
        return None
