"""Replay of a refuted C11.dispatch obligation on the real code.  argv[1] = JSON meta {function, category, method, operands, out, kw}.
A representative NumPy ufunc / function of the category is called through NumPy's override protocol with operands of the recorded
kinds and compared with NumPy applied to the unwrapped operands (value, dtype, exception)."""
import json
import sys

import numpy as np

import mygrad as mg
from mygrad.tensor_base import _REGISTERED_BOOL_ONLY_UFUNC, _REGISTERED_CONST_ONLY_UFUNC, _REGISTERED_NO_DIFF_NUMPY_FUNCS


def operand(kind, i, dtype):
    base = (np.arange(1, 5) + i).astype(dtype)
    if kind == "tensor-nc":
        return mg.tensor(base.astype(np.float32), constant=False)
    if kind == "tensor-c":
        return mg.tensor(base, constant=True)
    if kind == "ndarray":
        return base
    return 3 if i % 2 else 2.0


def unwrap(x):
    return x.data if isinstance(x, mg.Tensor) else x


def outcome(f):
    try:
        r = f()
        r = unwrap(r)
        return ("ok", str(np.asarray(r).dtype), np.asarray(r).tolist())
    except Exception as e:
        return ("raises", type(e).__name__, str(e)[:80])


def main():
    m = json.loads(sys.argv[1])
    cat, kinds, out_kind = m.get("category"), m.get("operands", []), m.get("out", "absent")
    if "__array_function__" in m.get("function", ""):
        fns = sorted(_REGISTERED_NO_DIFF_NUMPY_FUNCS, key=lambda f: f.__name__)
        fn = next((f for f in fns if f.__name__ in ("allclose", "array_equal", "shape")), fns[0])
        print(json.dumps(dict(confirmed=False, note=f"no native replay for __array_function__ obligations (representative {fn.__name__})")))
        return
    pool = {"bool": sorted(_REGISTERED_BOOL_ONLY_UFUNC, key=lambda u: u.__name__), "const": sorted(_REGISTERED_CONST_ONLY_UFUNC, key=lambda u: u.__name__)}.get(cat)
    if not pool:
        print(json.dumps(dict(confirmed=False, note="differentiable/unregistered category: replayed by the bounded C11 contract")))
        return
    tried = []
    for uf in pool:
        if uf.nin != len(kinds):
            continue
        for dt in (np.int8, np.float32, np.int64):
            ops = [operand(k, i, dt) for i, k in enumerate(kinds)]
            kw, kw_np = {}, {}
            if out_kind not in ("absent", "none"):
                shape = np.broadcast(*[np.asarray(unwrap(o)) for o in ops]).shape
                ref = outcome(lambda: uf(*[unwrap(o) for o in ops]))
                if ref[0] != "ok":
                    continue
                o_arr = np.zeros(shape, dtype=ref[1])
                o = {"tensor-nc": lambda: mg.tensor(o_arr.astype(np.float64), constant=False), "tensor-c": lambda: mg.tensor(o_arr, constant=True), "ndarray": lambda: o_arr}[out_kind]()
                kw["out"] = o
                kw_np["out"] = unwrap(o).copy()
            elif out_kind == "none":
                kw["out"] = None
                kw_np["out"] = None
            nonconst = any(isinstance(x, mg.Tensor) and not x.constant for x in ops + list(kw.values()))
            got = outcome(lambda: uf(*ops, **kw))
            exp = outcome(lambda: uf(*[unwrap(o_) for o_ in ops], **kw_np))
            inp = dict(ufunc=uf.__name__, operand_kinds=kinds, dtype=np.dtype(dt).name, out=out_kind)
            tried.append(inp)
            if cat == "const" and nonconst:
                if got[0] != "raises" or got[1] != "ValueError":
                    print(json.dumps(dict(confirmed=True, input=inp, observed=f"{got}", required="ValueError: constant-only ufunc with a non-constant tensor operand")))
                    return
                continue
            if got != exp and not (got[0] == exp[0] == "raises"):
                print(json.dumps(dict(confirmed=True, input=inp, observed=f"mygrad dispatch: {got[:2]}", required=f"NumPy on the unwrapped operands: {exp[:2]}")))
                return
    print(json.dumps(dict(confirmed=False, tried=len(tried), note="no representative ufunc/dtype of the category disagreed natively")))


if __name__ == "__main__":
    main()
