"""Bounded run-time contracts for the state/history properties C08, C09, C13, C15.

usage: state_bounded.py --check C08|C09|C13|C15 --tier quick|thorough --seed N
"""
from __future__ import annotations

import argparse
import gc
import zlib
import itertools
import re

import numpy as np

import mygrad as mg
from mygrad import Tensor
from mygrad.errors import InvalidBackprop
from runtime.common import Bounded, close


# ------------------------------------------------------------------------------------------------------------
# C08
# ------------------------------------------------------------------------------------------------------------
def upstream_arrays(t, seen=None):
    """arrays referred to by the live graph that produced tensor t (inputs and outputs of recorded ops)"""
    seen = set() if seen is None else seen
    out = []
    if id(t) in seen:
        return out
    seen.add(id(t))
    if t.creator is not None:
        out.append(t.data)
        if t.data.base is not None:
            out.append(t.data.base)
        for v in t.creator.variables:
            out.append(v.data)
            if v.data.base is not None:
                out.append(v.data.base)
            out += upstream_arrays(v, seen)
    return out


def check_c08(tier, seed):
    rng = np.random.default_rng(seed)
    maxlen = 3 if tier == "quick" else 4
    b = Bounded(
        "C08.bounded",
        bound=f"all histories of length <= {maxlen} over 18 statement kinds (op on tensor / writeable user array / read-only user array / view of user array / the view's base array / a view the USER made read-only of that writeable base / np.broadcast_to of a writeable array (a read-only view by construction) / out= array / out= view of a user array, in-place update, in-place update whose operand is a natively read-only array / a tensor wrapping one / out= form, failing op, backward, clear_graph, drop oldest result, drop newest result) followed by dropping the remaining results in both orders",
        rule="case = the statement list + final drop order; non-trivial = at least one op recorded with memory guarding on",
    )
    mg.turn_memory_guarding_on()
    b.fail_cap = 1000000  # every failing history is reported: the known finding F26b is an exact list, nothing may hide behind it
    kinds = ["op-tensor", "op-array", "op-roarray", "op-view", "op-viewbase", "op-out", "op-out-view", "inplace", "fail", "backward", "clear", "drop-old", "drop-new",
             "op-roview", "op-broadcast-view", "inplace-ro-operand", "inplace-ro-tensor-operand", "inplace-out-ro-operand"]

    def run(hist, final_order):
        A = rng.uniform(1, 2, size=(4,))  # writeable user array
        Rr = rng.uniform(1, 2, size=(4,))
        Rr.flags.writeable = False  # natively read-only user array
        Bv = rng.uniform(1, 2, size=(6,))
        V = Bv[1:5]  # view of a writeable user array
        O = np.zeros((4,))  # out= target
        Vr = Bv[0:4]
        Vr.flags.writeable = False  # a view of the writeable user array that the user made read-only beforehand
        Ab = rng.uniform(1, 2, size=(4,))
        Vb = np.broadcast_to(Ab, (2, 4))  # read-only by construction; making it writeable would be unsafe
        T = mg.tensor(rng.uniform(1, 2, size=(4,)))
        Tdata = T.data
        orig = {"A": True, "R": False, "Bv": True, "V": True, "O": True, "Tdata": True, "Vr": False, "Ab": True, "Vb": False}
        arrays = {"A": A, "R": Rr, "Bv": Bv, "V": V, "O": O, "Tdata": Tdata, "Vr": Vr, "Ab": Ab, "Vb": Vb}
        results = []
        cleared = False
        problems = []
        marks = run.marks = set()
        for k in hist:
            try:
                if k == "op-tensor":
                    results.append(T * 2.0)
                elif k == "op-array":
                    results.append(mg.multiply(T, A))
                elif k == "op-roarray":
                    results.append(mg.add(T, Rr))
                elif k == "op-view":
                    results.append(mg.add(V, T))
                elif k == "op-viewbase":
                    results.append(mg.multiply(Bv, 2.0))
                elif k == "op-out":
                    results.append(mg.multiply(T, 3.0, out=O))
                elif k == "op-out-view":
                    results.append(mg.multiply(T, 3.0, out=V))
                elif k == "inplace":
                    T[:2] = 0.5
                elif k == "op-roview":
                    if not Bv.flags.writeable:
                        marks.add("Vr")  # its base is locked on behalf of an earlier, still live operation at this moment
                    results.append(mg.add(Vr, T))
                elif k == "op-broadcast-view":
                    if not Ab.flags.writeable:
                        marks.add("Vb")
                    results.append(mg.add(Vb, T))
                elif k == "inplace-ro-operand":
                    T[...] = Rr
                elif k == "inplace-ro-tensor-operand":
                    T += mg.Tensor(Rr, copy=False)
                elif k == "inplace-out-ro-operand":
                    mg.multiply(Rr, 2.0, out=T)
                elif k == "fail":
                    try:
                        mg.add(T, np.ones((5,)) if True else None) if False else mg.add(A, np.ones((5,)))
                    except ValueError:
                        pass
                    try:
                        mg.matmul(T, A.reshape(2, 2))
                    except ValueError:
                        pass
                elif k == "backward":
                    if results:
                        cleared = True
                        try:
                            results[-1].backward()
                        except InvalidBackprop:
                            # back-propagating through a graph that an earlier statement partly cleared must fail loudly (C09);
                            # it is a failed operation: the lock contract at quiescence still applies
                            pass
                elif k == "clear":
                    if results:
                        results[0].clear_graph()
                        cleared = True
                elif k == "drop-old":
                    if results:
                        results.pop(0)
                elif k == "drop-new":
                    if results:
                        results.pop()
            except ValueError as e:
                if "read-only" not in str(e):
                    problems.append(f"statement {k} raised {type(e).__name__}: {e}")
                    break
                # writing through out= into an array that a live graph holds is refused: a failed operation
            except Exception as e:
                problems.append(f"statement {k} raised {type(e).__name__}: {e}")
                break
            # contract: arrays of a live graph none of whose upstream tensors was cleared are read-only
            if not cleared:
                if any(arr.flags.writeable for r_ in results for arr in upstream_arrays(r_)):
                    problems.append(f"after {k}: an array of a live graph is writeable")
        order = list(final_order(len(results)))
        live = dict(enumerate(results))
        del results
        for i in order:
            live[i].clear_graph() if (i % 2 == 0 and "clear" in hist) else None
            del live[i]
        del live
        T.clear_graph()
        # no gc.collect(): everything must be released by reference counting alone
        for nm, arr in arrays.items():
            if arr.flags.writeable != orig[nm]:
                problems.append(f"at quiescence: {nm}.flags.writeable = {arr.flags.writeable}, originally {orig[nm]}")
        return problems

    orders = [lambda n: range(n), lambda n: reversed(range(n))]
    for L in range(1, maxlen + 1):
        for hist in itertools.product(kinds, repeat=L):
            if not any(k.startswith(("op", "inplace-")) for k in hist):
                continue
            for oi, fo in enumerate(orders):
                desc = dict(history=list(hist), final_drop=("fifo", "lifo")[oi], key="|".join(hist) + "/" + ("fifo", "lifo")[oi])
                b.count("guard")
                try:
                    problems = run(hist, fo)
                except Exception as e:
                    b.error(f"{hist}: {type(e).__name__}: {e}")
                    continue
                for p in problems[:2]:
                    m_ = re.match(r"at quiescence: (V[rb])\.flags", p)
                    b.fail("C08.bounded.flag", dict(desc, natively_read_only_view_used_while_its_base_was_locked=bool(m_ and m_.group(1) in run.marks)) if m_ else desc, p)
                b.case(desc)
    # a NumPy view taken from an array while it was locked counts as having its owner's original flag
    A = rng.uniform(1, 2, size=(4,))
    t = mg.tensor(A, copy=False)
    y = t * 2
    v = A[1:]
    del y
    gc.collect()
    b.case(dict(special="view taken while locked"))
    if not A.flags.writeable:
        b.fail("C08.bounded.flag", dict(special="view taken while locked"), "owner not restored")
    return b


# ------------------------------------------------------------------------------------------------------------
# C09
# ------------------------------------------------------------------------------------------------------------
def check_c09(tier, seed):
    rng = np.random.default_rng(seed)
    maxlen = 3 if tier == "quick" else 4
    b = Bounded(
        "C09.bounded",
        bound=f"all interleavings of length <= {maxlen} of 9 actions (L1.backward, x.clear_graph, y.clear_graph, in-place update of the shared tensor, in-place update of a view of it, new op on the shared tensor, new op + its backward, another graph's backward through the OTHER operand c, new op on c) between recording L2 and calling L2.backward(); two graphs sharing x (leaf) and y (intermediate)",
        rule="case = the action list; non-trivial = at least one action clears part of L2's graph",
    )
    actions = ["L1.backward", "x.clear", "y.clear", "x[...]=c", "view-of-x*=c", "new-op", "new-op-backward", "c.other-graph-backward", "c.new-op"]
    b.fail_cap = 100000  # every failing history is reported: the known finding F4 is an exact list, nothing may hide behind it
    for L, dangling in itertools.product(range(0, maxlen + 1), (False, True)):
        if dangling and L == maxlen and tier == "quick":
            pass
        for hist in itertools.product(actions, repeat=L):
            xv = rng.uniform(1, 2, size=(3,))
            cv = rng.uniform(1, 2, size=(3,))
            x = mg.tensor(xv.copy())
            c = mg.tensor(cv.copy())
            y = x * c  # shared intermediate
            L1 = (y * 2.0).sum()
            L2 = (y * x).sum()  # recorded forward: sum(x*c*x) -> dL2/dx = 2*x*c, dL2/dc = x*x
            exp_x, exp_c = 2 * xv * cv, xv * xv
            desc = dict(actions=list(hist), dangling_views=dangling)
            if dangling:
                # live views of the shared tensors that belong to neither graph (the caller merely holds them)
                keep_alive = (x[:2], y[1:], x[...])
            try:
                for a in hist:
                    if a == "L1.backward":
                        L1.backward()
                    elif a == "x.clear":
                        x.clear_graph()
                    elif a == "y.clear":
                        y.clear_graph()
                    elif a == "x[...]=c":
                        x[...] = c * 10.0
                    elif a == "view-of-x*=c":
                        v = x[:2]
                        v *= 3.0
                    elif a == "new-op":
                        _z = x + 1.0
                    elif a == "new-op-backward":
                        (x * 5.0).sum().backward()
                    elif a == "c.other-graph-backward":
                        (c * 4.0).sum().backward()  # clears the consumers of the OTHER operand of y = x*c
                    elif a == "c.new-op":
                        _w = c + 1.0
            except Exception as e:
                # an action itself may legitimately fail (e.g. in-place update on a disconnected view)
                b.case(desc, nontrivial=False)
                continue
            b.count("L2.backward raises or is exact")
            try:
                L2.backward()
            except InvalidBackprop:
                # the refusal is not a one-off: asking again (after catching the exception) is refused again -- it never turns into a silent pass
                # that leaves stale / partial gradients behind
                b.count("a repeated backward is refused again")
                try:
                    L2.backward()
                    gx2, gc2 = x.grad, c.grad
                    mutated = any(a in ("x[...]=c", "view-of-x*=c") for a in hist)
                    if gc2 is None or not close(gc2, exp_c, rtol=1e-10, atol=1e-12) or (not mutated and (gx2 is None or not close(gx2, exp_x, rtol=1e-10, atol=1e-12))):
                        b.fail("C09.bounded.second_backward_silent", dict(desc, x=xv.tolist(), c=cv.tolist()), f"the first L2.backward() raised InvalidBackprop, the second returned silently with x.grad = {None if gx2 is None else gx2.tolist()}, c.grad = {None if gc2 is None else gc2.tolist()}")
                except InvalidBackprop:
                    pass
                except Exception as e:
                    b.fail("C09.bounded.wrong_exception", dict(desc, call="second L2.backward()"), f"{type(e).__name__}: {e}")
                b.case(desc)
                continue
            except Exception as e:
                b.fail("C09.bounded.wrong_exception", desc, f"{type(e).__name__}: {e}")
                continue
            ok = True
            # gradients must be those of the forward computation as recorded
            gx = x.grad
            gc_ = c.grad
            mutated = any(a in ("x[...]=c", "view-of-x*=c") for a in hist)
            if gc_ is None or not close(gc_, exp_c, rtol=1e-10, atol=1e-12):
                ok = False
                why = f"c.grad = {None if gc_ is None else gc_.tolist()} but the recorded forward gives {exp_c.tolist()}"
            elif not mutated and (gx is None or not close(gx, exp_x, rtol=1e-10, atol=1e-12)):
                ok = False
                why = f"x.grad = {None if gx is None else gx.tolist()} but the recorded forward gives {exp_x.tolist()}"
            if not ok:
                b.fail("C09.bounded.silent_wrong_gradient", dict(desc, x=xv.tolist(), c=cv.tolist()), why)
            b.case(desc)
    # scenario B: the shared tensor is an *intermediate* that is mutated in place BEFORE anything is cleared; the graph
    # read before the mutation is then back-propagated / cleared, and finally the graph built on the mutated tensor
    mask = np.array([True, False, True])
    muts = [
        ("x[1:] = v", lambda x, v: x.__setitem__(slice(1, None), v[1:]), lambda xv, vv: np.concatenate([xv[:1], vv[1:]]), lambda vv: np.array([1.0, 0.0, 0.0])),
        ("x[[0, 2]] = v[:2]", lambda x, v: x.__setitem__([0, 2], v[:2]), lambda xv, vv: np.array([vv[0], xv[1], vv[1]]), lambda vv: np.array([0.0, 1.0, 0.0])),
        ("mg.add(v, 1.0, out=x[:2])", lambda x, v: mg.add(v[:2], 1.0, out=x[:2]), lambda xv, vv: np.array([vv[0] + 1, vv[1] + 1, xv[2]]), lambda vv: np.array([0.0, 0.0, 1.0])),
        ("mg.multiply(x, v, where=mask, out=x)", lambda x, v: mg.multiply(x, v, where=mask, out=x), lambda xv, vv: np.where(mask, xv * vv, xv), lambda vv: np.where(mask, vv, 1.0)),
        ("x *= v", lambda x, v: x.__imul__(v), lambda xv, vv: xv * vv, lambda vv: vv),
        ("x[:2] *= v[:2]", lambda x, v: x[:2].__imul__(v[:2]), lambda xv, vv: np.array([xv[0] * vv[0], xv[1] * vv[1], xv[2]]), lambda vv: np.array([vv[0], vv[1], 1.0])),
    ]
    clears = [("L1.backward()", lambda L1, x: L1.backward()), ("L1.clear_graph()", lambda L1, x: L1.clear_graph()), ("none", lambda L1, x: None)]
    for (mn, mut, xnew, dxnew_dx) in muts:
        for (cn, clear) in clears:
            wv, vv = rng.uniform(1, 2, size=(3,)), rng.uniform(1, 2, size=(3,))
            w = mg.tensor(wv.copy())
            v = mg.tensor(vv.copy(), constant=True)
            x = w * 2.0
            L1 = (x * x).sum()
            desc = dict(scenario="intermediate mutated before clearing", mutation=mn, clearing=cn)
            try:
                mut(x, v)
                L2 = (x * 3.0).sum()
                clear(L1, x)
            except Exception as e:
                b.case(desc, nontrivial=False)
                continue
            b.count("L2.backward raises or is exact")
            try:
                L2.backward()
            except InvalidBackprop:
                b.case(desc)
                continue
            except Exception as e:
                b.fail("C09.bounded.wrong_exception", desc, f"{type(e).__name__}: {e}")
                continue
            # recorded forward: L2 = sum(3 * xnew(2w, v))  ->  dL2/dw = 3 * d xnew/d x * 2
            exp_w = 3.0 * dxnew_dx(vv) * 2.0
            if w.grad is None or not close(w.grad, exp_w, rtol=1e-10, atol=1e-12):
                b.fail("C09.bounded.silent_wrong_gradient.mutated_before_clearing", dict(desc, w=wv.tolist(), v=vv.tolist()), f"w.grad = {None if w.grad is None else w.grad.tolist()} but the recorded forward of L2 gives {exp_w.tolist()}")
            b.case(desc)
    return b


# ------------------------------------------------------------------------------------------------------------
# C13
# ------------------------------------------------------------------------------------------------------------
def snapshot(ts):
    out = []
    for t in ts:
        out.append(
            dict(
                data=t.data.copy(),
                constant=t.constant,
                base=id(t.base) if t.base is not None else None,
                creator=id(t.creator) if t.creator is not None else None,
                nops=sum(1 for r in t._ops if r() is not None),  # live consumers (a dead weak reference is not a place in the graph)
                children=sorted(id(c) for c in t._view_children),
                vars=None if t.creator is None else tuple(id(v) for v in t.creator.variables),
                grad=None if t.grad is None else t.grad.copy(),
            )
        )
    return out


def snap_equal(a, b):
    for x, y in zip(a, b):
        for k in x:
            if k in ("data", "grad"):
                if (x[k] is None) != (y[k] is None) or (x[k] is not None and not np.array_equal(x[k], y[k])):
                    return k
            elif x[k] != y[k]:
                return k
    return None


def check_c13(tier, seed):
    rng = np.random.default_rng(seed)
    b = Bounded(
        "C13.bounded",
        bound="6 base programs x every insertion position x 23 failing statement kinds (composite functions whose later step fails -- clip with two bounds into out=, multi_matmul, softmax_focal_loss --, integer result / integer view requested with constant=False -- the kernel succeeds and the result is refused --, bad broadcast in a non-view op, bad reshape / index in a view op, bad value shape / out-of-range index / read-only target in an in-place update on a base and on a view, bad dtype, bad out=, bad axis, bad einsum spec); one epoch and across an epoch boundary",
        rule="case = (program, position, failing statement); non-trivial = the statement raises and the snapshot of every existing tensor is compared",
    )

    def failing(kind, env):
        x, v = env["x"], env["v"]
        if kind == "bad-broadcast":
            return x + np.ones((7,))
        if kind == "bad-matmul":
            return mg.matmul(x, np.ones((7, 2)))
        if kind == "bad-reshape":
            return x.reshape(5, 5)
        if kind == "bad-index":
            return x[10]
        if kind == "bad-index-view":
            return v[..., 10]
        if kind == "bad-axis":
            return mg.sum(x, axis=5)
        if kind == "bad-einsum":
            return mg.einsum("ij,jk->", x, x)
        if kind == "inplace-bad-shape-base":
            x[...] = np.ones((7,))
            return None
        if kind == "inplace-bad-shape-view":
            v[...] = np.ones((7,))
            return None
        if kind == "inplace-oob-base":
            x[10] = 1.0
            return None
        if kind == "inplace-oob-view":
            v[10] = 1.0
            return None
        if kind == "inplace-iadd-bad":
            x += np.ones((7,))
            return None
        if kind == "bad-out":
            return mg.add(x, 1.0, out=np.zeros((7,)))
        if kind == "bad-dtype":
            return mg.add(x, 1.0, dtype="not-a-dtype")
        if kind == "shape-set-bad":
            x.shape = (5, 5)
            return None
        # composite functions that run several operations: a LATER step fails after an earlier one succeeded
        if kind == "clip-second-step-fails-out-view":
            return mg.clip(env["c"], 0.0, np.ones((7,)), out=v)
        if kind == "clip-second-step-fails-out-base":
            return mg.clip(x, 0.0, np.ones((7,)), out=x)
        if kind == "np.clip-second-step-fails-out-view":
            return np.clip(env["c"], 0.0, np.ones((7,)), out=v)
        if kind == "multi_matmul-later-product-fails":
            return mg.multi_matmul([x, x.T, np.ones((7, 2))])
        if kind == "softmax_focal_loss-second-step-fails":
            import mygrad.nnet as _nn

            return _nn.softmax_focal_loss(x, np.array([0, 1, 2]))
        # statements whose kernel succeeds and whose *result* is then refused (integer result requested as a variable)
        if kind == "int-result-nonconstant":
            return mg.multiply(env["k"], 2, constant=False)
        if kind == "int-view-nonconstant":
            return env["k"].reshape(3, 1, constant=False)
        if kind == "int-result-nonconstant-mixed":
            return mg.add(env["k"], env["k"].data, constant=False)
        raise AssertionError(kind)

    kinds = ["bad-broadcast", "bad-matmul", "bad-reshape", "bad-index", "bad-index-view", "bad-axis", "bad-einsum", "inplace-bad-shape-base", "inplace-bad-shape-view",
             "inplace-oob-base", "inplace-oob-view", "inplace-iadd-bad", "bad-out", "bad-dtype", "shape-set-bad",
             "int-result-nonconstant", "int-view-nonconstant", "int-result-nonconstant-mixed",
             "clip-second-step-fails-out-view", "clip-second-step-fails-out-base", "np.clip-second-step-fails-out-view", "multi_matmul-later-product-fails", "softmax_focal_loss-second-step-fails"]

    # programs as step lists over an environment; x (2,3) base, v a view of it, w uses both
    def steps_simple():
        return [
            lambda e: e.__setitem__("y", e["x"] * 2.0),
            lambda e: e.__setitem__("w", e["v"] * e["c"]),
            lambda e: e.__setitem__("L", (e["y"].sum() + e["w"].sum())),
        ]

    def steps_inplace():
        return [
            lambda e: e.__setitem__("y", e["x"] * 2.0),
            lambda e: e["x"].__setitem__((0, slice(None)), e["c"]),
            lambda e: e.__setitem__("w", e["v"] * e["x"][1]),
            lambda e: e["v"].__imul__(2.0),
            lambda e: e.__setitem__("L", (e["y"].sum() + e["w"].sum() + e["x"].sum())),
        ]

    def steps_views():
        return [
            lambda e: e.__setitem__("r", e["x"].reshape(3, 2)),
            lambda e: e.__setitem__("t", e["r"].T[1:]),
            lambda e: e.__setitem__("L", (e["t"] * e["t"]).sum() + e["v"].sum()),
        ]

    progs = [("simple", steps_simple), ("inplace", steps_inplace), ("views", steps_views)]

    def fresh_env(across_epoch):
        a = mg.tensor(rng_vals[0].copy())
        c = mg.tensor(rng_vals[1].copy())
        x = a * 1.0
        v = x[1]
        env = dict(a=a, c=c, x=x, v=v, k=mg.tensor([1, 2, 3]))
        if across_epoch:
            (x.sum() + v.sum()).backward()  # x, v now carry gradients and a cleared graph
        return env

    for pname, mk in progs:
        for across in (False, True):
            rng_vals = [rng.uniform(1, 2, size=(2, 3)), rng.uniform(1, 2, size=(3,))]
            # reference run without any failing statement
            env0 = fresh_env(across)
            try:
                for st in mk():
                    st(env0)
                env0["L"].backward()
            except Exception as e:
                # the program itself is not valid in this epoch setting (e.g. disconnected view): skip
                continue
            ref = {k: (env0[k].data.copy(), None if env0[k].grad is None else env0[k].grad.copy()) for k in ("a", "c")}
            refL = env0["L"].data.copy()
            nsteps = len(mk())
            for pos in range(nsteps + 1):
                for kind in kinds:
                    env = fresh_env(across)
                    steps = mk()
                    desc = dict(program=pname, across_epoch=across, position=pos, failing=kind)
                    try:
                        for st in steps[:pos]:
                            st(env)
                    except Exception as e:
                        b.error(f"{desc}: prefix failed {e}")
                        continue
                    tens = [t for t in env.values() if isinstance(t, Tensor)]
                    before = snapshot(tens)
                    wflags = [t.data.flags.writeable for t in tens]
                    raised = False
                    try:
                        failing(kind, env)
                    except Exception:
                        raised = True
                    if not raised:
                        continue  # not a failing statement in this state: outside the domain
                    b.count("failed statement leaves no trace")
                    after = snapshot(tens)
                    if kind.split("-")[0] in ("clip", "np.clip", "multi_matmul", "softmax_focal_loss"):
                        # an earlier step of a composite function is a successful non-view operation of its own: it legitimately nulls the
                        # gradients of its operands (C07); everything else must be as before
                        for s_ in before + after:
                            s_["grad"] = None
                    diff = snap_equal(before, after)
                    if diff is not None:
                        b.fail("C13.bounded.trace", desc, f"field `{diff}` of an existing tensor changed although the statement raised")
                    locked_now = [n for n, t, w in zip([k for k, t in env.items() if isinstance(t, Tensor)], tens, wflags) if w and not t.data.flags.writeable and (t.data.base is None or t.data.base.flags.writeable)]  # (a view's flag is restored lazily, once its base is released)
                    if locked_now:
                        b.fail("C13.bounded.lock_released", desc, f"array(s) of {locked_now} were writeable before the failed statement and are read-only after it")
                    try:
                        for st in steps[pos:]:
                            st(env)
                        env["L"].backward()
                    except Exception as e:
                        b.fail("C13.bounded.program_broken", desc, f"the rest of the program fails after the failed statement: {type(e).__name__}: {e}")
                        b.case(desc)
                        continue
                    flags = {k: t.data.flags.writeable for k, t in env.items() if isinstance(t, Tensor) and k in env0}
                    if flags != {k: env0[k].data.flags.writeable for k in flags}:
                        b.fail("C13.bounded.flags_at_quiescence", desc, "array writeable flags at the end of the program differ from the program without the failing statement")
                    if not np.array_equal(env["L"].data, refL):
                        b.fail("C13.bounded.final_value", desc, "final value differs from the program without the failing statement")
                    for k in ("a", "c"):
                        g, rg = env[k].grad, ref[k][1]
                        if (g is None) != (rg is None) or (g is not None and not np.array_equal(g, rg)):
                            b.fail("C13.bounded.final_grad", dict(desc, tensor=k), "final gradient differs from the program without the failing statement")
                    b.case(desc)
    # arrays locked only on behalf of the failed op are released
    A = rng.uniform(1, 2, size=(3,))
    try:
        mg.add(A, np.ones((7,)))
    except ValueError:
        pass
    b.case(dict(contract="failed op releases locks"))
    if not A.flags.writeable:
        b.fail("C13.bounded.lock_leak", {}, "array stays locked after the operation failed")
    # ... also when it is the result, not the kernel, that is refused; the operand is the caller's own array
    for nm, call in (("multiply", lambda A: mg.multiply(A, 2, constant=False)), ("reshape", lambda A: mg.reshape(A, (3, 1), constant=False)), ("getitem", lambda A: mg.Tensor._op(type(mg.tensor(A)[:1].creator), A, op_args=(slice(0, 1),), constant=False)), ("sum", lambda A: mg.sum(A, constant=False))):
        A = np.array([1, 2, 3])
        try:
            call(A)
        except ValueError:
            pass
        else:
            continue
        b.count("refused result releases locks")
        b.case(dict(contract="refused integer result releases locks", op=nm))
        if not A.flags.writeable:
            b.fail("C13.bounded.lock_leak", dict(op=nm, operand="np.array([1, 2, 3])", constant=False), "the caller's array stays read-only after the operation raised")
    return b


# ------------------------------------------------------------------------------------------------------------
# C15
# ------------------------------------------------------------------------------------------------------------
def check_c15(tier, seed):
    rng = np.random.default_rng(seed)
    depth = 3 if tier == "quick" else 4
    b = Bounded(
        "C15.bounded",
        bound=f"all nestings of depth <= {depth} over {{no_autodiff, mem_guard_on, mem_guard_off}} x {{context manager, decorator}} x exception raised at each depth or none x both initial settings of the memory guard; value/record contracts of ops inside no_autodiff",
        rule="case = (nesting, forms, exception depth, initial guard); non-trivial = depth >= 1",
    )
    from mygrad._utils import graph_tracking as gt
    from mygrad._utils import lock_management as lm

    mgrs = {"na": mg.no_autodiff, "on": mg.mem_guard_on, "off": mg.mem_guard_off}

    def expected_inside(name, state):
        tg, mgd = state
        if name == "na":
            return (False, mgd)
        return (tg, name == "on")

    class Boom(Exception):
        pass

    def nest(seq, forms, exc_at, log, level=0):
        if level == len(seq):
            if exc_at == level:
                raise Boom()
            return
        name, form = seq[level], forms[level]
        before = (gt.TRACK_GRAPH, lm.MEM_GUARD)

        def body():
            log.append(("inside", level, name, (gt.TRACK_GRAPH, lm.MEM_GUARD), expected_inside(name, before)))
            if exc_at == level:
                raise Boom()
            nest(seq, forms, exc_at, log, level + 1)

        try:
            if form == "ctx":
                with mgrs[name]:
                    body()
            else:
                mgrs[name](body)()
        finally:
            log.append(("after", level, name, (gt.TRACK_GRAPH, lm.MEM_GUARD), before))

    for init_guard in (True, False):
        for d in range(1, depth + 1):
            for seq in itertools.product(mgrs, repeat=d):
                for forms in itertools.product(("ctx", "dec"), repeat=d):
                    for exc_at in [None] + list(range(d + 1)):
                        (mg.turn_memory_guarding_on if init_guard else mg.turn_memory_guarding_off)()
                        desc = dict(nesting=list(seq), forms=list(forms), exception_at=exc_at, initial_guard=init_guard)
                        log = []
                        b.count("scoped")
                        try:
                            nest(seq, forms, exc_at, log)
                            if exc_at is not None:
                                b.fail("C15.bounded.exception_swallowed", desc, "the body's exception did not propagate")
                        except Boom:
                            if exc_at is None:
                                b.fail("C15.bounded.spurious_exception", desc, "Boom raised without being requested")
                        for (kind, lvl, name, got, exp) in log:
                            if got != exp:
                                b.fail(f"C15.bounded.{kind}", dict(desc, level=lvl, manager=name), f"(TRACK_GRAPH, MEM_GUARD) = {got}, expected {exp}")
                                break
                        if (gt.TRACK_GRAPH, lm.MEM_GUARD) != (True, init_guard):
                            b.fail("C15.bounded.not_restored", desc, f"settings after the outermost scope: {(gt.TRACK_GRAPH, lm.MEM_GUARD)}")
                        b.case(desc)
    # tree-shaped scope programs: the same manager entered again as a SIBLING at the same depth under another ambient setting, with
    # ordinary statements (in-place updates enter mem_guard_off internally) in the bodies.  Spec: a stack of settings.
    def trees(n):
        """all forests of n nodes as nested lists (well-parenthesised sequences)"""
        if n == 0:
            yield []
            return
        for k in range(n):  # first tree has k nodes below its root
            for kids in trees(k):
                for rest in trees(n - 1 - k):
                    yield [kids] + rest

    def label(forest, names, i=0):
        out = []
        for kids in forest:
            nm = names[i]
            i += 1
            sub, i = label(kids, names, i)
            out.append((nm, sub))
        return out, i

    def run_forest(forest, stmt, log, raise_in=None, counter=None):
        for (nm, kids) in forest:
            before = (gt.TRACK_GRAPH, lm.MEM_GUARD)
            counter[0] += 1
            me = counter[0]
            try:
                with mgrs[nm]:
                    log.append(("inside", nm, (gt.TRACK_GRAPH, lm.MEM_GUARD), expected_inside(nm, before)))
                    if stmt and gt.TRACK_GRAPH:
                        t = mg.tensor([1.0, 2.0, 3.0])
                        t[:2] = -1.0  # an in-place update: enters and leaves mem_guard_off internally
                        log.append(("after-inplace", nm, (gt.TRACK_GRAPH, lm.MEM_GUARD), expected_inside(nm, before)))
                    run_forest(kids, stmt, log, raise_in, counter)
                    log.append(("after-children", nm, (gt.TRACK_GRAPH, lm.MEM_GUARD), expected_inside(nm, before)))
                    if raise_in == me:
                        raise Boom()
            finally:
                log.append(("after", nm, (gt.TRACK_GRAPH, lm.MEM_GUARD), before))

    maxn = 3 if tier == "quick" else 4
    for init_guard in (True, False):
        for n in range(2, maxn + 1):
            for forest in trees(n):
                if all(not kids for kids in forest) and len(forest) == n and n > 2:
                    pass
                for names in itertools.product(mgrs, repeat=n):
                    lab, _ = label(forest, names)
                    for stmt in (False, True):
                        for raise_in in ([None] if tier == "quick" and n == maxn else [None, n]):
                            (mg.turn_memory_guarding_on if init_guard else mg.turn_memory_guarding_off)()
                            desc = dict(scope_tree=repr(lab), inplace_statements=stmt, exception_in_node=raise_in, initial_guard=init_guard)
                            log = []
                            b.count("scoped (tree-shaped)")
                            try:
                                run_forest(lab, stmt, log, raise_in, [0])
                            except Boom:
                                pass
                            for (kind, nm, got, exp) in log:
                                if got != exp:
                                    b.fail(f"C15.bounded.tree.{kind}", dict(desc, manager=nm), f"(TRACK_GRAPH, MEM_GUARD) = {got}, expected {exp}")
                                    break
                            if (gt.TRACK_GRAPH, lm.MEM_GUARD) != (True, init_guard):
                                b.fail("C15.bounded.not_restored", desc, f"settings after the outermost scope: {(gt.TRACK_GRAPH, lm.MEM_GUARD)}")
                            b.case(desc)
    mg.turn_memory_guarding_on()
    # turn_memory_guarding_* inside a scope is undone by the scope's exit; outside it sets the default
    with mg.mem_guard_off:
        mg.turn_memory_guarding_on()
    b.case(dict(contract="toggle inside scope"))
    if lm.MEM_GUARD is not True:
        b.fail("C15.bounded.toggle", {}, "exit did not restore the entry setting")
    mg.turn_memory_guarding_off()
    if mg.mem_guard_active() is not False:
        b.fail("C15.bounded.toggle_default", {}, "turn_memory_guarding_off outside any scope did not set the default")
    mg.turn_memory_guarding_on()
    # ---- inside no_autodiff: same values/dtypes, nothing recorded ------------------------------------------
    fns = [
        ("add", lambda x, y: x + y), ("mul-scalar", lambda x, y: x * 2.0), ("getitem", lambda x, y: x[1:]), ("reshape", lambda x, y: x.reshape(-1)), ("sum", lambda x, y: mg.sum(x, axis=0)),
        ("matmul", lambda x, y: mg.matmul(x, y.T)), ("einsum", lambda x, y: mg.einsum("ij,ij->i", x, y)), ("exp-f32", lambda x, y: mg.exp(x.astype(np.float32))), ("where", lambda x, y: mg.where(x > y, x, y)),
        ("softmax", lambda x, y: mg.nnet.softmax(x)), ("concatenate", lambda x, y: mg.concatenate((x, y))), ("transpose", lambda x, y: x.T), ("max", lambda x, y: x.max(axis=1)),
    ]
    for nm, f in fns:
        xa, ya = rng.uniform(1, 2, size=(2, 3)), rng.uniform(1, 2, size=(2, 3))
        x, y = mg.tensor(xa.copy()), mg.tensor(ya.copy())
        (x * y).sum().backward()  # give the inputs gradients
        gx = x.grad.copy()
        ref = f(mg.tensor(xa.copy()), mg.tensor(ya.copy()))
        desc = dict(inside_no_autodiff=nm)
        with mg.no_autodiff:
            out = f(x, y)
            out.backward()
        b.count("no_autodiff records nothing")
        if out.dtype != ref.dtype or not np.array_equal(out.data, ref.data):
            b.fail("C15.bounded.value", desc, "value/dtype differs from the tracked evaluation")
        if out.creator is not None or out.base is not None:
            b.fail("C15.bounded.recorded", desc, "result has a creator / base")
        if len(x._ops) or len(y._ops):
            b.fail("C15.bounded.recorded", desc, "inputs recorded a consumer")
        if x.grad is None or not np.array_equal(x.grad, gx):
            b.fail("C15.bounded.grad_lost", desc, "input lost / changed its gradient")
        if not x.data.flags.writeable or not y.data.flags.writeable or (out.data.base is None and not out.data.flags.writeable):
            b.fail("C15.bounded.locked", desc, "an array was locked inside no_autodiff")
        if out.grad is not None:
            b.fail("C15.bounded.backward_not_noop", desc, "backward() did something inside no_autodiff")
        b.case(desc)
    # backward() inside the scope does nothing -- whatever tensor it is called on (constant / integer / non-constant, with a graph
    # recorded outside the scope)
    for kind in ("nonconstant", "constant=True op", "integer result", "view"):
        x = mg.tensor(rng.uniform(1, 2, size=(3,)))
        y = x * 2.0
        t = {"nonconstant": y, "constant=True op": mg.multiply(y, 3.0, constant=True), "integer result": mg.arange(3) + 1, "view": y[1:]}[kind]
        up = mg.arange(3) if kind == "integer result" else x
        with mg.no_autodiff:
            t.backward()
        desc = dict(backward_inside_no_autodiff=kind)
        b.count("backward inside no_autodiff is a no-op")
        if t.creator is None or (kind != "integer result" and y.creator is None) or x.grad is not None or t.grad is not None:
            b.fail("C15.bounded.backward_not_noop", desc, "backward() inside no_autodiff cleared a recorded graph or wrote a gradient")
        b.case(desc)
    # in-place updates write straight into the tensor's own memory
    for nm, f in (("setitem", lambda t: t.__setitem__(0, 5.0)), ("imul", lambda t: t.__imul__(3.0)), ("out=", lambda t: mg.add(t, 1.0, out=t)), ("view-setitem", lambda t: t[1:].__setitem__(0, 7.0))):
        t = mg.tensor(rng.uniform(1, 2, size=(3,)))
        mem = t.data
        ref = t.data.copy()
        with mg.no_autodiff:
            f(t)
        rt = mg.tensor(ref.copy())
        f(rt)
        desc = dict(inplace_inside_no_autodiff=nm)
        b.count("in-place inside no_autodiff")
        if t.data is not mem or not np.array_equal(t.data, rt.data) or t.creator is not None:
            b.fail("C15.bounded.inplace", desc, "in-place update did not write the tensor's own memory / recorded a graph / wrong values")
        b.case(desc)
    # in-place updates inside no_autodiff on tensors in every gradient / view state: besides the written values NOTHING changes --
    # the gradients of the target, of its base and of sibling views, the base links, creators, consumers
    def states():
        x = mg.tensor(rng.uniform(1, 2, size=(4,)))
        yield "fresh leaf", x, x, [x]
        x = mg.tensor(rng.uniform(1, 2, size=(4,)))
        (x * x).sum().backward()
        yield "leaf holding a gradient", x, x, [x]
        x = mg.tensor(rng.uniform(1, 2, size=(4,)))
        v = x[:2]
        (v * 3.0).sum().backward()
        yield "view that went through backward (cached window)", v, x, [x, v]
        x = mg.tensor(rng.uniform(1, 2, size=(4,)))
        (x * x).sum().backward()
        v = x[1:]
        _ = v.grad
        yield "fresh view of a gradient-holding leaf, window read", v, x, [x, v]
        x = mg.tensor(rng.uniform(1, 2, size=(4,)))
        (x * x).sum().backward()
        v = x[1:]
        w = x[:2]
        yield "fresh view, window not read, sibling view", v, x, [x, v, w]
        x = mg.tensor(rng.uniform(1, 2, size=(4,)))
        v = x[::2]
        L = (v * x[:2]).sum()
        yield "view inside a live (not yet back-propagated) graph", v, x, [x, v, L]

    def snap(ts):
        return [(None if t.grad is None else t.grad.copy(), t.base, t.creator, len(t._ops), t.constant) for t in ts]

    for nm, f in (("setitem", lambda t: t.__setitem__(0, 5.0)), ("imul", lambda t: t.__imul__(3.0)), ("out=", lambda t: mg.add(t, 1.0, out=t)), ("iadd-array", lambda t: t.__iadd__(np.ones(t.shape)))):
        for sname, target, owner, watch in states():
            desc = dict(inplace_inside_no_autodiff=nm, state=sname)
            b.count("in-place inside no_autodiff leaves gradients and graph alone")
            before = snap(watch)
            ref = owner.data.copy()
            was_locked = not owner.data.flags.writeable
            try:
                with mg.no_autodiff:
                    f(target)
            except ValueError as e:
                if was_locked and "read-only" in str(e):
                    b.case(desc, nontrivial=False)  # the memory belongs to a live graph: refusing the write is the guard's job (C08)
                    continue
                b.fail("C15.bounded.inplace_raises", desc, f"{type(e).__name__}: {e}")
                continue
            except Exception as e:
                b.fail("C15.bounded.inplace_raises", desc, f"{type(e).__name__}: {e}")
                continue
            after = snap(watch)
            for k_, ((g0, b0, c0, n0, k0), (g1, b1, c1, n1, k1)) in enumerate(zip(before, after)):
                same_g = (g0 is None and g1 is None) or (g0 is not None and g1 is not None and np.array_equal(g0, g1))
                if not same_g or b0 is not b1 or c0 is not c1 or n0 != n1 or k0 is not k1:
                    b.fail("C15.bounded.inplace_touched_state", dict(desc, tensor=k_), f"gradient kept: {same_g}; base kept: {b0 is b1}; creator kept: {c0 is c1}; consumers {n0}->{n1}; flag kept: {k0 is k1}")
                    break
            b.case(desc)
    return b


def main():
    ap = argparse.ArgumentParser()
    ap.add_argument("--check", required=True)
    ap.add_argument("--tier", default="quick")
    ap.add_argument("--seed", type=int, default=0)
    a = ap.parse_args()
    fn = dict(C08=check_c08, C09=check_c09, C13=check_c13, C15=check_c15)[a.check]
    fn(a.tier, a.seed).emit()


if __name__ == "__main__":
    main()
