"""Replay of a refuted C02.elem obligation against the real code (under /venv/bin/python).

Input (JSON on argv[1]): {op: "module:Class", n: int, index: int, kwargs: {...}, model: {...}}
The solver's model is tried first (when it fixes every x_i); then a grid of domain points incl.
the documented convention points.  A point *fails* when the real op's gradient differs from the
4th-order numeric derivative of the op's own forward pass (or from the convention).
"""
import importlib
import json
import sys
from fractions import Fraction

import numpy as np

import mygrad as mg
from mygrad import Tensor
from runtime.common import num_vjp


def tofloat(s):
    try:
        s = str(s).replace("?", "")
        return float(Fraction(s)) if "/" in s else float(s)
    except Exception:
        return None


def main():
    spec = json.loads(sys.argv[1])
    modname, cls = spec["op"].split(":")
    Op = getattr(importlib.import_module(modname), cls)
    n, idx = spec["n"], spec["index"]
    kw = {k: (v if not isinstance(v, str) else eval(v, {"np": np})) for k, v in spec.get("kwargs", {}).items()}
    pts = []
    m = spec.get("model") or {}
    mp = [tofloat(m.get(f"x{i}")) for i in range(n)]
    if all(v is not None for v in mp):
        pts.append(mp)
    base = [-2.5, -1.0, -0.5, 0.0, 0.3, 1.0, 1.7, 2.5]
    rng = np.random.default_rng(0)
    import itertools

    for combo in itertools.product(base, repeat=n):
        pts.append(list(combo))
    for _ in range(200):
        pts.append(list(rng.uniform(-3, 3, size=n)))
    convention = {"Abs": "abs0", "Maximum": "ties", "Minimum": "ties", "Arcsin": "pm1", "Arccos": "pm1", "Arccsc": "pm1", "Arcsec": "pm1"}.get(cls)
    tried = 0
    for p in pts:
        xs = [np.array([v], dtype=np.float64) for v in p]
        g = np.array([1.5])
        try:
            with np.errstate(all="ignore"):
                ts = [mg.tensor(x, constant=False) for x in xs]
                out = Tensor._op(Op, *ts, op_kwargs=kw)
                if not np.all(np.isfinite(out.data)):
                    continue
                out.backward(g.copy())
                got = ts[idx].grad

                def fwd(*a):
                    with mg.no_autodiff:
                        return Tensor._op(Op, *[mg.tensor(v) for v in a], op_kwargs=kw).data

                h = 1e-4
                exp = num_vjp(fwd, xs, idx, g, h=h)
                # skip points within 2h.. of a kink/boundary of the domain (numeric derivative unreliable)
                probe = [fwd(*[x + (d if j == idx else 0) for j, x in enumerate(xs)]) for d in (-3 * h, 3 * h)]
                if not all(np.all(np.isfinite(v)) for v in probe) or not np.all(np.isfinite(exp)):
                    continue
                at_conv = False
                if convention == "abs0" and p[0] == 0 and kw.get("nan_to_num", True):
                    exp, at_conv = np.array([0.0]), True
                elif convention == "ties" and p[0] == p[1]:
                    exp, at_conv = np.array([0.0]), True
                elif convention == "pm1" and abs(p[0]) == 1:
                    exp, at_conv = np.array([0.0]), True
                elif convention in ("abs0",) and p[0] == 0:
                    continue
                elif cls in ("ReLu", "ELU", "SELU", "Arccot") and p[0] == 0:
                    continue
                tried += 1
                if got is None or not np.allclose(got, exp, rtol=1e-4, atol=1e-6):
                    print(json.dumps(dict(confirmed=True, input=dict(x=p, g=1.5, index=idx, kwargs=spec.get("kwargs", {})), got=None if got is None else np.asarray(got).tolist(), expected=np.asarray(exp).tolist(), at_convention_point=at_conv)))
                    return
        except Exception as e:  # the point is outside the op's domain
            continue
    print(json.dumps(dict(confirmed=False, tried=tried)))


if __name__ == "__main__":
    main()
