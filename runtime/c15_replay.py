"""Replay for refuted C15.untracked obligations: inside no_autodiff nothing may be recorded, locked, cleared or back-propagated."""
import json

import numpy as np

import mygrad as mg

probs = []
# backward() inside no_autodiff does nothing -- also on constant tensors that carry a graph built outside the scope
x = mg.tensor([1.0, 2.0, 3.0])
y = x * 2.0
c = mg.multiply(y, 3.0, constant=True)
i = mg.arange(3) + 1
with mg.no_autodiff:
    c.backward()
    i.backward()
    y.backward()
if c.creator is None or y.creator is None or i.creator is None:
    probs.append("backward() inside no_autodiff cleared a graph that was recorded outside the scope (creator dropped)")
if x.grad is not None:
    probs.append("backward() inside no_autodiff wrote a gradient")
y.backward()
if x.grad is None:
    probs.append("after the scope, y.backward() no longer reaches x (the graph was torn down inside no_autodiff)")
# operations inside the scope
a = mg.tensor(np.arange(4.0))
(a * a).sum().backward()
g0 = a.grad.copy()
with mg.no_autodiff:
    b = a + 1.0
    v = a[1:]
    a[0] = 5.0
if b.creator is not None or v.base is not None or len(a._ops) or a.grad is None or not np.array_equal(a.grad, g0) or not a.data.flags.writeable:
    probs.append("an operation inside no_autodiff recorded graph information / dropped a gradient / locked an array")
print(json.dumps(dict(confirmed=bool(probs), input="see runtime/c15_replay.py (constant tensors with creators, backward inside no_autodiff)", observed=probs,
                      required="inside no_autodiff backward() does nothing and operations record nothing")))
