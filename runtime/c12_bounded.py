"""C12.ops [B] — bounded contract over every catalogue case of runtime/c02_bounded.py (all registered ops and
nnet layers): evaluating the function and back-propagating never changes the contents of an operand array,
of an index object or of the seed passed to backward(grad); checked with before/after copies."""
import numpy as np

import mygrad as mg
from runtime.c02_bounded import cases
from runtime.common import Bounded, parse_args


def run(tier, seed):
    rng = np.random.default_rng(seed)
    b = Bounded("C12.ops", bound="the C02.rest catalogue (every registered op / layer x options), one value draw, seed = random array", rule="case = (function, options, shapes); non-trivial = has a float operand")
    idx_objs = [np.array([0, 0, 2]), [0, 2], np.array([True, False, True])]
    for (name, f, arrs, opts, sel) in cases(rng, tier):
        desc = dict(fn=name, opts={k: repr(v) for k, v in opts.items()}, shapes=[list(np.shape(a)) for a in arrs])
        try:
            ops = [np.array(a, copy=True) for a in arrs]
            snaps = [a.copy() for a in ops]
            ts = [mg.tensor(a, copy=False, constant=False) if a.dtype.kind == "f" else mg.tensor(a, copy=False) for a in ops]
            out = f(*ts)
            b.count("forward frame")
            if "setitem" not in name and "[where,out]" not in name:
                for i, (a, s) in enumerate(zip(ops, snaps)):
                    if not np.array_equal(a, s, equal_nan=True):
                        b.fail(f"C12.ops.{name}.forward_mutates_operand", dict(desc, operand=i), "forward changed an operand's contents")
            g = rng.uniform(0.5, 1.5, size=out.shape)
            gs = g.copy()
            out.backward(g)
            b.count("backward frame")
            if not np.array_equal(g, gs):
                b.fail(f"C12.ops.{name}.backward_mutates_seed", desc, "backward(grad) changed the caller's gradient array")
            if "setitem" not in name and "[where,out]" not in name:
                for i, (a, s) in enumerate(zip(ops, snaps)):
                    if not np.array_equal(a, s, equal_nan=True):
                        b.fail(f"C12.ops.{name}.backward_mutates_operand", dict(desc, operand=i), "backward changed an operand's contents")
            b.case(desc)
        except Exception as e:
            b.error(f"{name}: {type(e).__name__}: {e}")
    # the same frame WITHOUT the memory guard's protection (mem_guard_off, no_autodiff: operands are writeable there, so an in-place write inside a
    # forward pass goes through silently) and with non-finite values in the operands (+inf, a slice of -inf, nan), which steer kernels into
    # their special-case branches
    def variants(a):
        yield "finite", a
        if a.dtype.kind == "f" and a.size:
            for nm, val in (("+inf", np.inf), ("-inf", -np.inf), ("nan", np.nan)):
                v = a.copy()
                v.flat[0] = val
                yield f"one {nm}", v
            if a.ndim >= 1 and a.shape[-1] > 1:
                v = a.copy()
                v[..., :] = np.where(np.arange(a.shape[-1]) >= 0, -np.inf, v) if a.ndim == 1 else v
                if a.ndim >= 2:
                    v[0, ...] = -np.inf
                yield "a slice of -inf", v

    modes = [("mem_guard_off", lambda: mg.mem_guard_off), ("no_autodiff", lambda: mg.no_autodiff)]
    for (name, f, arrs, opts, sel) in cases(rng, tier):
        if "setitem" in name or "[where,out]" in name or "out=" in name:
            continue
        for mode, ctxf in modes:
            for vi, (vname, first) in enumerate(variants(np.array(arrs[0], copy=True)) if len(arrs) else []):
                if tier == "quick" and vname not in ("finite", "a slice of -inf", "one nan") :
                    continue
                ops = [first] + [np.array(a, copy=True) for a in arrs[1:]]
                snaps = [a.copy() for a in ops]
                desc = dict(fn=name, opts={k: repr(v) for k, v in opts.items()}, shapes=[list(np.shape(a)) for a in arrs], mode=mode, values=vname)
                try:
                    with np.errstate(all="ignore"), ctxf():
                        # arrays are handed over directly (and as tensors sharing them): the caller's own memory is at stake
                        out = f(*[mg.tensor(a, copy=False, constant=(a.dtype.kind != "f") or None) for a in ops])
                except Exception:
                    continue  # the routine refuses these values / this mode: nothing was computed
                b.count("forward frame without the guard")
                for i, (a, s_) in enumerate(zip(ops, snaps)):
                    if not np.array_equal(a, s_, equal_nan=True):
                        b.fail(f"C12.ops.{name}.forward_mutates_operand", dict(desc, operand=i), f"forward changed an operand's contents: {s_.tolist()} -> {a.tolist()}")
                b.case(desc)
    # array-valued ARGUMENTS (stride / padding / dilation / pool / repeats / shift / axes given as ndarrays or lists) are inputs too: unchanged
    # by the forward and by the backward pass
    import mygrad.nnet as nn

    def arg_cases():
        x4 = rng.uniform(1, 2, size=(1, 1, 6, 8))
        w4 = rng.uniform(1, 2, size=(1, 1, 2, 2))
        yield "max_pool[stride array]", lambda a: nn.max_pool(mg.tensor(x4), (2, 2), a["stride"]), dict(stride=np.array([2, 3]))
        yield "max_pool[pool array]", lambda a: nn.max_pool(mg.tensor(x4), a["pool"], (2, 2)), dict(pool=np.array([2, 2]))
        yield "max_pool[lists]", lambda a: nn.max_pool(mg.tensor(x4), a["pool"], a["stride"]), dict(pool=[2, 2], stride=[2, 3])
        yield "conv_nd[stride array]", lambda a: nn.conv_nd(mg.tensor(x4), mg.tensor(w4), stride=a["stride"]), dict(stride=np.array([2, 3]))
        yield "conv_nd[padding,dilation arrays]", lambda a: nn.conv_nd(mg.tensor(x4), mg.tensor(w4), stride=1, padding=a["padding"], dilation=a["dilation"]), dict(padding=np.array([1, 0]), dilation=np.array([2, 1]))
        yield "conv_nd[lists]", lambda a: nn.conv_nd(mg.tensor(x4), mg.tensor(w4), stride=a["stride"], padding=a["padding"]), dict(stride=[2, 1], padding=[0, 1])
        x2 = rng.uniform(1, 2, size=(2, 3))
        yield "repeat[repeats array]", lambda a: mg.repeat(mg.tensor(x2), a["repeats"], axis=1), dict(repeats=np.array([1, 2, 0]))
        yield "roll[shift array]", lambda a: mg.roll(mg.tensor(x2), a["shift"], axis=(0, 1)), dict(shift=np.array([1, 2]))
        yield "transpose[axes list]", lambda a: mg.transpose(mg.tensor(x2), a["axes"]), dict(axes=[1, 0])
        yield "reshape[shape list]", lambda a: mg.reshape(mg.tensor(x2), a["shape"]), dict(shape=[3, 2])
        yield "sum[axis tuple]", lambda a: mg.sum(mg.tensor(x2), axis=a["axis"]), dict(axis=(0, 1))
        yield "einsum[operand list]", lambda a: mg.einsum("ij,ij->i", *a["ops"]), dict(ops=[mg.tensor(x2), mg.tensor(x2 * 2)])
        yield "moveaxis[lists]", lambda a: mg.moveaxis(mg.tensor(x2), a["src"], a["dst"]), dict(src=[0], dst=[1])
        yield "clip[bound arrays]", lambda a: mg.clip(mg.tensor(x2), a["lo"], a["hi"]), dict(lo=np.full((3,), 1.2), hi=np.full((3,), 1.8))

    import copy as _copy

    for nm, call, args in arg_cases():
        snap = {k: (v.copy() if isinstance(v, np.ndarray) else _copy.copy(v)) for k, v in args.items() if not (isinstance(v, list) and v and isinstance(v[0], mg.Tensor))}
        desc = dict(fn=nm, arguments={k: repr(v)[:40] for k, v in snap.items()})
        try:
            out = call(args)
            changed_fwd = [k for k, v in snap.items() if not np.array_equal(np.asarray(args[k]), np.asarray(v))]
            out.backward(np.ones(out.shape))
            changed_bwd = [k for k, v in snap.items() if not np.array_equal(np.asarray(args[k]), np.asarray(v))]
        except Exception as e:
            b.error(f"{nm}: {type(e).__name__}: {e}")
            continue
        b.count("argument frame")
        if changed_fwd:
            b.fail(f"C12.ops.{nm.split('[')[0]}.forward_mutates_argument", desc, f"the forward pass changed the caller's argument(s) {changed_fwd}: now {[np.asarray(args[k]).tolist() for k in changed_fwd]}")
        elif changed_bwd:
            b.fail(f"C12.ops.{nm.split('[')[0]}.backward_mutates_argument", desc, f"backward() changed the caller's argument(s) {changed_bwd}: now {[np.asarray(args[k]).tolist() for k in changed_bwd]}")
        b.case(desc)
    # index objects
    for ix in idx_objs:
        x = mg.tensor(rng.uniform(1, 2, size=(3, 2)))
        snap = np.array(ix, copy=True)
        y = x[ix]
        y.backward()
        x2 = mg.tensor(rng.uniform(1, 2, size=(3, 2)))
        x2[ix] = 1.0
        x2.sum().backward()
        b.case(dict(index=repr(ix)))
        if not np.array_equal(np.asarray(ix), snap):
            b.fail("C12.ops.index_object_mutated", dict(index=repr(ix)), "an index object was modified")
    return b


if __name__ == "__main__":
    a = parse_args()
    run(a.tier, a.seed).emit()
