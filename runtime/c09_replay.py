"""Replay for refuted C09.raise obligations: run small two-graph histories natively and report the first one in which
L2.backward() neither raises InvalidBackprop nor yields the recorded forward's gradients."""
import json

import numpy as np

import runtime.state_bounded as sb

b = sb.check_c09("quick", 0)
kf_region = lambda f: "actions" in f["input"] and any(a in ("x[...]=c", "view-of-x*=c", "new-op") for a in f["input"]["actions"])  # noqa (known finding F4)
fresh = [f for f in b.failures if not kf_region(f)]
if fresh:
    f = fresh[0]
    print(json.dumps(dict(confirmed=True, input=f["input"], observed=f["detail"], required="L2.backward() raises InvalidBackprop or produces the gradients of the forward computation as recorded")))
else:
    print(json.dumps(dict(confirmed=False, note="no history outside the known-finding region F4 misbehaves")))
