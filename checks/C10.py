"""C10 — constant semantics."""
from lib.checkdef import default_replay_cmd, run_property


def run(tier, seed):
    return run_property(
        "C10", tier, seed, level="other",
        deductive=[("c10_astype", None), ("c01_step", r"C10\.|no_other_exception"), ("c10_init", None), ("c04_graph", r"C10\.replay|C04\.replay"), ("c_op", r"^C10\.infer"), ("c13_inplace", r"^C10\.inplace"), ("c06_getter", r"^C10\.getter")],
        bounded=[("api_bounded.py", ["--check", "C10"])],
        trusted=["pyvc/graphdom.py heap model", "NumPy dtype classification (np.floating / np.integer / np.bool_ subclass tests) as axioms of the dtype lattice"],
        assumptions=[
            "deductive: dtype gate / default flag / bool-only `constant` of Tensor.__init__ over an abstract dtype lattice, _resolve_constant, and 'constants never receive a gradient' for "
            "Operation.backward; flag inference inside Tensor._op and in-place flag preservation are bounded",
        ],
        explanation="Gate and no-gradient-for-constants discharged deductively; inference rules over programs and flag assignments are a bounded run-time contract.",
        min_obligations=20,
    )


replay = default_replay_cmd
