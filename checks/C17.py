"""C17 — Tensor construction and conversion: copying, aliasing and dtype rules."""
from lib.checkdef import default_replay_cmd, run_property


def run(tier, seed):
    return run_property(
        "C17", tier, seed, level="other",
        deductive=[("c10_astype", None), ("c17_tensor", None), ("c10_init", None)],
        bounded=[("api_bounded.py", ["--check", "C17"])],
        trusted=["NumPy (np.array / np.asarray copy rules) is the oracle of the bounded part"],
        assumptions=[
            "deductive: tensor()/astensor() return-as-is rule, asarray() unwrapping, the dtype gate of Tensor.__init__; memory aliasing of np.array/np.asarray is an axiom checked only boundedly",
        ],
        explanation="Return-as-is / gate rules discharged deductively; aliasing, dtype and creation-routine agreement with NumPy is a bounded run-time contract over the input lattice.",
        min_obligations=10,
    )


replay = default_replay_cmd
