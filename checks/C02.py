"""C02 — every op's backward pass is the exact VJP of its forward pass."""
import ast
import json
import os
import subprocess

from contracts import c02_elem, c02_reduce, c02_struct
from lib.report import REPO, VENV_PY, VERIF, Report, run_bounded
from pyvc import frontend, solve

BOUNDED_OPS = {
    # class name -> where it is exercised in runtime/c02_bounded.py
    "MatMul", "EinSum", "Norm", "Where", "FocalLoss", "MulticlassHinge", "SoftmaxCrossEntropy", "MarginRanking", "Softmax", "LogSoftmax",
    "GRUnit", "BatchNorm", "MaxPoolND", "ConvND", "GetItem", "SetItem", "Repeat", "Concatenate", "Stack", "Tensor_Transpose_Property",
    "Transpose", "MoveAxis", "SwapAxes", "Roll", "BroadcastTo", "Sum", "Prod", "CumProd", "CumSum", "Variance", "StdDev", "Mean", "Max", "Min",
    "Reshape", "Flatten", "Ravel", "Squeeze", "ExpandDims", "AtLeast1D", "AtLeast2D", "AtLeast3D", "UnView", "ApplyMask",
}
ABSTRACT = {"Operation", "Ufunc", "UnaryUfunc", "BinaryUfunc", "Sequential", "_MaxMin", "MaxMin", "_PreservesOrder", "BroadcastableOp", "_AtLeastKD"}


def scan_operation_classes():
    """[E] every class in the package that (transitively) derives from Operation."""
    classes = {}
    for modname in frontend.iter_package_modules("mygrad"):
        try:
            m = frontend.load_module(modname)
        except Exception:
            continue
        for name, node in m.defs.items():
            if isinstance(node, ast.ClassDef):
                bases = [b.id if isinstance(b, ast.Name) else (b.attr if isinstance(b, ast.Attribute) else None) for b in node.bases]
                classes[name] = (modname, bases)
    ops = set()
    changed = True
    roots = {"Operation"}
    while changed:
        changed = False
        for name, (_m, bases) in classes.items():
            if name not in roots and any(b in roots for b in bases):
                roots.add(name)
                changed = True
    return {n: classes[n][0] for n in roots if n in classes}


def replay_elem(r):
    meta = r.meta
    if meta.get("kind") != "vjp":
        return None, False, "frame/alias obligation: no numeric input involved"
    spec = dict(op=meta["op"], n=int(max(meta.get("order", [0])) + 1), index=meta["index"], kwargs=meta.get("kwargs", {}), model=r.model)
    # n = number of operands of the op
    for (mod, cls, n, kw, _e) in c02_elem.OPS:
        if f"{mod}:{cls}" == meta["op"]:
            spec["n"] = n
    for i, v in (meta.get("fixed") or {}).items():
        spec["model"] = dict(spec["model"] or {}, **{f"x{i}": str(v)})
    spec["kwargs"] = {k: v for k, v in spec["kwargs"].items() if not v.startswith("alpha")}
    if "condition" in spec["kwargs"]:
        # Where: the solver's value of the (pointwise) condition
        spec["kwargs"]["condition"] = "True" if str((r.model or {}).get("cond", "True")).lower().startswith("t") else "False"
    if meta["op"].endswith(":ELU"):
        spec["kwargs"] = {"alpha": "0.7"}
    env = dict(os.environ, PYTHONPATH=os.path.join(REPO, "src") + os.pathsep + VERIF)
    p = subprocess.run([VENV_PY, os.path.join(VERIF, "runtime", "c02_replay.py"), json.dumps(spec)], capture_output=True, text=True, env=env, timeout=300)
    lines = [l for l in p.stdout.splitlines() if l.startswith("{")]
    if not lines:
        return None, False, f"replay produced no result: {p.stderr[-300:]}"
    out = json.loads(lines[-1])
    return None, out.get("confirmed", False), out


STRUCT_PROVED = {"Tensor_Transpose_Property", "Transpose", "MoveAxis", "SwapAxes", "Roll", "Reshape", "Flatten", "Ravel", "Squeeze", "ExpandDims",
                 "AtLeast1D", "AtLeast2D", "AtLeast3D", "BroadcastTo", "Concatenate", "Stack", "Sum", "Mean"}


def replay_struct(r):
    meta = r.meta
    if meta.get("kind") == "lemma":
        return None, False, "arithmetic lemma: no input of the library involved"
    spec = dict(op=meta["op"], rank=meta["rank"], args=meta.get("args", "()"), axis=meta.get("axis"), keepdims=meta.get("keepdims"), ones=meta.get("ones", []), model=r.model, mode="forward" if meta.get("kind") in ("forward", "join-forward") else "vjp")
    env = dict(os.environ, PYTHONPATH=os.path.join(REPO, "src") + os.pathsep + VERIF)
    p = subprocess.run([VENV_PY, os.path.join(VERIF, "runtime", "c02_struct_replay.py"), json.dumps(spec, default=str)], capture_output=True, text=True, env=env, timeout=300)
    lines = [l for l in p.stdout.splitlines() if l.startswith("{")]
    if not lines:
        return None, False, f"replay produced no result: {p.stderr[-300:]}"
    out = json.loads(lines[-1])
    return None, out.get("confirmed", False), out


def run(tier, seed):
    rep = Report("C02", tier, seed, level="other")
    obls, info = c02_elem.obligations(tier)
    rep.add_functions(info["functions"])
    rep.unsupported += info["unsupported"]
    results = solve.discharge(obls, timeout_ms=20000 if tier == "quick" else 60000, cross_check=(tier == "thorough"))

    def replay(r):
        _p, confirmed, detail = replay_elem(r)
        path = rep.write_replay(r.name, dict(obligation=r.to_json(), solver_output=r.model, confirmed=confirmed, replay=detail,
                                             how="python3-vt bin/check C02 --replay <this file>"))
        return path, confirmed, detail

    rep.add_deductive(results, replay)
    # rearrangement operations (index-function domain): VJP for symbolic extents / shifts, enumerated ranks and axis arguments
    sobls, sinfo = c02_struct.obligations(tier)
    sobls = [o for o in sobls if not o.name.startswith("C03.")]  # the forward-agrees-with-NumPy obligations belong to C03's check
    robls, rinfo = c02_reduce.obligations(tier)  # Sum / Mean
    sobls += robls
    sinfo["functions"].update(rinfo["functions"])
    sinfo["unsupported"] += [f"c02_reduce: {u}" for u in rinfo["unsupported"]]
    sinfo["paths"] += rinfo["paths"]
    rep.add_functions(sinfo["functions"])
    rep.unsupported += [f"c02_struct: {u}" for u in sinfo["unsupported"]]
    sresults = solve.discharge(sobls, timeout_ms=20000 if tier == "quick" else 60000, cross_check=(tier == "thorough"))

    def sreplay(r):
        _p, confirmed, detail = replay_struct(r)
        path = rep.write_replay(r.name, dict(obligation=r.to_json(), solver_output=r.model, confirmed=confirmed, replay=detail,
                                             how="python3-vt bin/check C02 --replay <this file>"))
        return path, confirmed, detail

    rep.add_deductive(sresults, sreplay)
    # [E] every Operation subclass is under a contract (proved) or a bounded contract
    ops = scan_operation_classes()
    proved = {cls for (_m, cls, *_r) in c02_elem.OPS} | STRUCT_PROVED
    items, failures = [], []
    for name, mod in sorted(ops.items()):
        if name in ABSTRACT:
            continue
        where = "proved(PyVC)" if name in proved else ("bounded" if name in BOUNDED_OPS else None)
        items.append(f"{mod}:{name} -> {where}")
        if where is None:
            # a new op without a contract is *undecided* (needs a contract), not a violation
            rep.unsupported.append(f"Operation subclass {mod}:{name} has neither a proved nor a bounded VJP contract")
    rep.add_enumeration("C02.registry: every Operation subclass found by AST scan has a VJP contract", items, failures)
    b = run_bounded("c02_bounded.py", tier, seed)
    rep.add_bounded(b)
    rep.trusted += [
        "contracts/derivative_table.py (d/dx of NumPy kernels, conventions from the property statement)",
        "pyvc/realdom.py identity basis (sin^2+cos^2=1, tan=sin/cos, exp>0, exp(a-b)exp(b)=exp(a), sinh/cosh/tanh via exp, sqrt(u)^2=u, cbrt^3, log(exp u)=u, x^(y-1)x=x^y)",
        "NumPy elementwise kernels behave pointwise and equal their mathematical namesakes",
        "z3 4.x nlsat / cvc5 soundness",
        "pyvc/idxdom.py: NumPy's definitions of transpose / swapaxes / moveaxis / roll / argsort over index tuples, and of reshape / ravel / flatten / "
        "squeeze / expand_dims / atleast_kd as 'same C-order flat sequence, new shape' (axioms)",
    ]
    rep.assumptions += [
        "floats are treated as mathematical reals (rounding, overflow, inf/nan not modelled)",
        "pointwise abstraction: operands already broadcast to a common shape (broadcast reduction is C01.rb/C01.step)",
        "Sinc: the band 0<|x|<=1e-162, where the code returns 0 for a derivative of magnitude <1e-161, is excluded",
        "bounded part: numeric 4th-order central differences of the op's own forward are the VJP oracle (rel 2e-5)",
        "Sum / Mean (C02.reduce): np.sum / np.mean are not executed symbolically (shape rule + unknown contents; the real __call__ is obliged to hand data, axis and keepdims "
        "over unchanged); keepdims is always passed explicitly (True / False) as every wrapper does; ranks 0..3 and all axis arguments enumerated, extents symbolic",
        "rearrangement ops (C02.struct): ranks 0..3 (thorough 0..4) and every axis argument for those ranks are enumerated; extents, roll shifts and "
        "reshape targets are symbolic integers of unbounded value; np.roll(axis=None) and order != 'C' are outside the contract (bounded only)",
        "extraction drops docstrings, annotations, TYPE_CHECKING blocks, message texts",
    ]
    rep.extra["explanation"] = (
        "Mixed level: %d elementwise/activation VJP+frame+alias obligations discharged deductively by PyVC (symbolic execution of the "
        "real __call__/backward_var ASTs, z3 NRA) for all real inputs; %d obligations on the 16 rearrangement / joining operations (transpose family, roll, "
        "reshape family, broadcast_to, concatenate, stack) and on Sum / Mean discharged in the index-function domain for symbolic extents; the remaining non-elementwise kernels are checked by a bounded run-time "
        "VJP contract over an enumerated catalogue (counted separately, never as proved); a complete AST enumeration shows every "
        "Operation subclass falls under one of the two." % (sum(1 for r in results if r.status == "discharged"), sum(1 for r in sresults if r.status == "discharged"))
    )
    rep.extra["paths"] = info["paths"] + sinfo["paths"]
    rep.extra["numpy_models_used"] = sorted(info["models"])[:80]
    if tier == "thorough":
        rep.run_canaries(['c02_elem', 'c02_struct', 'c02_reduce'])
    return rep.finish(min_obligations=300)


def replay(path):
    d = json.load(open(path))
    print(json.dumps(d.get("replay") or d, indent=1)[:3000])
    return 1 if d.get("confirmed") else 0
