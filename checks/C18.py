"""C18 — save/load round-trips a tensor's data, dtype and gradient."""
from lib.checkdef import default_replay_cmd, run_property


def run(tier, seed):
    return run_property(
        "C18", tier, seed, level="other",
        deductive=[("c18_io", None)],
        bounded=[("api_bounded.py", ["--check", "C18"])],
        trusted=["np.savez / np.load round-trip arrays under their keys with equal value, dtype and shape (axiom), for paths and file objects"],
        assumptions=["deductive: save() stores exactly data (and grad iff present) and raises TypeError for non-tensors without touching the tensor; load() rebuilds data and re-seeds the gradient via backward(grad)"],
        explanation="save/load call structure discharged on the AST with the savez/load axiom; the end-to-end round trip is a bounded run-time contract.",
        min_obligations=5,
    )


replay = default_replay_cmd
