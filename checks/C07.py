"""C07 — backward() releases the whole graph; gradients never go stale."""
from lib.checkdef import default_replay_cmd, run_property


def run(tier, seed):
    return run_property(
        "C07", tier, seed, level="other",
        deductive=[("c07_clear", None), ("c14_seed", r"clear_graph_last|collect_first|ones|fresh_owner"), ("c01_topo", r"C07\.null|receiver_grads_none|new_members|grads_only_nulled"), ("c_op", r"^C07\.null|^C04\.base\.(stale_base_link_dropped|result_base).*p0=stale_view"), ("c13_inplace", r"^C07\.inplace"), ("c04_shape", r"^C07\.shape")],
        bounded=[("graph_bounded.py", ["--check", "C07"])],
        trusted=["CPython frees an object when its last strong reference disappears and no cycle holds it", "pyvc heap model"],
        assumptions=[
            "deductive part: null_grad, the nulling performed by collect_all_tensors_and_clear_grads on the visited tensor, and Tensor.clear_graph's per-call effect "
            "with the recursive calls replaced by the function's own contract (induction on the number of tensors with a creator)",
            "'freed without a cyclic-GC pass' is observed (weakrefs with gc disabled) on the catalogue only: it is a statement about CPython",
        ],
        explanation="clear_graph / null_grad contracts discharged deductively; release by reference counting, staleness on reuse and bit-identical repetition are a bounded "
        "run-time contract over the program catalogue.",
        min_obligations=10,
    )


replay = default_replay_cmd
