"""C08 — memory guard: arrays in a live graph are read-only, and restored afterwards."""
from lib.checkdef import default_replay_cmd, run_property


def _replay(rep, r):
    if "failed_op_releases" in r.name:
        from checks.C13 import _replay_op

        return _replay_op(rep, r)
    return None, False, "structural obligation: no input to replay"


def run(tier, seed):
    return run_property(
        "C08", tier, seed, level="other",
        deductive=[("c08_locks", None), ("c08_sets", None), ("c_op", r"^C08\.op"), ("c13_inplace", r"^C08\.inplace")],
        replay=_replay,
        bounded=[("state_bounded.py", ["--check", "C08"])],
        trusted=[
            "pyvc/heapdom.py encoding of dict / Counter / defaultdict(set) keyed by id()",
            "NumPy: flags.writeable may be set True only on an owner or on a view whose base is writeable",
        ],
        assumptions=[
            "id() is treated as injective over all arrays ever allocated (CPython may reuse the address of a dead array; stale-id collisions are outside the model)",
            "finalizers run atomically w.r.t. the verified functions",
            "the executor evaluates generator expressions / generator functions eagerly at their point of creation: an edit that only changes how a lazily consumed generator interleaves with its consumer's side effects (e.g. deciding 'natively read-only' lazily while locking) is invisible to the deductive layer and left to the bounded histories",
            "a read-only view whose base is ALREADY locked by an earlier live operation is taken to have been locked by mygrad (indistinguishable from a view taken while the base was locked, which the property lets count as having its owner's flag)",
            "deductive part: per-call contracts of array_is_tracked, lock_arr_writeability, _release_lock_on_arr_writeability (counter / tracker / waiting-view tables, flag, frame) "
            "and unique_arrs_and_bases; the history-level invariant INV-L is checked boundedly (all histories <= 3/4 statements incl. both drop orders)",
        ],
        explanation="Per-call lock/release contracts discharged deductively for arbitrary table contents; read-only-while-live and restoration at quiescence over whole "
        "histories is a bounded run-time contract.",
        min_obligations=20,
    )


replay = default_replay_cmd
