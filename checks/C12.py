"""C12 — operations never modify their inputs; gradients are never aliased."""
import json
import os
import subprocess

from lib.checkdef import default_replay_cmd, run_property
from lib.report import REPO, VENV_PY, VERIF


def _replay(rep, r):
    if "OWNG" not in r.name and "C12.seed" not in r.name and "C12.frame" not in r.name:
        return None, False, None
    env = dict(os.environ, PYTHONPATH=os.path.join(REPO, "src") + os.pathsep + VERIF)
    p = subprocess.run([VENV_PY, os.path.join(VERIF, "runtime", "c12_replay.py")], capture_output=True, text=True, env=env, timeout=300)
    lines = [l for l in p.stdout.splitlines() if l.startswith("{")]
    out = json.loads(lines[-1]) if lines else dict(confirmed=False, note=p.stderr[-300:])
    path = rep.write_replay(r.name, dict(obligation=r.to_json(), solver_output=r.model, confirmed=out.get("confirmed", False), replay=out))
    return path, out.get("confirmed", False), out


def run(tier, seed):
    return run_property(
        "C12", tier, seed, level="other",
        deductive=[("c01_step", r"C12\.|no_other_exception"), ("c02_elem", r"^C12\.frame|^C02\.alias"), ("c05_ops", r"grad_unwritten|result_is_a_copy"), ("c14_seed", r"C12\.")],
        bounded=[("graph_bounded.py", ["--check", "C12"]), ("c12_bounded.py", [])],
        replay=_replay,
        trusted=["pyvc/graphdom.py + pyvc/realdom.py NumPy axioms (which calls write which array)", "C02.alias classes for ops outside PyVC's subset are observed, not proved"],
        assumptions=[
            "frame of backward_var is proved for the elementwise ops and ApplyMask/UnView (every NumPy write targets an array that is fresh in the call); for the "
            "remaining kernels (incl. numba kernels of GRU) it is a bounded checksum contract",
            "ownership of stored gradients (OWNG) is proved for Operation.backward; the seed stored by Tensor.backward is covered by the bounded contract",
        ],
        explanation="Ownership/no-alias invariant of every gradient written by Operation.backward and the write frames of all elementwise backward rules are discharged; "
        "input/seed/data checksums and pairwise shares_memory over all gradients are a bounded run-time contract over the catalogue and every registered op.",
        min_obligations=200,
    )


replay = default_replay_cmd
