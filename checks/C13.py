"""C13 — a failed operation leaves no trace."""
from lib.checkdef import default_replay_cmd, run_property


def run(tier, seed):
    return run_property(
        "C13", tier, seed, level="other",
        deductive=[("c08_locks", r"C13\.|C08\.release|C08\.lock"), ("c04_graph", r"reroute"), ("c_op", r"^C13\.op|^C08\.op\.failed")],
        bounded=[("state_bounded.py", ["--check", "C13"])],
        trusted=["pyvc heap/dict model of the lock tables", "NumPy refuses flags.writeable=True on a view whose base is read-only (hence a view's flag is restored lazily, when its base is released)"],
        assumptions=[
            "deductive part: lock followed by release restores the lock tables' observable content for an array (C13.lock_release_roundtrip), and reroute_ops_through "
            "(used by restore_old_graph) is position-wise and reversible; Tensor._op's try/except and _in_place_op's except path are covered by the bounded contract",
            "bounded: 3 base programs x every insertion position x 15 failing statement kinds x {one epoch, across an epoch boundary}; per-statement snapshot of "
            "(data, constant, base, creator, consumers, operand tuples, view children, grad) of every existing tensor; flags compared at the end of the program",
        ],
        explanation="Lock/release round trip and the rerouting primitive are discharged deductively; 'no trace' for whole statements is a bounded fault-injection contract.",
        min_obligations=10,
    )


replay = default_replay_cmd
