"""C13 — a failed operation leaves no trace."""
import json
import os
import subprocess

from lib.checkdef import default_replay_cmd, run_property
from lib.report import REPO, VENV_PY, VERIF

_memo = {}


def _replay_op(rep, r):
    """Tensor._op's failure scenarios map onto public calls (runtime/c_op_replay.py): a lock leak is observable on the caller's array"""
    key = "op:" + ("result" if "raises=result" in r.name else "kernel")
    if key not in _memo:
        env = dict(os.environ, PYTHONPATH=os.path.join(REPO, "src") + os.pathsep + VERIF)
        p = subprocess.run([VENV_PY, os.path.join(VERIF, "runtime", "c_op_replay.py"), json.dumps(dict(scenario=r.name))], capture_output=True, text=True, env=env, timeout=300)
        lines = [l for l in p.stdout.splitlines() if l.startswith("{")]
        _memo[key] = json.loads(lines[-1]) if lines else dict(confirmed=False, note=f"replay produced no result: {p.stderr[-300:]}")
    out = _memo[key]
    path = rep.write_replay(r.name, dict(obligation=r.to_json(), solver_output=r.model, confirmed=out.get("confirmed", False), replay=out))
    return path, out.get("confirmed", False), out


def _replay(rep, r):
    if "failed_op_releases" in r.name or r.name.startswith("C13.op"):
        return _replay_op(rep, r)
    if not r.name.startswith("C13.inplace"):
        return None, False, "structural obligation: no input to replay"
    key = json.dumps({k: r.meta.get(k) for k in ("exception", "self_is_view", "prior_grad")}, sort_keys=True)
    if key not in _memo:
        env = dict(os.environ, PYTHONPATH=os.path.join(REPO, "src") + os.pathsep + VERIF)
        p = subprocess.run([VENV_PY, os.path.join(VERIF, "runtime", "c13_replay.py"), key], capture_output=True, text=True, env=env, timeout=300)
        lines = [l for l in p.stdout.splitlines() if l.startswith("{")]
        _memo[key] = json.loads(lines[-1]) if lines else dict(confirmed=False, note=f"replay produced no result: {p.stderr[-300:]}")
    out = _memo[key]
    path = rep.write_replay(r.name, dict(obligation=r.to_json(), solver_output=r.model, confirmed=out.get("confirmed", False), replay=out))
    return path, out.get("confirmed", False), out


def run(tier, seed):
    return run_property(
        "C13", tier, seed, level="other",
        deductive=[("c08_locks", r"C13\.|C08\.release|C08\.lock"), ("c04_graph", r"reroute"), ("c_op", r"^C13\.op|^C08\.op\.failed"), ("c13_inplace", r"^C13\."), ("c04_dupgraph", r"^C13\.restore"), ("c04_shape", r"^C13\.shape")],
        replay=_replay,
        bounded=[("state_bounded.py", ["--check", "C13"])],
        trusted=["pyvc heap/dict model of the lock tables", "NumPy refuses flags.writeable=True on a view whose base is read-only (hence a view's flag is restored lazily, when its base is released)"],
        assumptions=[
            "deductive part: lock followed by release restores the lock tables' observable content for an array (C13.lock_release_roundtrip), and reroute_ops_through "
            "(used by restore_old_graph) is position-wise and reversible; Tensor._op's try/except (contracts/c_op.py) and _in_place_op's except path (contracts/c13_inplace.py: any Exception subclass -> restore_old_graph once, prior (_grad,_view_grad,_base) restored, same exception re-raised, nothing else) are discharged with callees replaced by their contracts; restore_old_graph itself is under contract (contracts/c04_dupgraph.py: one reroute back per member, members point to the family base again, nothing else) on families of up to 4 members",
            "bounded: 3 base programs x every insertion position x 15 failing statement kinds x {one epoch, across an epoch boundary}; per-statement snapshot of "
            "(data, constant, base, creator, consumers, operand tuples, view children, grad) of every existing tensor; flags compared at the end of the program",
        ],
        explanation="Lock/release round trip and the rerouting primitive are discharged deductively; 'no trace' for whole statements is a bounded fault-injection contract.",
        min_obligations=10,
    )


replay = default_replay_cmd
