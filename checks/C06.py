"""C06 — a view's gradient is the corresponding view of its base's gradient."""
import json
import os
import subprocess

from lib.checkdef import default_replay_cmd, run_property
from lib.report import REPO, VENV_PY, VERIF


_memo = {}


def _replay_getter(rep, r):
    if "getter_out" not in _memo:
        env = dict(os.environ, PYTHONPATH=os.path.join(REPO, "src") + os.pathsep + VERIF)
        p = subprocess.run([VENV_PY, os.path.join(VERIF, "runtime", "c06_getter_replay.py")], capture_output=True, text=True, env=env, timeout=300)
        lines = [l for l in p.stdout.splitlines() if l.startswith("{")]
        _memo["getter_out"] = json.loads(lines[-1]) if lines else dict(confirmed=False, note=p.stderr[-300:])
    out = _memo["getter_out"]
    path = rep.write_replay(r.name, dict(obligation=r.to_json(), solver_output=r.model, confirmed=out.get("confirmed", False), replay=out))
    return path, out.get("confirmed", False), out


def _replay_seed(rep, r):
    kind = r.meta.get("grad", "array")
    if ("seed", kind) not in _memo:
        env = dict(os.environ, PYTHONPATH=os.path.join(REPO, "src") + os.pathsep + VERIF)
        p = subprocess.run([VENV_PY, os.path.join(VERIF, "runtime", "c06_seed_replay.py"), kind], capture_output=True, text=True, env=env, timeout=300)
        lines = [l for l in p.stdout.splitlines() if l.startswith("{")]
        _memo[("seed", kind)] = json.loads(lines[-1]) if lines else dict(confirmed=False, note=p.stderr[-300:])
    out = _memo[("seed", kind)]
    path = rep.write_replay(r.name, dict(obligation=r.to_json(), solver_output=r.model, confirmed=out.get("confirmed", False), replay=out))
    return path, out.get("confirmed", False), out


def _replay_pull(rep, r):
    if "pull" not in _memo:
        env = dict(os.environ, PYTHONPATH=os.path.join(REPO, "src") + os.pathsep + VERIF)
        p = subprocess.run([VENV_PY, os.path.join(VERIF, "runtime", "c06_pull_replay.py")], capture_output=True, text=True, env=env, timeout=300)
        lines = [l for l in p.stdout.splitlines() if l.startswith("{")]
        _memo["pull"] = json.loads(lines[-1]) if lines else dict(confirmed=False, note=p.stderr[-300:])
    out = _memo["pull"]
    path = rep.write_replay(r.name, dict(obligation=r.to_json(), solver_output=r.model, confirmed=out.get("confirmed", False), replay=out))
    return path, out.get("confirmed", False), out


def _replay(rep, r):
    if r.name.startswith("C06.pull"):
        return _replay_pull(rep, r)
    if r.name.startswith("C06.getter"):
        return _replay_getter(rep, r)
    if r.name.startswith("C14.seed"):
        return _replay_seed(rep, r)
    if "I1prime.layout" not in r.name:
        return None, False, None
    if "out" not in _memo:
        env = dict(os.environ, PYTHONPATH=os.path.join(REPO, "src") + os.pathsep + VERIF)
        _memo["p"] = subprocess.run([VENV_PY, os.path.join(VERIF, "runtime", "c06_replay.py")], capture_output=True, text=True, env=env, timeout=300)
        p = _memo["p"]
        lines = [l for l in p.stdout.splitlines() if l.startswith("{")]
        _memo["out"] = json.loads(lines[-1]) if lines else dict(confirmed=False, note=p.stderr[-300:])
    out = _memo["out"]
    path = rep.write_replay(r.name, dict(obligation=r.to_json(), solver_output=r.model, confirmed=out.get("confirmed", False), replay=out))
    return path, out.get("confirmed", False), out


def run(tier, seed):
    return run_property(
        "C06", tier, seed, level="other",
        deductive=[("c01_step", r"C06\.I1prime\.layout|C12\.OWNG\.(distinct|owner)|no_other_exception"), ("c06_getter", None), ("c07_clear", r"C06\.pull"), ("c14_seed", r"\.C06\.layout")],
        bounded=[("graph_bounded.py", ["--check", "C06"])],
        replay=_replay,
        trusted=[
            "pyvc/graphdom.py NumPy axioms: np.copy/astype keep K-order; np.empty_like(a, order='K') has a's layout when a is compact; "
            "a view-producing op replayed on an array with the shape and layout of the array it first produced a view of again produces a view",
            "C02.alias classes of backward_var results (fresh / view / grad itself / private op state)",
        ],
        assumptions=[
            "I1' (stored gradient has the memory layout of the tensor's data) is proved for Operation.backward, the generic writer of _grad; "
            "the getter Tensor.grad is under contract (contracts/c06_getter.py: the result is None or a window onto the base's *current* gradient; recursion along the view chain by the getter's own contract; "
            "preconditions: a view's creator has one input whose base is the view's base (C04.base of Tensor._op), the base's gradient owns its memory (C12.OWNG)); "
            "clear_graph pulls the gradient before clearing (C06.pull); that a replayed view-op yields a view is the axiom above",
            "arrays are compact (fill their memory block) for tensors that own NumPy-allocated memory; layout ids are abstract",
            "bounded part: chains over 8 view ops, C/F base order, which member contributes first",
        ],
        explanation="Layout/ownership invariant of every gradient stored by Operation.backward discharged deductively (symbolic number of inputs, "
        "arbitrary aliasing, all result kinds of backward_var); availability/value/sharing of view gradients is a bounded run-time contract over "
        "enumerated view chains x contribution orders x C/F layouts, reported separately.",
        min_obligations=50,
    )


replay = default_replay_cmd
