"""C15 — no_autodiff / mem-guard switches are scoped, exception-safe, value-preserving."""
import json
import os
import subprocess

from lib.checkdef import default_replay_cmd, run_property
from lib.report import REPO, VENV_PY, VERIF

_memo = {}


def _replay(rep, r):
    if "untracked" not in r.name:
        return None, False, None
    if "out" not in _memo:
        env = dict(os.environ, PYTHONPATH=os.path.join(REPO, "src") + os.pathsep + VERIF)
        p = subprocess.run([VENV_PY, os.path.join(VERIF, "runtime", "c15_replay.py")], capture_output=True, text=True, env=env, timeout=300)
        lines = [l for l in p.stdout.splitlines() if l.startswith("{")]
        _memo["out"] = json.loads(lines[-1]) if lines else dict(confirmed=False, note=p.stderr[-300:])
    out = _memo["out"]
    path = rep.write_replay(r.name, dict(obligation=r.to_json(), solver_output=r.model, confirmed=out.get("confirmed", False), replay=out))
    return path, out.get("confirmed", False), out


def run(tier, seed):
    return run_property(
        "C15", tier, seed, level="proof",
        deductive=[("c15_ctx", None), ("c15_untracked", None)],
        bounded=[("state_bounded.py", ["--check", "C15"])],
        replay=_replay,
        trusted=["Python: a `with` statement always calls __exit__, passing the exception if any, and re-raises unless __exit__ returns a true value (encoded in pyvc/interp.py x_With)",
                 "pyvc/heapdom.py dict encoding"],
        assumptions=[
            "nesting lemma is an induction step over the discharged enter/exit contracts (balanced blocks); written in z3, not extracted from code",
            "value preservation inside no_autodiff (same kernel call as tracked) follows from Tensor._op making a single kernel call before the tracking test; checked on the AST (c15_untracked) and boundedly",
        ],
        explanation="Every obligation the property rests on (enter/exit/decorator contracts of the three managers for arbitrary depth and tracker contents, state getters/setters, "
        "process-wide toggles, nesting lemma, early-return of backward and the untracked fast paths of _op/_in_place_op/shape.setter) is discharged by PyVC+z3; the bounded nesting enumeration is a cross-check.",
        min_obligations=100,
    )


replay = default_replay_cmd
