"""C01 — backward() yields the exact total derivative of the recorded computation."""
from lib.checkdef import default_replay_cmd, run_property


def _replay(rep, r):
    if r.name.startswith("C13.inplace"):
        from checks.C13 import _replay as r13

        return r13(rep, r)
    return None, False, "structural obligation: no input to replay"


def run(tier, seed):
    return run_property(
        "C01", tier, seed, level="other",
        deductive=[
            ("c01_step", r"C01\.|\.post\.|no_other_exception|InvalidGradient|ValueError_only|iterates_over_the_contracted_sequence"),
            ("c01_rb", None),
            ("c01_topo", None),
            ("c14_seed", r"C01\.sweep|collect_first|clear_graph_last|sweep_only|constant_receiver|iterates_over_the_contracted_sequence"),
            # a program may catch a failing in-place statement and carry on: the recorded computation is the one without it only if the rollback
            # ran (for whatever exception class) -- the failure path of Tensor._in_place_op carries that part of C01
            ("c13_inplace", r"^C13\.inplace.*(restore_old_graph_called_once_on_failure|same_exception)"),
        ],
        replay=_replay,
        bounded=[("graph_bounded.py", ["--check", "C01"])],
        trusted=[
            "per-op VJP contracts (C02) for the abstract backward_var; contract of reduce_broadcast is itself discharged (c01_rb)",
            "pyvc/graphdom.py NumPy axioms (asarray, copy, astype, multiply, in-place add, empty_like, a[...] = v)",
            "the multivariate chain rule: exact-once accumulation along a reverse topological order yields the total derivative (lemma C01.lemma, stated in DESIGN.md, not machine-checked)",
        ],
        assumptions=[
            "floats are mathematical reals; array values are abstracted pointwise (one Real per array), reductions are the uninterpreted RFUN",
            "VCs are quantifier-free: universally quantified hypotheses are instantiated over {t*, u*, vars[k]} (sound, possibly incomplete)",
            "the recursive collector (c01_topo) and Tensor.backward's seeding / sweep sequencing (c14_seed) are discharged on the heap model with callee contracts; rank (acyclicity of the recorded graph) is assumed",
        ],
        explanation="Graph mechanics: Operation.backward (symbolic arity, arbitrary aliasing / prior gradient state), reduce_broadcast (all shapes up to rank 4 "
        "with unbounded sizes) and the topological collector are discharged deductively; the end-to-end claim (x.grad equals the total derivative for whole "
        "programs) additionally rests on C02 and on the chain-rule lemma and is cross-checked by a bounded run-time contract against the numeric derivative "
        "of the NumPy twin of each catalogue program.",
        min_obligations=200,
    )


replay = default_replay_cmd
