"""C11 — every public entry point behaves identically."""
import json
import os
import subprocess

from lib.checkdef import default_replay_cmd, run_property
from lib.report import REPO, VENV_PY, VERIF


def registry_enumeration(rep):
    env = dict(os.environ, PYTHONPATH=os.path.join(REPO, "src") + os.pathsep + VERIF)
    p = subprocess.run([VENV_PY, os.path.join(VERIF, "runtime", "c11_registry.py")], capture_output=True, text=True, env=env, timeout=300)
    lines = [l for l in p.stdout.splitlines() if l.startswith("{")]
    if not lines:
        rep.undecided.append(("C11.registry", f"enumeration crashed: {p.stderr[-300:]}"))
        return ("C11.registry", [], [], "crashed")
    d = json.loads(lines[-1])
    return ("C11.registry: complete enumeration of the live dispatch tables", d["items"], d["failures"], d.get("note", ""))


def signature_parity(rep):
    """[E] AST enumeration, re-read from /repo on every run: every public Tensor method that has a mygrad function of the same name lists its
    positional parameters (after self / after the tensor argument) under the same names, in the same order, with the same defaults -- so that
    x.f(a, b) and mg.f(x, a, b) bind a and b to the same parameters.  Methods / functions that take *varargs (reshape, transpose) are compared
    on their named parameters only."""
    import ast

    from pyvc import frontend

    items, failures = [], []
    tb = frontend.load_module("mygrad.tensor_base")
    cls = next(n for n in tb.tree.body if isinstance(n, ast.ClassDef) and n.name == "Tensor")
    methods = {n.name: n for n in cls.body if isinstance(n, ast.FunctionDef) and not n.name.startswith("_")}
    funcs = {}
    for modname in frontend.iter_package_modules("mygrad"):
        if ".nnet" in modname or ".random" in modname:
            continue
        m = frontend.load_module(modname)
        for n in m.tree.body:
            if isinstance(n, ast.FunctionDef) and n.name in methods and not modname.endswith("tensor_base"):
                funcs.setdefault(n.name, (modname, n))

    def sig(fn, skip):
        a = fn.args
        pos = list(a.posonlyargs) + list(a.args)
        names = [x.arg for x in pos][skip:]
        defaults = [None] * (len(pos) - len(a.defaults)) + [ast.dump(d) for d in a.defaults]
        return list(zip(names, defaults[skip:]))

    for name, meth in sorted(methods.items()):
        if name not in funcs:
            continue
        modname, fn = funcs[name]
        ms, fs = sig(meth, 1), sig(fn, 1)
        if meth.args.vararg or fn.args.vararg:
            fs_names = {n for n, _ in fs}
            ms = [(n, d) for n, d in ms if n in fs_names]
            fs = [(n, d) for n, d in fs if n in {x for x, _ in ms}]
        k = min(len(ms), len(fs))
        where = f"Tensor.{name}{[n for n, _ in ms]} / {modname}:{name}{[n for n, _ in fs]}"
        items.append(where)
        if [n for n, _ in ms[:k]] != [n for n, _ in fs[:k]]:
            failures.append(dict(name=f"C11.signature_parity[{name}].positional_order", input=dict(method=[n for n, _ in ms], function=[n for n, _ in fs]), detail=f"x.{name}(*args) and mg.{name}(x, *args) bind positional arguments to different parameters: {where}", confirmed=False))
        elif any(dm != df for (_, dm), (_, df) in zip(ms[:k], fs[:k])):
            failures.append(dict(name=f"C11.signature_parity[{name}].defaults", input=dict(method=ms, function=fs), detail=f"defaults differ: {where}", confirmed=False))
    return ("C11.signature_parity: method and function forms bind positional arguments identically", items, failures, "")


def run(tier, seed):
    return run_property(
        "C11", tier, seed, level="other",
        deductive=[("c11_dunder", None), ("c03_wrappers", r"constant_forwarded|reaches_op_unchanged|result_returned"), ("c11_dispatch", None)],
        replay=_replay,
        enumerations=[registry_enumeration, signature_parity],
        bounded=[("api_bounded.py", ["--check", "C11"])],
        trusted=["NumPy's __array_ufunc__/__array_function__ dispatch protocol"],
        assumptions=[
            "deductive: call-equivalence of the arithmetic dunder methods (each reaches exactly one _op/_in_place_op call with the Operation class and operand order of the "
            "corresponding function) and the dispatch structure of __array_ufunc__/__array_function__; [E]: the live registries are enumerated completely on every run",
        ],
        explanation="Operator call-equivalence discharged on the AST, dispatch registries enumerated exhaustively, spellings x options compared by a bounded run-time contract.",
        min_obligations=30,
    )


replay = default_replay_cmd


def _replay(rep, r):
    if not r.name.startswith("C11.dispatch"):
        return None, False, "structural obligation: no input to replay"
    key = json.dumps({k: r.meta.get(k) for k in ("function", "category", "method", "operands", "out")}, sort_keys=True)
    if key not in _memo:
        env = dict(os.environ, PYTHONPATH=os.path.join(REPO, "src") + os.pathsep + VERIF)
        p = subprocess.run([VENV_PY, os.path.join(VERIF, "runtime", "c11_dispatch_replay.py"), key], capture_output=True, text=True, env=env, timeout=300)
        lines = [l for l in p.stdout.splitlines() if l.startswith("{")]
        _memo[key] = json.loads(lines[-1]) if lines else dict(confirmed=False, note=f"replay produced no result: {p.stderr[-300:]}")
    out = _memo[key]
    path = rep.write_replay(r.name, dict(obligation=r.to_json(), solver_output=r.model, confirmed=out.get("confirmed", False), replay=out))
    return path, out.get("confirmed", False), out


_memo = {}
