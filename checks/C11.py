"""C11 — every public entry point behaves identically."""
import json
import os
import subprocess

from lib.checkdef import default_replay_cmd, run_property
from lib.report import REPO, VENV_PY, VERIF


def registry_enumeration(rep):
    env = dict(os.environ, PYTHONPATH=os.path.join(REPO, "src") + os.pathsep + VERIF)
    p = subprocess.run([VENV_PY, os.path.join(VERIF, "runtime", "c11_registry.py")], capture_output=True, text=True, env=env, timeout=300)
    lines = [l for l in p.stdout.splitlines() if l.startswith("{")]
    if not lines:
        rep.undecided.append(("C11.registry", f"enumeration crashed: {p.stderr[-300:]}"))
        return ("C11.registry", [], [], "crashed")
    d = json.loads(lines[-1])
    return ("C11.registry: complete enumeration of the live dispatch tables", d["items"], d["failures"], d.get("note", ""))


def run(tier, seed):
    return run_property(
        "C11", tier, seed, level="other",
        deductive=[("c11_dunder", None), ("c03_wrappers", r"constant_forwarded|reaches_op_unchanged|result_returned"), ("c11_dispatch", None)],
        replay=_replay,
        enumerations=[registry_enumeration],
        bounded=[("api_bounded.py", ["--check", "C11"])],
        trusted=["NumPy's __array_ufunc__/__array_function__ dispatch protocol"],
        assumptions=[
            "deductive: call-equivalence of the arithmetic dunder methods (each reaches exactly one _op/_in_place_op call with the Operation class and operand order of the "
            "corresponding function) and the dispatch structure of __array_ufunc__/__array_function__; [E]: the live registries are enumerated completely on every run",
        ],
        explanation="Operator call-equivalence discharged on the AST, dispatch registries enumerated exhaustively, spellings x options compared by a bounded run-time contract.",
        min_obligations=30,
    )


replay = default_replay_cmd


def _replay(rep, r):
    if not r.name.startswith("C11.dispatch"):
        return None, False, "structural obligation: no input to replay"
    key = json.dumps({k: r.meta.get(k) for k in ("function", "category", "method", "operands", "out")}, sort_keys=True)
    if key not in _memo:
        env = dict(os.environ, PYTHONPATH=os.path.join(REPO, "src") + os.pathsep + VERIF)
        p = subprocess.run([VENV_PY, os.path.join(VERIF, "runtime", "c11_dispatch_replay.py"), key], capture_output=True, text=True, env=env, timeout=300)
        lines = [l for l in p.stdout.splitlines() if l.startswith("{")]
        _memo[key] = json.loads(lines[-1]) if lines else dict(confirmed=False, note=f"replay produced no result: {p.stderr[-300:]}")
    out = _memo[key]
    path = rep.write_replay(r.name, dict(obligation=r.to_json(), solver_output=r.model, confirmed=out.get("confirmed", False), replay=out))
    return path, out.get("confirmed", False), out


_memo = {}
