"""C16 — sliding windows and nnet layers equal their documented equations."""
import json
import os
import subprocess

from contracts import c16_swv, c16_valid
from lib.report import REPO, VENV_PY, VERIF, Report, run_bounded
from pyvc import solve


def _replay(rep, r):
    name = r.name
    cfg = r.meta.get("config")
    if r.meta.get("kind") == "lemma" or cfg is None:
        return None, False, "lemma/structural obligation: no input to replay"
    kind = "swv" if name.startswith("C16.swv") else ("conv" if ".conv[" in name else "pool")
    spec = dict(kind=kind, config=cfg, model=r.model)
    env = dict(os.environ, PYTHONPATH=os.path.join(REPO, "src") + os.pathsep + VERIF)
    p = subprocess.run([VENV_PY, os.path.join(VERIF, "runtime", "c16_replay.py"), json.dumps(spec)], capture_output=True, text=True, env=env, timeout=300)
    lines = [l for l in p.stdout.splitlines() if l.startswith("{")]
    if not lines:
        return None, False, f"replay produced no result: {p.stderr[-300:]}"
    out = json.loads(lines[-1])
    path = rep.write_replay(name, dict(obligation=r.to_json(), solver_output=r.model, confirmed=out.get("confirmed", False), replay=out))
    return path, out.get("confirmed", False), out


def run(tier, seed):
    rep = Report("C16", tier, seed, level="other")
    all_results = []
    for mod in (c16_swv, c16_valid):
        obls, info = mod.obligations(tier)
        rep.add_functions(info["functions"])
        rep.unsupported += info["unsupported"]
        rep.extra.setdefault("paths", 0)
        rep.extra["paths"] += info["paths"]
        results = solve.discharge(obls, timeout_ms=30000 if tier == "quick" else 90000, cross_check=(tier == "thorough"))
        all_results += results
        rep.add_deductive(results, lambda r: _replay(rep, r))
    rep.add_bounded(run_bounded("c16_bounded.py", tier, seed))
    rep.trusted += [
        "pyvc/intdom.py: np.array/asarray/ones/full/cumprod/pad on small integer vectors; numpy.lib.stride_tricks.as_strided places element I at byte offset sum(I*strides)",
        "NumPy sets flags[\"C_CONTIGUOUS\"] iff some axis has length 0 or every axis of length != 1 has stride itemsize*prod(shape[j+1:]) (relaxed strides: length-1 axes are unconstrained); np.ascontiguousarray returns an array with equal values and canonical strides on every axis",
        "z3 nonlinear integer arithmetic",
    ]
    rep.assumptions += [
        "dimension counts are enumerated (array ndim<=%d, window dims<=3; conv spatial dims<=%d); all integer values (sizes, steps, dilations, paddings) are unbounded" % (c16_swv.N_MAX.get(tier, 3), 2 if tier == "quick" else 3),
        "type invariants as preconditions: window_shape is a tuple of ints, step an int or a tuple of len(window_shape) ints, dilation None / int / tuple of ints; spatial sizes >= 1 for conv/pool",
        "ConvND/MaxPoolND are verified up to the sliding_window_view call (callee replaced by its contract); the numeric part (tensordot / max) is bounded",
        "bounded part: naive element-by-element formulas are the oracle on the enumerated grid",
    ]
    rep.extra["explanation"] = (
        "proof-level for the window helper and the conv/pool validity rules (unbounded integer values, enumerated dimension counts); "
        "layer values (conv, pool, batchnorm, gru, softmax, losses) are a bounded run-time contract against naive formulas, counted separately"
    )
    if tier == "thorough":
        rep.run_canaries(['c16_swv', 'c16_valid'])
    return rep.finish(min_obligations=1500)


def replay(path):
    d = json.load(open(path))
    print(json.dumps(d.get("replay") or d, indent=1)[:3000])
    return 1 if d.get("confirmed") else 0
