"""C03 — forward results agree with NumPy in value, shape and dtype."""
from checks.C11 import _replay as _dispatch_replay0
from lib.checkdef import default_replay_cmd, run_property


def _dispatch_replay(rep, r):
    if r.name.startswith("C03.struct"):
        from checks.C02 import replay_struct

        _p, confirmed, detail = replay_struct(r)
        path = rep.write_replay(r.name, dict(obligation=r.to_json(), solver_output=r.model, confirmed=confirmed, replay=detail))
        return path, confirmed, detail
    return _dispatch_replay0(rep, r)


def run(tier, seed):
    return run_property(
        "C03", tier, seed, level="other",
        deductive=[("c03_wrap", None), ("c03_wrappers", None), ("c_op", r"^C03\."), ("c02_struct", r"^C03\.struct"), ("c11_dispatch", r"\[(bool|const|nodiff),.*(tensors_unwrapped|out_unwrapped|other_keywords|exactly_one_call|returns_callee_result)|^C11\.ufunc_call")],
        replay=_dispatch_replay,
        bounded=[("api_bounded.py", ["--check", "C03"])],
        trusted=["NumPy itself is the oracle of the bounded part", "pyvc executor's model of keyword passing (**kwargs dicts, defaults)"],
        assumptions=[
            "deductive part (C03.kernel): UnaryUfunc/BinaryUfunc/Sequential.__call__ invoke the NumPy namesake exactly once with the caller's data/out/where/dtype/axis/keepdims/ddof "
            "and return its result unchanged; the casting of operands in Tensor._op and the >100 thin wrappers are covered by the bounded contract",
            "C03.struct: the forward of the 13 rearrangement operations equals NumPy's definition of the same call (pyvc/idxdom.py axioms) in shape and in every "
            "element, for symbolic extents / shifts and every axis argument of ranks 0..3 (thorough 0..4), incl. tuple axes of expand_dims",
            "options a MyGrad function does not accept (TypeError: unexpected keyword) are outside the property's domain ('all supported keyword options')",
        ],
        explanation="Kernel-forwarding contracts of the three generic op bases are discharged; agreement of values/shape/dtype with NumPy over the operand-kind x option product "
        "(incl. NEP-50 Python scalars, tracking on/off) is a bounded run-time contract with NumPy as oracle.",
        min_obligations=20,
    )


replay = default_replay_cmd
