"""C03 — forward results agree with NumPy in value, shape and dtype."""
from checks.C11 import _replay as _dispatch_replay
from lib.checkdef import default_replay_cmd, run_property


def run(tier, seed):
    return run_property(
        "C03", tier, seed, level="other",
        deductive=[("c03_wrap", None), ("c03_wrappers", None), ("c_op", r"^C03\."), ("c11_dispatch", r"\[(bool|const|nodiff),.*(tensors_unwrapped|out_unwrapped|other_keywords|exactly_one_call|returns_callee_result)|^C11\.ufunc_call")],
        replay=_dispatch_replay,
        bounded=[("api_bounded.py", ["--check", "C03"])],
        trusted=["NumPy itself is the oracle of the bounded part", "pyvc executor's model of keyword passing (**kwargs dicts, defaults)"],
        assumptions=[
            "deductive part (C03.kernel): UnaryUfunc/BinaryUfunc/Sequential.__call__ invoke the NumPy namesake exactly once with the caller's data/out/where/dtype/axis/keepdims/ddof "
            "and return its result unchanged; the casting of operands in Tensor._op and the >100 thin wrappers are covered by the bounded contract",
            "options a MyGrad function does not accept (TypeError: unexpected keyword) are outside the property's domain ('all supported keyword options')",
        ],
        explanation="Kernel-forwarding contracts of the three generic op bases are discharged; agreement of values/shape/dtype with NumPy over the operand-kind x option product "
        "(incl. NEP-50 Python scalars, tracking on/off) is a bounded run-time contract with NumPy as oracle.",
        min_obligations=20,
    )


replay = default_replay_cmd
