"""C04 — views and in-place updates mirror NumPy's memory semantics."""
from lib.checkdef import default_replay_cmd, run_property


def run(tier, seed):
    return run_property(
        "C04", tier, seed, level="other",
        deductive=[("c04_graph", None)],
        bounded=[("graph_bounded.py", ["--check", "C04"]), ("graph_bounded.py", ["--check", "C04h"])],
        trusted=["NumPy itself (values, np.shares_memory, ownership) is the specification of every statement", "pyvc heap model of Tensor/Operation fields"],
        assumptions=[
            "deductive part: mirror_tensor, reroute_ops_through and make_placeholder_tensor (the primitives every in-place update is built from) for arbitrary "
            "consumer sets / operand tuples; Tensor._in_place_op and shape.setter as wholes are covered by the bounded step contract only",
            "bounded: catalogue programs + all histories of length <= 3 (quick) / 4 (thorough) over 7 view creators x 7 mutators on a family of <= 5 members, one epoch",
        ],
        explanation="The graph-surgery primitives are under discharged contracts; the NumPy-mirror claim for whole statements (values, sharing, base, identity, flag) "
        "is a bounded per-statement run-time contract with NumPy as oracle, counted separately.",
        min_obligations=10,
    )


replay = default_replay_cmd
