"""C04 — views and in-place updates mirror NumPy's memory semantics."""
import json
import os
import subprocess

from lib.checkdef import default_replay_cmd, run_property
from lib.report import REPO, VENV_PY, VERIF


_memo = {}


def _replay(rep, r):
    if r.name.startswith("C04.shape"):
        script = "c04_shape_replay.py"
    elif r.name.startswith("C04.copy"):
        script = "c04_replay.py"
    else:
        return None, False, None
    if script not in _memo:
        env = dict(os.environ, PYTHONPATH=os.path.join(REPO, "src") + os.pathsep + VERIF)
        p = subprocess.run([VENV_PY, "-W", "ignore", os.path.join(VERIF, "runtime", script), r.name], capture_output=True, text=True, env=env, timeout=300)
        lines = [l for l in p.stdout.splitlines() if l.startswith("{")]
        _memo[script] = json.loads(lines[-1]) if lines else dict(confirmed=False, note=p.stderr[-300:])
    out = _memo[script]
    path = rep.write_replay(r.name, dict(obligation=r.to_json(), solver_output=r.model, confirmed=out.get("confirmed", False), replay=out))
    return path, out.get("confirmed", False), out


def run(tier, seed):
    return run_property(
        "C04", tier, seed, level="other",
        deductive=[("c04_graph", None), ("c04_shape", None), ("c04_dupgraph", r"^C04\.dup"), ("c13_inplace", r"^C04\.inplace"), ("c_op", r"^C04\.base|^op\.")],
        bounded=[("graph_bounded.py", ["--check", "C04"]), ("graph_bounded.py", ["--check", "C04h"])],
        replay=_replay,
        trusted=["NumPy itself (values, np.shares_memory, ownership) is the specification of every statement", "pyvc heap model of Tensor/Operation fields"],
        assumptions=[
            "deductive part: mirror_tensor, reroute_ops_through and make_placeholder_tensor (the primitives every in-place update is built from) for arbitrary "
            "consumer sets / operand tuples; Tensor._in_place_op and shape.setter as wholes are covered by the bounded step contract only",
            "bounded: catalogue programs + all histories of length <= 3 (quick) / 4 (thorough) over 7 view creators x 7 mutators on a family of <= 5 members, one epoch",
        ],
        explanation="The graph-surgery primitives are under discharged contracts; the NumPy-mirror claim for whole statements (values, sharing, base, identity, flag) "
        "is a bounded per-statement run-time contract with NumPy as oracle, counted separately.",
        min_obligations=10,
    )


replay = default_replay_cmd
