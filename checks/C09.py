"""C09 — backprop through a partially cleared graph fails loudly, never silently."""
import json
import os
import subprocess

from lib.checkdef import default_replay_cmd, run_property
from lib.report import REPO, VENV_PY, VERIF


_memo = {}


def _replay(rep, r):
    if "out" not in _memo:
        env = dict(os.environ, PYTHONPATH=os.path.join(REPO, "src") + os.pathsep + VERIF)
        _memo["p"] = subprocess.run([VENV_PY, os.path.join(VERIF, "runtime", "c09_replay.py")], capture_output=True, text=True, env=env, timeout=300)
        p = _memo["p"]
        lines = [l for l in p.stdout.splitlines() if l.startswith("{")]
        _memo["out"] = json.loads(lines[-1]) if lines else dict(confirmed=False, note=p.stderr[-300:])
    out = _memo["out"]
    path = rep.write_replay(r.name, dict(obligation=r.to_json(), solver_output=r.model, confirmed=out.get("confirmed", False), replay=out))
    return path, out.get("confirmed", False), out


def run(tier, seed):
    return run_property(
        "C09", tier, seed, level="other",
        deductive=[("c01_step", r"C09\.raise|no_other_exception"), ("c07_clear", r"own_cleared|recursion_on_kth|iterates_over"),
                   # an in-place update hands EVERY recorded consumer of the updated tensor over to the placeholder that keeps the old value -- whatever
                   # state the consumer's other inputs are in: a consumer left on the public tensor back-propagates through post-update values once its
                   # cleared input is used again
                   ("c04_graph", r"reroute"),
                   # the refusal is repeatable: a sweep that _backward() refuses propagates the exception and does not clear the terminal's graph
                   ("c14_seed", r"^C09\.sweep")],
        bounded=[("state_bounded.py", ["--check", "C09"])],
        replay=_replay,
        trusted=["pyvc/graphdom.py heap model"],
        assumptions=[
            "deductive part (C09.raise): Operation.backward raises InvalidBackprop exactly at a non-constant input whose consumer set is empty and never passes such an input to the rule; "
            "the stale-consumer invariant over histories (clear + in-place + re-use) is covered by the bounded contract only",
            "bounded: all interleavings of <= 3 (quick) / 4 (thorough) actions between recording L2 and L2.backward() for two graphs sharing a leaf and an intermediate",
        ],
        explanation="The raise condition of the back-propagation step is discharged for all arities; the history-level claim is a bounded run-time contract "
        "(raises InvalidBackprop, or gradients equal the recorded forward's derivative).",
        min_obligations=20,
    )


replay = default_replay_cmd
