"""C14 — seeding backward; shape/dtype of every stored gradient."""
import ast

import json
import os
import subprocess

from lib.checkdef import default_replay_cmd, run_property
from lib.report import REPO, VENV_PY, VERIF

_memo = {}


def _replay(rep, r):
    if "C14.seed" not in r.name:
        return None, False, None
    if "out" not in _memo:
        env = dict(os.environ, PYTHONPATH=os.path.join(REPO, "src") + os.pathsep + VERIF)
        p = subprocess.run([VENV_PY, os.path.join(VERIF, "runtime", "c14_replay.py")], capture_output=True, text=True, env=env, timeout=300)
        lines = [l for l in p.stdout.splitlines() if l.startswith("{")]
        _memo["out"] = json.loads(lines[-1]) if lines else dict(confirmed=False, note=p.stderr[-300:])
    out = _memo["out"]
    path = rep.write_replay(r.name, dict(obligation=r.to_json(), solver_output=r.model, confirmed=out.get("confirmed", False), replay=out))
    return path, out.get("confirmed", False), out
from pyvc import frontend

# writers of `_grad` that are under a contract (deductive or bounded); anything else found by the scan is "unverified writer"
KNOWN_WRITERS = {
    ("mygrad._utils", "collect_all_tensors_and_clear_grads"): "sets None (C07.null)",
    ("mygrad.tensor_base", "Tensor.__init__"): "sets None",
    ("mygrad.tensor_base", "Tensor._op"): "sets None (C07.null)",
    ("mygrad.tensor_base", "Tensor.backward"): "seed (C14.seed, bounded C14.bounded)",
    ("mygrad.tensor_base", "Tensor.null_grad"): "sets None",
    ("mygrad.tensor_base", "Tensor.copy"): "np.copy of an existing gradient (I1 inherited)",
    ("mygrad.operation_base", "Operation.backward"): "I1 discharged (c01_step)",
    ("mygrad.tensor_base", "Tensor._in_place_op"): "puts back the value saved on entry when the in-place operation fails (I1 inherited; bounded C13.bounded)",
    ("mygrad.nnet.layers.gru", "_backprop"): "np.asarray(grad) (bounded C14.bounded, callers cast dtype)",
    ("mygrad.nnet.layers.gru", "GRUnit.backward"): "bounded C14.bounded (known finding F5b: hidden_seq._grad shape)",
}


def scan_writers(rep):
    items, failures = [], []
    for modname in frontend.iter_package_modules("mygrad"):
        m = frontend.load_module(modname)

        def visit(node, qual):
            for ch in ast.iter_child_nodes(node):
                if isinstance(ch, (ast.FunctionDef, ast.ClassDef)):
                    visit(ch, (qual + "." if qual else "") + ch.name)
                else:
                    for n in ast.walk(ch) if not isinstance(ch, (ast.FunctionDef, ast.ClassDef)) else []:
                        tgts = []
                        if isinstance(n, ast.Assign):
                            tgts = n.targets
                        elif isinstance(n, (ast.AugAssign, ast.AnnAssign)):
                            tgts = [n.target]
                        for t in tgts:
                            for tt in ast.walk(t):
                                if isinstance(tt, ast.Attribute) and tt.attr == "_grad" and isinstance(tt.ctx, ast.Store):
                                    key = (modname, qual)
                                    # `self._grad = ...` inside an Operation (its own cached array) is not Tensor._grad
                                    owner_is_op = qual.split(".")[0] in ("MarginRanking",) and isinstance(tt.value, ast.Name) and tt.value.id == "self"
                                    if owner_is_op:
                                        continue
                                    where = f"{modname}:{qual}:{n.lineno}"
                                    if key in KNOWN_WRITERS:
                                        items.append(f"{where} -> {KNOWN_WRITERS[key]}")
                                    else:
                                        items.append(f"{where} -> UNVERIFIED")
                                        rep.unsupported.append(f"unverified writer of `_grad`: {where} (needs a contract establishing I1/OWNG)")

        visit(m.tree, "")
    return ("C14.writers: every statement that stores to `<x>._grad` (AST scan of the package) is under a contract", items, failures, "")


def scan_backprop_callers(rep):
    """[E] precondition of gru._backprop(var, grad) -- the one writer of `_grad` that stores its argument without a cast -- at every call site:
    the gradient expression is syntactically `<e>.astype(<var>.dtype, ...)` or a call carrying `dtype=<var>.dtype` (NumPy's contract: such a call
    returns an array of that dtype), with <var> the very expression passed as first argument.  Re-read from /repo on every run."""
    items, failures = [], []
    m = frontend.load_module("mygrad.nnet.layers.gru")
    for n in ast.walk(m.tree):
        if isinstance(n, ast.Call) and isinstance(n.func, ast.Name) and n.func.id == "_backprop" and len(n.args) == 2:
            var, g = n.args
            want = ast.dump(ast.Attribute(value=var, attr="dtype", ctx=ast.Load()))
            ok = False
            if isinstance(g, ast.Call):
                if isinstance(g.func, ast.Attribute) and g.func.attr == "astype" and g.args and ast.dump(g.args[0]) == want:
                    ok = True
                if any(k.arg == "dtype" and ast.dump(k.value) == want for k in g.keywords):
                    ok = True
            where = f"mygrad.nnet.layers.gru:{n.lineno}: _backprop({ast.unparse(var)}, {ast.unparse(g)[:70]})"
            items.append(where)
            if not ok:
                failures.append(dict(name=f"C14.writers.gru_backprop_caller_casts_to_the_variables_dtype[{ast.unparse(var)}]", input=dict(call=where), detail="the gradient handed to _backprop is not cast to the dtype of the tensor it is stored on", confirmed=False))
    if not items:
        rep.undecided.append(("C14.writers.gru_backprop_callers", "no call site of _backprop found (the writer moved?)"))
    return ("C14.writers: every call site of gru._backprop casts the gradient to the variable's dtype", items, failures, "")


def run(tier, seed):
    return run_property(
        "C14", tier, seed, level="other",
        deductive=[("c01_step", r"C14\.I1|no_other_exception"), ("c01_rb", r"result_shape|result_is_ndarray|result_rank"), ("c14_seed", r"^C14\.seed.*\.(I1|ones|value_of_g|rejected|no_backprop|collect|nonconstant|constant_receiver|stale_base_link_dropped)")],
        enumerations=[scan_writers, scan_backprop_callers],
        bounded=[("graph_bounded.py", ["--check", "C14"])],
        replay=_replay,
        trusted=["pyvc/graphdom.py NumPy axioms", "contract of reduce_broadcast (discharged in c01_rb)"],
        assumptions=[
            "I1 (type/shape/dtype) is proved for Operation.backward and its helper; the seed path of Tensor.backward and the GRU writers are bounded",
            "seeding identities are checked on the catalogue x {float64,float32,float16} x {scalar, array, Tensor, int array, broadcastable, non-broadcastable}",
        ],
        explanation="I1 for the generic writer of `_grad` is discharged for all arities/aliasing; the complete set of writers is enumerated from the AST on every run "
        "(a new writer without a contract makes the check undecided); seeding identities and I1 on nnet layers are a bounded run-time contract.",
        min_obligations=100,
    )


replay = default_replay_cmd
