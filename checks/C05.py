"""C05 — gradients flow correctly through in-place updates and views."""
from lib.checkdef import default_replay_cmd, run_property


def run(tier, seed):
    return run_property(
        "C05", tier, seed, level="other",
        deductive=[("c05_ops", None), ("c13_inplace", r"^C05\.inplace"),
                   # the augmented-assignment dunders and item assignment hand their operands to _in_place_op unchanged (an operand that is a tensor
                   # of the same view family must reach the placeholder substitution as that tensor, not as a detached copy)
                   ("c11_dunder", r"^C11\.dunder\.(__i|__setitem__)")],
        bounded=[("graph_bounded.py", ["--check", "C05"])],
        trusted=["NumPy's own in-place / view semantics are the specification of the functional twin", "pointwise-real axioms (pyvc/realdom.py) for the mask algebra"],
        assumptions=[
            "deductive part covers the two graph-surgery ops only: ApplyMask (both indices) and UnView's index bookkeeping in the pointwise-real domain; "
            "SetItem's VJP and the graph surgery of Tensor._in_place_op (placeholders, rerouting, mirroring) are covered by the bounded contract",
            "bounded: catalogue programs with <= 2 mutations per program; numeric 4th-order derivative of the NumPy twin as oracle",
        ],
        explanation="ApplyMask/UnView backward rules are discharged by PyVC; the graph-consistency claim (recorded graph = functional program of the held values) "
        "is a bounded run-time contract: every in-place catalogue program's leaf gradients equal the numeric derivative of the same statements run by NumPy, "
        "and a mutated tensor's .grad is the derivative w.r.t. its post-mutation value.",
        min_obligations=4,
    )


replay = default_replay_cmd
