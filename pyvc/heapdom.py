"""Symbolic containers (dict / Counter / defaultdict(set) / set keyed by integers) and helpers for
the heap domain.  Encodings follow DESIGN §2.2: (dom: Array K->Bool, val: Array K->V).
`Counter[k]` on a missing key is 0 and does not insert; `defaultdict[k]` inserts the default.
"""
from __future__ import annotations

import z3

from .interp import ExcInst, Opaque, SRef, SymRaise, Unsupported, to_z3


class SymDict:
    """dict with symbolic integer keys and values of one z3 sort (or wrapped by `wrap`)."""

    def __init__(self, ctx, name, vsort, kind="dict", wrap=None, unwrap=None, default=None):
        self.ctx = ctx
        self.name = name
        self.kind = kind  # dict | counter | defaultdict
        self.dom = z3.Array(f"{name}_dom", z3.IntSort(), z3.BoolSort())
        self.val = z3.Array(f"{name}_val", z3.IntSort(), vsort)
        self.vsort = vsort
        self.wrap = wrap or (lambda v: v)
        self.unwrap = unwrap or (lambda v: to_z3(v))
        self.default = default
        self.writes = 0

    def snapshot(self):
        return (self.dom, self.val)

    def _k(self, k):
        if isinstance(k, SRef):
            k = k.ref
        z = to_z3(k)
        if z is None or not z3.is_int(z):
            raise Unsupported(f"dict key {k!r}")
        return z

    def has(self, k):
        return z3.Select(self.dom, self._k(k))

    def get_raw(self, k):
        return z3.Select(self.val, self._k(k))

    def __sym_contains__(self, interp, k):
        return self.has(k)

    def __sym_truth__(self, interp):
        e = self.ctx.fresh(f"{self.name}_nonempty", "bool")
        # non-empty iff some key is present (skolemised both ways via a witness)
        w = self.ctx.fresh(f"{self.name}_wit", "int")
        self.ctx.assume(z3.Implies(e, z3.Select(self.dom, w)))
        self.nonempty_witness = (e, w)
        self.ctx.ghost.setdefault("empty_tests", []).append((self, self.dom, e))
        return e

    def __sym_getitem__(self, interp, k):
        kz = self._k(k)
        present = interp.truth(z3.Select(self.dom, kz))
        if present:
            return self.wrap(z3.Select(self.val, kz))
        if self.kind == "counter":
            return self.wrap(z3.IntVal(0))
        if self.kind == "defaultdict":
            d = self.default()
            self.dom = z3.Store(self.dom, kz, True)
            self.val = z3.Store(self.val, kz, self.unwrap(d))
            self.writes += 1
            return d
        raise SymRaise(ExcInst(KeyError, (k,)))

    def __sym_setitem__(self, interp, k, v):
        kz = self._k(k)
        self.dom = z3.Store(self.dom, kz, True)
        self.val = z3.Store(self.val, kz, self.unwrap(v))
        self.writes += 1

    def __sym_delitem__(self, interp, k):
        kz = self._k(k)
        if not interp.truth(z3.Select(self.dom, kz)):
            raise SymRaise(ExcInst(KeyError, (k,)))
        self.dom = z3.Store(self.dom, kz, False)
        self.writes += 1

    def __sym_getattr__(self, interp, name):
        if name == "pop":
            return lambda *a: self._pop(interp, *a)
        if name == "get":
            return lambda k, d=None: self._get(interp, k, d)
        if name == "clear":
            return lambda: self._clear()
        if name == "copy":
            raise Unsupported("dict.copy of symbolic dict")
        raise Unsupported(f"dict.{name}")

    def _pop(self, interp, k, *default):
        kz = self._k(k)
        if interp.truth(z3.Select(self.dom, kz)):
            v = self.wrap(z3.Select(self.val, kz))
            self.dom = z3.Store(self.dom, kz, False)
            self.writes += 1
            return v
        if default:
            return default[0]
        raise SymRaise(ExcInst(KeyError, (k,)))

    def _get(self, interp, k, d):
        kz = self._k(k)
        if interp.truth(z3.Select(self.dom, kz)):
            return self.wrap(z3.Select(self.val, kz))
        return d

    def _clear(self):
        self.dom = z3.K(z3.IntSort(), z3.BoolVal(False))
        self.writes += 1


class SetRef:
    """A set stored as the value of a SymDict entry (defaultdict(set)): mutations write back."""

    def __init__(self, d: "SymDict", key):
        self.d, self.key = d, key

    def _arr(self):
        return z3.Select(self.d.val, self.key)

    def _write(self, arr):
        self.d.val = z3.Store(self.d.val, self.key, arr)
        self.d.writes += 1

    def __sym_contains__(self, interp, k):
        return z3.Select(self._arr(), to_z3(k))

    def __sym_as_seq__(self, interp):
        """an arbitrary enumeration of the set's elements (symbolic length, elements are members)"""
        from .interp import SSeq

        ctx = self.d.ctx
        n = ctx.fresh(f"{self.d.name}_set_len", "int")
        ctx.assume(n >= 0)
        elems = z3.Array(f"{self.d.name}_set_elems!{ctx.fresh_n}", z3.IntSort(), z3.IntSort())
        arr = self._arr()

        def get(i):
            e = z3.Select(elems, to_z3(i))
            ctx.assume(z3.Select(arr, e))
            return e

        return SSeq(n, get, "tuple", f"tuple({self.d.name}[...])")

    def __sym_truth__(self, interp):
        e = self.d.ctx.fresh(f"{self.d.name}_set_nonempty", "bool")
        w = self.d.ctx.fresh(f"{self.d.name}_set_wit", "int")
        self.d.ctx.assume(z3.Implies(e, z3.Select(self._arr(), w)))
        self.d.ctx.ghost.setdefault("set_empty_tests", []).append((self, self._arr(), e))
        return e

    def __sym_getattr__(self, interp, name):
        if name == "add":
            return lambda k: self._write(z3.Store(self._arr(), to_z3(k), True))
        if name == "remove":
            def remove(k):
                if not interp.truth(z3.Select(self._arr(), to_z3(k))):
                    raise SymRaise(ExcInst(KeyError, (k,)))
                self._write(z3.Store(self._arr(), to_z3(k), False))
            return remove
        if name == "discard":
            return lambda k: self._write(z3.Store(self._arr(), to_z3(k), False))
        raise Unsupported(f"set.{name}")


class SymIntSet:
    """set of integers (ids) as a characteristic array."""

    def __init__(self, ctx, name, mem=None):
        self.ctx = ctx
        self.name = name
        self.mem = mem if mem is not None else z3.Array(f"{name}_mem", z3.IntSort(), z3.BoolSort())

    def _k(self, k):
        if isinstance(k, SRef):
            k = k.ref
        return to_z3(k)

    def __sym_contains__(self, interp, k):
        return z3.Select(self.mem, self._k(k))

    def __sym_getattr__(self, interp, name):
        if name == "add":
            return lambda k: self._add(k)
        if name == "remove":
            return lambda k: self._remove(interp, k)
        if name == "discard":
            return lambda k: self._discard(k)
        if name == "clear":
            return lambda: self._clear()
        raise Unsupported(f"set.{name}")

    def _add(self, k):
        self.mem = z3.Store(self.mem, self._k(k), True)

    def _discard(self, k):
        self.mem = z3.Store(self.mem, self._k(k), False)

    def _remove(self, interp, k):
        if not interp.truth(z3.Select(self.mem, self._k(k))):
            raise SymRaise(ExcInst(KeyError, (k,)))
        self.mem = z3.Store(self.mem, self._k(k), False)

    def _clear(self):
        self.mem = z3.K(z3.IntSort(), z3.BoolVal(False))
