"""Models of Python builtins / stdlib helpers used by the verified functions.

These are part of the trusted base ("Python semantics the encoding assumes").  Every model either
computes on concrete values with CPython itself or builds the obvious z3 term.
"""
from __future__ import annotations

import ast
import numbers

import z3

from .interp import (
    _MISSING,
    BoundMethod,
    ClassValue,
    ExcInst,
    FuncValue,
    Interp,
    Opaque,
    SObj,
    SRef,
    SSeq,
    SymRaise,
    Unsupported,
    _Enumerate,
    to_z3,
)


class TypeToken:
    """Stands for a Python/NumPy type in isinstance/issubclass tests."""

    def __init__(self, name, pred=None, supers=()):
        self.name = name
        self.pred = pred  # pred(interp, value) -> bool | z3 Bool
        self.supers = tuple(supers)

    def __repr__(self):
        return f"<type {self.name}>"

    __name__ = property(lambda self: self.name)


def wants_interp(f):
    f._wants_interp = True
    return f


@wants_interp
def b_len(interp, x):
    return interp.seq_len(x)


@wants_interp
def b_isinstance(interp: Interp, v, T):
    if isinstance(T, tuple):
        parts = [b_isinstance(interp, v, t) for t in T]
        if any(p is True for p in parts):
            return True
        sym = [p for p in parts if p is not False]
        if not sym:
            return False
        return z3.Or(*[to_z3(p) for p in sym])
    if hasattr(v, "__sym_isinstance__"):
        return v.__sym_isinstance__(interp, T)
    if isinstance(T, PyType):
        T = T.pytype
    if isinstance(T, TypeToken):
        if T.pred is None:
            raise Unsupported(f"isinstance(_, {T.name}) without predicate")
        return T.pred(interp, v)
    if isinstance(T, ClassValue):
        if isinstance(v, SObj) and isinstance(v.cls, ClassValue):
            return T in v.cls.mro(interp)
        if isinstance(v, SRef):
            m = interp.cfg.ref_models.get(v.cls)
            if m is not None and hasattr(m, "isinstance"):
                return m.isinstance(interp, v, T)
            return v.cls == T.name
        if isinstance(v, ExcInst):
            return interp.exc_matches(v, T)
        return False
    if isinstance(T, type):
        if isinstance(v, (SObj, SRef, SSeq, FuncValue, ClassValue)):
            if T is object:
                return True
            if isinstance(v, SSeq) and T in (tuple, list):
                return (v.kind == "tuple") == (T is tuple)
            return False
        if z3.is_expr(v):
            if z3.is_bool(v):
                return T in (bool, int, numbers.Number, numbers.Real, numbers.Integral, object)
            if z3.is_int(v):
                return T in (int, numbers.Number, numbers.Real, numbers.Integral, object)
            if z3.is_real(v):
                return T in (float, numbers.Number, numbers.Real, object)
            return False
        if isinstance(v, ExcInst):
            return interp.exc_matches(v, T)
        return isinstance(v, T)
    raise Unsupported(f"isinstance against {T!r}")


@wants_interp
def b_issubclass(interp, C, T):
    if isinstance(T, tuple):
        parts = [b_issubclass(interp, C, t) for t in T]
        if any(p is True for p in parts):
            return True
        sym = [p for p in parts if p is not False]
        return z3.Or(*[to_z3(p) for p in sym]) if sym else False
    if hasattr(C, "__sym_issubclass__"):
        return C.__sym_issubclass__(interp, T)
    if isinstance(C, ClassValue):
        return T in C.mro(interp)
    if isinstance(C, TypeToken):
        return C is T or T in C.supers
    if isinstance(C, PyType):
        C = C.pytype
    if isinstance(T, PyType):
        T = T.pytype
    if isinstance(C, type) and isinstance(T, type):
        return issubclass(C, T)
    raise Unsupported(f"issubclass({C!r}, {T!r})")


@wants_interp
def b_hasattr(interp, o, name):
    if z3.is_expr(o) or isinstance(o, (int, float, bool, type(None))):
        return hasattr(0, name) if name != "__iter__" else False
    if isinstance(o, (tuple, list, dict, set, str)):
        return hasattr(o, name)
    if isinstance(o, SSeq):
        return name in ("__iter__", "__len__", "__getitem__")
    if hasattr(o, "__sym_hasattr__"):
        return o.__sym_hasattr__(interp, name)
    if isinstance(o, SRef):
        m = interp.cfg.ref_models.get(o.cls)
        if m is not None and hasattr(m, "hasattr"):
            return m.hasattr(interp, o, name)
    try:
        interp.getattr(o, name)
        return True
    except SymRaise:
        return False


@wants_interp
def b_getattr(interp, o, name, *default):
    try:
        return interp.getattr(o, name)
    except SymRaise as e:
        if default and e.exc.cls is AttributeError:
            return default[0]
        raise


@wants_interp
def b_id(interp, o):
    if isinstance(o, SRef):
        return o.ref
    if isinstance(o, SObj):
        return ("id", o.label)
    if hasattr(o, "__sym_id__"):
        return o.__sym_id__(interp)
    raise Unsupported(f"id() of {o!r}")


@wants_interp
def b_tuple(interp, x=()):
    if hasattr(x, "__sym_as_seq__"):
        return x.__sym_as_seq__(interp)
    if isinstance(x, SSeq):
        if x.kind == "tuple":
            return x
        return SSeq(x.length, x.get, "tuple", x.name)
    return tuple(interp.iterate_concrete(x))


@wants_interp
def b_list(interp, x=()):
    if isinstance(x, SSeq):
        return SSeq(x.length, x.get, "list", x.name)
    return list(interp.iterate_concrete(x))


@wants_interp
def b_set(interp, x=()):
    if hasattr(x, "__sym_iter__") or isinstance(x, (tuple, list, set, frozenset, dict)):
        return set(interp.iterate_concrete(x))
    raise Unsupported(f"set() of {x!r}")


@wants_interp
def b_dict(interp, *a, **k):
    if a and not isinstance(a[0], (dict, list, tuple)):
        raise Unsupported("dict() of symbolic")
    return dict(*a, **k)


@wants_interp
def b_range(interp, *a):
    if any(z3.is_expr(x) for x in a):
        if len(a) == 1:
            n = a[0]
            return SSeq(z3.If(n > 0, n, 0), lambda i: i if z3.is_expr(i) else z3.IntVal(i), "range", "range")
        if len(a) == 2:
            lo, hi = a
            n = hi - lo
            return SSeq(z3.If(n > 0, n, 0), lambda i: lo + i, "range", "range")
        raise Unsupported("symbolic range with step")
    return range(*a)


@wants_interp
def b_enumerate(interp, seq, start=0):
    return _Enumerate(seq, start)


@wants_interp
def b_zip(interp, *seqs):
    lists = [interp.iterate_concrete(s) for s in seqs]
    return list(zip(*lists))


@wants_interp
def b_reversed(interp, s):
    return list(reversed(interp.iterate_concrete(s)))


@wants_interp
def b_iter(interp, s):
    return interp.iterate_concrete(s)


def _sym_quantifier(interp, it, existential):
    """any()/all() over a symbolic-length sequence whose elements are side-effect-free conditions: a sound case split.
    any: result r with   r  => 0 <= w < n and cond(w)   for a fresh witness w;        (not r  => nothing: the universal half is dropped)
    all: result r with  !r  => 0 <= w < n and !cond(w)  for a fresh witness w;        (     r  => cond(j) at the goal's skolem indices only)
    Dropping a universal half weakens the hypotheses (sound, possibly incomplete)."""
    from .interp import SSeq

    ctx = interp.ctx
    n = to_z3(it.length)
    r = ctx.fresh("any" if existential else "all", "bool")
    w = ctx.fresh("witness", "int")
    c = it.get(w)
    cz = c if (z3.is_expr(c) and z3.is_bool(c)) else (c != 0 if z3.is_expr(c) else z3.BoolVal(bool(interp.truth(c))))
    if existential:
        ctx.assume(z3.Implies(r, z3.And(w >= 0, w < n, cz)))
        ctx.assume(z3.Implies(n <= 0, z3.Not(r)))
    else:
        ctx.assume(z3.Implies(z3.Not(r), z3.And(w >= 0, w < n, z3.Not(cz))))
        ctx.assume(z3.Implies(n <= 0, r))
    return r


@wants_interp
def b_any(interp, it):
    from .interp import SSeq as _SSeq

    if isinstance(it, _SSeq) and z3.is_expr(it.length) and not z3.is_int_value(z3.simplify(it.length)):
        return _sym_quantifier(interp, it, True)
    parts = []
    for x in interp.iterate_concrete(it):
        if z3.is_expr(x):
            parts.append(x if z3.is_bool(x) else x != 0)
        elif interp.truth(x):
            return True
    if not parts:
        return False
    return z3.Or(*parts)


@wants_interp
def b_all(interp, it):
    from .interp import SSeq as _SSeq

    if isinstance(it, _SSeq) and z3.is_expr(it.length) and not z3.is_int_value(z3.simplify(it.length)):
        return _sym_quantifier(interp, it, False)
    parts = []
    for x in interp.iterate_concrete(it):
        if z3.is_expr(x):
            parts.append(x if z3.is_bool(x) else x != 0)
        elif not interp.truth(x):
            return False
    if not parts:
        return True
    return z3.And(*parts)


@wants_interp
def b_sum(interp, it, start=0):
    r = start
    for x in interp.iterate_concrete(it):
        r = interp.binop(ast.Add(), r, x)
    return r


@wants_interp
def b_bool(interp, x=False):
    if z3.is_expr(x):
        return x if z3.is_bool(x) else x != 0
    return interp.truth(x)


@wants_interp
def b_int(interp, x=0):
    if z3.is_expr(x):
        if z3.is_int(x):
            return x
        if z3.is_bool(x):
            return z3.If(x, 1, 0)
        raise Unsupported("int() of symbolic real")
    return int(x)


@wants_interp
def b_float(interp, x=0.0):
    if z3.is_expr(x):
        return z3.ToReal(x) if z3.is_int(x) else x
    return float(x)


@wants_interp
def b_abs(interp, x):
    if z3.is_expr(x):
        return z3.If(x >= 0, x, -x)
    if isinstance(x, (SObj, SRef)) or hasattr(x, "__sym_abs__"):
        return x.__sym_abs__(interp)
    return abs(x)


@wants_interp
def b_min(interp, *a):
    if len(a) == 1:
        a = interp.iterate_concrete(a[0])
    r = a[0]
    for x in a[1:]:
        if z3.is_expr(r) or z3.is_expr(x):
            r = z3.If(to_z3(x) < to_z3(r), to_z3(x), to_z3(r))
        else:
            r = min(r, x)
    return r


@wants_interp
def b_max(interp, *a):
    if len(a) == 1:
        a = interp.iterate_concrete(a[0])
    r = a[0]
    for x in a[1:]:
        if z3.is_expr(r) or z3.is_expr(x):
            r = z3.If(to_z3(x) > to_z3(r), to_z3(x), to_z3(r))
        else:
            r = max(r, x)
    return r


@wants_interp
def b_type(interp, o):
    if isinstance(o, SObj):
        return o.cls
    if isinstance(o, ExcInst):
        return o.cls
    if hasattr(o, "__sym_type__"):
        return o.__sym_type__(interp)
    if z3.is_expr(o):
        return bool if z3.is_bool(o) else (int if z3.is_int(o) else float)
    if isinstance(o, (SRef, SSeq)):
        raise Unsupported(f"type() of {o!r}")
    return type(o)


@wants_interp
def b_sorted(interp, it, **kw):
    xs = interp.iterate_concrete(it)
    if any(z3.is_expr(x) for x in xs):
        raise Unsupported("sorted() of symbolic values")
    return sorted(xs, **kw)


class PyType:
    """A builtin type usable both as a constructor (model function) and in isinstance()."""

    _wants_interp = True

    def __init__(self, pytype, conv):
        self.pytype = pytype
        self.conv = conv
        self.__name__ = pytype.__name__
        self.__qualname__ = "builtins." + pytype.__name__

    def __call__(self, interp, *a, **k):
        return self.conv(interp, *a, **k)

    def __repr__(self):
        return f"<builtin type {self.pytype.__name__}>"

    def __eq__(self, other):
        if isinstance(other, PyType):
            return self.pytype is other.pytype
        return other is self.pytype

    def __hash__(self):
        return hash(self.pytype)


def b_print(*a, **k):
    return None


@wants_interp
def b_wraps(interp, wrapped):
    def deco(f):
        if isinstance(f, FuncValue):
            f.wrapped = wrapped
        return f

    return deco


@wants_interp
def b_cast(interp, _t, v):
    return v


@wants_interp
def b_property(interp, f):
    raise Unsupported("property() call at run time")


@wants_interp
def b_callable(interp, f):
    return isinstance(f, (FuncValue, BoundMethod, ClassValue)) or callable(f)


def b_staticmethod(f):
    return f


class _ABCToken:
    pass


def default_builtins():
    b = {
        "len": b_len,
        "isinstance": b_isinstance,
        "issubclass": b_issubclass,
        "hasattr": b_hasattr,
        "getattr": b_getattr,
        "id": b_id,
        "tuple": PyType(tuple, b_tuple),
        "slice": slice,
        "list": PyType(list, b_list),
        "set": PyType(set, b_set),
        "dict": PyType(dict, b_dict),
        "range": b_range,
        "enumerate": b_enumerate,
        "zip": b_zip,
        "reversed": b_reversed,
        "iter": b_iter,
        "any": b_any,
        "all": b_all,
        "sum": b_sum,
        "bool": PyType(bool, b_bool),
        "int": PyType(int, b_int),
        "float": PyType(float, b_float),
        "abs": b_abs,
        "min": b_min,
        "max": b_max,
        "type": b_type,
        "sorted": b_sorted,
        "print": b_print,
        "callable": b_callable,
        "staticmethod": b_staticmethod,
        "object": object,
        "str": PyType(str, lambda interp, *a: str(*a)),
        "repr": lambda x: Opaque("repr"),
        "NotImplemented": NotImplemented,
        "True": True,
        "False": False,
        "None": None,
        "functools.wraps": b_wraps,
        "functools.reduce": None,  # filled by domains that support it
        "typing.cast": b_cast,
        "typing.TYPE_CHECKING": False,
        "abc.ABC": object,
        "abc.abstractmethod": lambda f: f,
        "numbers.Real": numbers.Real,
        "numbers.Integral": numbers.Integral,
        "numbers.Number": numbers.Number,
    }
    for nm in (
        "Any Callable Dict Optional Tuple Union Sequence Set List Type TypeVar Generic Iterable "
        "Iterator Generator Deque DefaultDict Counter"
    ).split():
        b[f"typing.{nm}"] = Opaque(f"typing.{nm}")
    b["typing.TypeVar"] = lambda *a, **k: Opaque("TypeVar")
    return b
