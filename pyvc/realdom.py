"""Pointwise-real domain: NumPy arrays are abstracted to one representative element (a z3 Real
or Bool).  Elementwise ufuncs act on that element; transcendental functions are abstracted to
fresh real variables constrained by ground instances of an algebraic identity basis
(contracts/derivative_table.py holds d/dx of every NumPy kernel = trusted base).

Assumptions (recorded in the evidence): floats are mathematical reals; all operands of one
operation have been broadcast to a common shape (broadcast reduction is proved once, in
C01.rb / C01.step); `ndim` is one shared symbolic integer.
"""
from __future__ import annotations

import ast
from fractions import Fraction
from typing import Dict, List

import z3

from .interp import ExcInst, FuncValue, Interp, Opaque, SymRaise, Unsupported, to_z3
from .builtins_model import TypeToken, wants_interp


# ----------------------------------------------------------------------------------------------
# abstraction of transcendental applications
# ----------------------------------------------------------------------------------------------
class Terms:
    """Registry  (fname, canonical-arg) -> fresh Real constant, plus lazily generated axioms
    (ground instances of the identity basis) and domain side-conditions."""

    def __init__(self, ctx):
        self.ctx = ctx
        self.apps: Dict[tuple, z3.ExprRef] = {}
        self.by_var: Dict[int, tuple] = {}  # z3 ast id -> (fname, args)
        self.axioms: List[z3.ExprRef] = []
        self.domain: List[z3.ExprRef] = []  # conditions under which forward is differentiable
        self.pi = z3.Real("pi")
        self.axioms += [self.pi > z3.RealVal("3.14159"), self.pi < z3.RealVal("3.1416")]
        self.nan = z3.Real("nan")
        self._consts: Dict[str, z3.ExprRef] = {}

    # numerals ---------------------------------------------------------------------------------
    @staticmethod
    def numeral(e):
        e = z3.simplify(e)
        if z3.is_rational_value(e):
            return Fraction(e.numerator_as_long(), e.denominator_as_long())
        if z3.is_int_value(e):
            return Fraction(e.as_long())
        return None

    def lnconst(self, n: int):
        k = f"ln{n}"
        if k not in self._consts:
            c = z3.Real(k)
            self._consts[k] = c
            self.axioms.append(c > 0)
            # ln 10 = ln 2 + ln 5 etc. are not needed by any rule
        return self._consts[k]

    def app(self, fname, *args):
        args = tuple(z3.simplify(to_real(a)) for a in args)
        # lift if-then-else out of the arguments (pow(x, ite(c,a,b)) = ite(c, pow(x,a), pow(x,b)))
        for i, a in enumerate(args):
            if z3.is_app_of(a, z3.Z3_OP_ITE):
                c, t, e = a.children()
                return z3.If(
                    c,
                    self.app(fname, *(args[:i] + (t,) + args[i + 1 :])),
                    self.app(fname, *(args[:i] + (e,) + args[i + 1 :])),
                )
        key = (fname,) + tuple(a.sexpr() for a in args)
        if key in self.apps:
            return self.apps[key]
        special = self._special(fname, args)
        if special is not None:
            self.apps[key] = special
            return special
        v = z3.Real(f"{fname}({','.join(a.sexpr() for a in args)})")
        self.apps[key] = v
        self.by_var[v.get_id()] = (fname, args)
        self._axioms_for(fname, args, v)
        return v

    # closed forms that need no abstraction ------------------------------------------------------
    def _special(self, fname, args):
        n = [self.numeral(a) for a in args]
        if fname == "log":
            if n[0] is not None:
                if n[0] == 1:
                    return z3.RealVal(0)
                if n[0] > 0 and n[0].denominator == 1:
                    return self.lnconst(int(n[0]))
        if fname == "exp" and n[0] is not None and n[0] == 0:
            return z3.RealVal(1)
        if fname == "exp2" and n[0] is not None and n[0] == 0:
            return z3.RealVal(1)
        if fname == "pow":
            x, y = args
            if n[1] is not None and n[1].denominator == 1 and abs(n[1]) <= 8:
                k = int(n[1])
                if k == 0:
                    return z3.RealVal(1)
                r = x
                for _ in range(abs(k) - 1):
                    r = r * x
                return r if k > 0 else 1 / r
            if n[0] is not None and n[0] == 2:
                return self.app("exp2", y)
        if fname == "sqrt" and n[0] is not None and n[0] == 0:
            return z3.RealVal(0)
        return None

    def _lin(self, u):
        """u = sum c_i * t_i + c0 with rational c; returns (dict sexpr->(term,coef), c0) or None"""
        u = z3.simplify(u, som=True)
        terms = {}
        c0 = Fraction(0)
        parts = u.children() if z3.is_add(u) else [u]
        for p in parts:
            nv = self.numeral(p)
            if nv is not None:
                c0 += nv
                continue
            coef = Fraction(1)
            t = p
            if z3.is_mul(p) and len(p.children()) == 2 and self.numeral(p.children()[0]) is not None:
                coef = self.numeral(p.children()[0])
                t = p.children()[1]
            k = t.sexpr()
            if k in terms:
                terms[k] = (t, terms[k][1] + coef)
            else:
                terms[k] = (t, coef)
        return terms, c0

    def _axioms_for(self, fname, args, v):
        ax = self.axioms
        if fname in ("sin", "cos"):
            s, c = self.app("sin", args[0]), self.app("cos", args[0])
            if fname == "sin":
                ax.append(s * s + c * c == 1)
        elif fname == "tan":
            s, c = self.app("sin", args[0]), self.app("cos", args[0])
            ax.append(c != 0)
            ax.append(v * c == s)
        elif fname in ("exp", "exp2"):
            ax.append(v > 0)
            u = args[0]
            terms, c0 = self._lin(u)
            items = list(terms.values())
            if c0 == 0 and len(items) >= 2 and all(abs(c) == 1 for _t, c in items):
                # exp(sum +-t_i) * prod_{neg} exp(t_i) = prod_{pos} exp(t_i)
                lhs, rhs = v, z3.RealVal(1)
                for t, c in items:
                    e = self.app(fname, t)
                    if c == 1:
                        rhs = rhs * e
                    else:
                        lhs = lhs * e
                ax.append(lhs == rhs)
            elif c0 == 0 and len(items) == 1 and items[0][1] == -1:
                ax.append(v * self.app(fname, items[0][0]) == 1)
            if fname == "exp":
                inner = self.by_var.get(u.get_id())
                if inner is not None and inner[0] == "log":
                    ax.append(v == inner[1][0])
        elif fname == "log":
            # log(exp(u)) = u
            inner = self.by_var.get(args[0].get_id())
            if inner is not None and inner[0] == "exp":
                ax.append(v == inner[1][0])
        elif fname == "sinh":
            e = self.app("exp", args[0])
            ax.append(v == (e - 1 / e) / 2)
        elif fname == "cosh":
            e = self.app("exp", args[0])
            ax.append(v == (e + 1 / e) / 2)
        elif fname == "tanh":
            e = self.app("exp", args[0])
            ax.append(v == (e - 1 / e) / (e + 1 / e))
        elif fname == "sqrt":
            ax.append(v >= 0)
            ax.append(z3.Implies(args[0] >= 0, v * v == args[0]))
        elif fname == "cbrt":
            ax.append(v * v * v == args[0])
            ax.append(z3.Implies(args[0] > 0, v > 0))
            ax.append(z3.Implies(args[0] < 0, v < 0))
        elif fname == "pow":
            x, y = args
            # x^(y-1) * x = x^y for x != 0 is added when both terms exist
            for (k, w) in list(self.apps.items()):
                if k[0] == "pow" and k[1] == x.sexpr() and w is not v and w.get_id() in self.by_var:
                    y2 = self.by_var[w.get_id()][1][1]
                    d = self.numeral(z3.simplify(y - y2))
                    if d is not None and d == 1:
                        ax.append(z3.Implies(x != 0, v == w * x))
                    elif d is not None and d == -1:
                        ax.append(z3.Implies(x != 0, w == v * x))
            ax.append(z3.Implies(x > 0, v > 0))
        elif fname == "absolute":
            ax.append(v == z3.If(args[0] >= 0, args[0], -args[0]))
        elif fname == "maximum":
            ax.append(v == z3.If(args[0] >= args[1], args[0], args[1]))
        elif fname == "minimum":
            ax.append(v == z3.If(args[0] <= args[1], args[0], args[1]))
        # arcsin/arccos/arctan/arcsinh/arccosh/arctanh/arctan2/expm1/log1p/log2/log10/... appear only
        # as forward kernels; their derivatives come from the table and no identity is needed.


def to_real(v):
    if isinstance(v, PArr):
        v = v.val
    if isinstance(v, bool):
        return z3.RealVal(1 if v else 0)
    if isinstance(v, int):
        return z3.RealVal(v)
    if isinstance(v, float):
        r = to_z3(v)
        if r is None:
            raise Unsupported("non-finite float constant")
        return r
    if z3.is_expr(v):
        if z3.is_bool(v):
            return z3.If(v, z3.RealVal(1), z3.RealVal(0))
        if z3.is_int(v):
            return z3.ToReal(v)
        return v
    raise Unsupported(f"cannot convert {v!r} to a real")


def to_bool(v):
    if isinstance(v, PArr):
        v = v.val
    if isinstance(v, bool):
        return z3.BoolVal(v)
    if z3.is_expr(v):
        if z3.is_bool(v):
            return v
        return v != 0
    if isinstance(v, (int, float)):
        return z3.BoolVal(bool(v))
    raise Unsupported(f"cannot convert {v!r} to a bool")


class PArr:
    """Pointwise abstraction of an ndarray: one representative element."""

    _n = 0

    def __init__(self, dom: "RealDomain", val, origin="fresh", base=None):
        self.dom = dom
        self.val = val
        self.origin = origin  # "input:<i>" | "grad" | "fresh" | "state"
        self.base = base  # PArr this is a view of (None if it owns its memory)
        self.writes = 0
        PArr._n += 1
        self.label = f"arr{PArr._n}"

    def __repr__(self):
        return f"<PArr {self.label} {self.origin} {self.val}>"

    def owner(self):
        a = self
        while a.base is not None:
            a = a.base
        return a

    def write(self, newval):
        self.val = newval
        self.writes += 1
        o = self.owner()
        if o is not self:
            o.writes += 1
            o.val = newval  # pointwise: a view of the whole array
        self.dom.writes.append((self.owner().origin, self.owner().label))

    # interpreter hooks -----------------------------------------------------------------------
    def __sym_binop__(self, interp, op, a, b, inplace):
        T = type(op)
        av, bv = _v(a), _v(b)
        if isinstance(av, Opaque) or isinstance(bv, Opaque):
            raise Unsupported("array arithmetic with opaque operand")
        if T in (ast.BitAnd, ast.BitOr, ast.BitXor):
            x, y = to_bool(av), to_bool(bv)
            r = {ast.BitAnd: z3.And, ast.BitOr: z3.Or, ast.BitXor: z3.Xor}[T](x, y)
        else:
            x, y = to_real(av), to_real(bv)
            if T is ast.Add:
                r = x + y
            elif T is ast.Sub:
                r = x - y
            elif T is ast.Mult:
                r = x * y
            elif T is ast.Div:
                r = x / y
            elif T is ast.Pow:
                r = self.dom.terms.app("pow", x, y)
            else:
                raise Unsupported(f"array operator {T.__name__}")
        if inplace and isinstance(a, PArr):
            a.write(r)
            return a
        return PArr(self.dom, r)

    def __sym_compare__(self, interp, op, a, b):
        x, y = to_real(_v(a)), to_real(_v(b))
        T = type(op)
        r = {ast.Lt: x < y, ast.LtE: x <= y, ast.Gt: x > y, ast.GtE: x >= y}[T]
        return PArr(self.dom, r)

    def __sym_eq__(self, interp, other):
        a, b = _v(self), _v(other)
        if z3.is_bool(to_z3(a) if not z3.is_expr(a) else a) and isinstance(b, bool):
            return PArr(self.dom, to_bool(a) == z3.BoolVal(b))
        return PArr(self.dom, to_real(a) == to_real(b))

    def __sym_truth__(self, interp):
        # only 0-d arrays have a truth value
        interp.ctx.assume(self.dom.ndim == 0)
        return to_bool(self.val)

    def __sym_is__(self, interp, other):
        return self is other

    def __neg__(self):
        return PArr(self.dom, -to_real(self.val))

    def __pos__(self):
        return PArr(self.dom, to_real(self.val))

    def __invert__(self):
        return PArr(self.dom, z3.Not(to_bool(self.val)))

    def __sym_abs__(self, interp):
        x = to_real(self.val)
        return PArr(self.dom, z3.If(x >= 0, x, -x))

    def __sym_getattr__(self, interp, name):
        d = self.dom
        if name == "ndim":
            return d.ndim
        if name == "shape":
            return d.shape_token
        if name == "dtype":
            return d.dtype_token
        if name == "base":
            return self.base
        if name == "data":
            return self
        if name == "T":
            return PArr(d, self.val, "fresh", base=self)
        if name == "size":
            return d.size
        if name in ("copy",):
            return lambda *a, **k: PArr(d, self.val)
        if name == "astype":
            return lambda *a, **k: PArr(d, self.val) if k.get("copy", True) else self
        raise Unsupported(f"ndarray attribute .{name} in the pointwise domain")


def _v(x):
    return x.val if isinstance(x, PArr) else x


class PTensor:
    """Stand-in for a Tensor operand: only `.data` (and harmless metadata) is observable."""

    def __init__(self, data: PArr, name):
        self.data = data
        self.name = name
        self.constant = False

    def __repr__(self):
        return f"<PTensor {self.name}>"

    def __sym_compare__(self, interp, op, a, b):
        # Tensor comparison operators return plain boolean ndarrays of the data
        a = a.data if isinstance(a, PTensor) else a
        b = b.data if isinstance(b, PTensor) else b
        return self.data.__sym_compare__(interp, op, a, b)

    def __sym_getattr__(self, interp, name):
        if name == "data":
            return self.data
        if name in ("ndim", "shape", "dtype", "size"):
            return self.data.__sym_getattr__(interp, name)
        if name == "constant":
            return self.constant
        raise Unsupported(f"Tensor attribute .{name} in the pointwise domain")


# ----------------------------------------------------------------------------------------------
# the NumPy shim for this domain (axioms)
# ----------------------------------------------------------------------------------------------
class RealDomain:
    def __init__(self, ctx):
        self.ctx = ctx
        self.terms = Terms(ctx)
        self.ndim = z3.Int("ndim")
        ctx.assume(self.ndim >= 0)
        self.size = z3.Int("size")
        self.shape_token = Opaque("shape")
        self.dtype_token = Opaque("dtype")
        self.writes: List[tuple] = []
        self.np = self._build_np()

    def arr(self, v, origin="fresh"):
        return PArr(self, v, origin)

    # -- helper to define elementwise kernels
    def _unary(self, name, fn):
        dom = self

        def k(x, out=None, where=True, dtype=None, **kw):
            if kw:
                raise Unsupported(f"np.{name} keyword {sorted(kw)}")
            r = fn(to_real(_v(x)))
            return dom._finish(r, out, where)

        k.__qualname__ = f"np.{name}"
        k.ufunc_name = name
        return k

    def _binary(self, name, fn, boolean=False):
        dom = self

        def k(x, y, out=None, where=True, dtype=None, **kw):
            if kw:
                raise Unsupported(f"np.{name} keyword {sorted(kw)}")
            if boolean:
                r = fn(to_bool(_v(x)), to_bool(_v(y)))
            else:
                r = fn(to_real(_v(x)), to_real(_v(y)))
            return dom._finish(r, out, where)

        k.__qualname__ = f"np.{name}"
        k.ufunc_name = name
        return k

    def _finish(self, r, out, where):
        if out is None:
            if where is not True:
                raise Unsupported("where= without out= leaves uninitialised memory")
            return PArr(self, r)
        if not isinstance(out, PArr):
            raise Unsupported("out= of non-array")
        if where is True:
            out.write(r)
        else:
            w = to_bool(_v(where))
            old = out.val
            if z3.is_bool(r) != z3.is_bool(old):
                old = to_bool(old) if z3.is_bool(r) else to_real(old)
            out.write(z3.If(w, r, old))
        return out

    def _build_np(self):
        T = self.terms
        ns = {}

        def reg(name, f):
            ns[name] = f

        reg("add", self._binary("add", lambda a, b: a + b))
        reg("subtract", self._binary("subtract", lambda a, b: a - b))
        reg("multiply", self._binary("multiply", lambda a, b: a * b))
        reg("divide", self._binary("divide", lambda a, b: a / b))
        reg("true_divide", ns["divide"])
        reg("power", self._binary("power", lambda a, b: T.app("pow", a, b)))
        reg("maximum", self._binary("maximum", lambda a, b: T.app("maximum", a, b)))
        reg("minimum", self._binary("minimum", lambda a, b: T.app("minimum", a, b)))
        reg("greater", self._binary("greater", lambda a, b: a > b))
        reg("less", self._binary("less", lambda a, b: a < b))
        reg("greater_equal", self._binary("greater_equal", lambda a, b: a >= b))
        reg("less_equal", self._binary("less_equal", lambda a, b: a <= b))
        reg("equal", self._binary("equal", lambda a, b: a == b))
        reg("not_equal", self._binary("not_equal", lambda a, b: a != b))
        reg("arctan2", self._binary("arctan2", lambda a, b: T.app("arctan2", a, b)))
        reg("logaddexp", self._binary("logaddexp", lambda a, b: T.app("log", T.app("exp", a) + T.app("exp", b))))
        reg(
            "logaddexp2",
            self._binary(
                "logaddexp2", lambda a, b: T.app("log", T.app("exp2", a) + T.app("exp2", b)) / T.lnconst(2)
            ),
        )
        reg("logical_and", self._binary("logical_and", z3.And, boolean=True))
        reg("logical_or", self._binary("logical_or", z3.Or, boolean=True))
        reg("logical_xor", self._binary("logical_xor", z3.Xor, boolean=True))

        dom = self

        def logical_not(x, out=None, where=True, **kw):
            return dom._finish(z3.Not(to_bool(_v(x))), out, where)

        logical_not.__qualname__ = "np.logical_not"
        reg("logical_not", logical_not)

        reg("negative", self._unary("negative", lambda a: -a))
        reg("positive", self._unary("positive", lambda a: a))
        reg("reciprocal", self._unary("reciprocal", lambda a: 1 / a))
        reg("square", self._unary("square", lambda a: a * a))
        reg("absolute", self._unary("absolute", lambda a: T.app("absolute", a)))
        reg("abs", ns["absolute"])
        reg("sign", self._unary("sign", lambda a: z3.If(a > 0, z3.RealVal(1), z3.If(a < 0, z3.RealVal(-1), z3.RealVal(0)))))
        for f in ("exp", "exp2", "log", "sin", "cos", "tan", "sinh", "cosh", "tanh", "sqrt", "cbrt",
                  "arcsin", "arccos", "arctan", "arcsinh", "arccosh", "arctanh"):
            reg(f, self._unary(f, (lambda nm: lambda a: T.app(nm, a))(f)))
        reg("expm1", self._unary("expm1", lambda a: T.app("exp", a) - 1))
        reg("log1p", self._unary("log1p", lambda a: T.app("log", 1 + a)))
        reg("log2", self._unary("log2", lambda a: T.app("log", a) / T.lnconst(2)))
        reg("log10", self._unary("log10", lambda a: T.app("log", a) / T.lnconst(10)))
        reg(
            "sinc",
            self._unary(
                "sinc", lambda a: z3.If(a == 0, z3.RealVal(1), T.app("sin", T.pi * a) / (T.pi * a))
            ),
        )
        reg("pi", T.pi)
        reg("nan", T.nan)
        reg("e", None)
        reg("newaxis", None)

        def where(c, a=None, b=None):
            if a is None:
                raise Unsupported("np.where with one argument")
            av, bv = _v(a), _v(b)
            cb = to_bool(_v(c))
            if (z3.is_expr(av) and z3.is_bool(av)) and (z3.is_expr(bv) and z3.is_bool(bv)):
                return PArr(dom, z3.If(cb, av, bv))
            return PArr(dom, z3.If(cb, to_real(av), to_real(bv)))

        where.__qualname__ = "np.where"
        reg("where", where)

        def select(condlist, choicelist, default=0):
            r = to_real(_v(default))
            for c, ch in reversed(list(zip(condlist, choicelist))):
                r = z3.If(to_bool(_v(c)), to_real(_v(ch)), r)
            return PArr(dom, r)

        select.__qualname__ = "np.select"
        reg("select", select)

        @wants_interp
        def piecewise(interp, x, condlist, funclist, *a, **k):
            # numpy: out = zeros; for each cond (in order) out[cond] = f(x[cond]); later wins
            if len(funclist) == len(condlist) + 1:
                r = _piece(interp, funclist[-1], x)
                funclist = funclist[:-1]
            elif len(funclist) == len(condlist):
                r = z3.RealVal(0)
            else:
                raise SymRaise(ExcInst(ValueError, ("piecewise",)))
            for c, f in zip(condlist, funclist):
                r = z3.If(to_bool(_v(c)), _piece(interp, f, x), r)
            return PArr(dom, r)

        def _piece(interp, f, x):
            if isinstance(f, (FuncValue,)) or callable(f):
                return to_real(_v(interp.call(f, [x], {})))
            return to_real(_v(f))

        piecewise.__qualname__ = "np.piecewise"
        reg("piecewise", piecewise)

        def isclose(a, b, rtol=1e-5, atol=1e-8, **k):
            x, y = to_real(_v(a)), to_real(_v(b))
            d = z3.If(x - y >= 0, x - y, y - x)
            ay = z3.If(y >= 0, y, -y)
            return PArr(dom, d <= to_real(atol) + to_real(rtol) * ay)

        isclose.__qualname__ = "np.isclose"
        reg("isclose", isclose)

        def zeros_like(a, **k):
            return PArr(dom, z3.RealVal(0))

        def ones_like(a, **k):
            return PArr(dom, z3.RealVal(1))

        def asarray(a, *args, **k):
            return a if isinstance(a, PArr) else PArr(dom, to_z3(a) if not z3.is_expr(a) else a)

        def copy(a, **k):
            return PArr(dom, _v(a))

        def any_(a, **k):
            # "some element satisfies": a fresh boolean implied by the representative element
            b = dom.ctx.fresh("np_any", "bool")
            dom.ctx.assume(z3.Implies(to_bool(_v(a)), b))
            return b

        def all_(a, **k):
            b = dom.ctx.fresh("np_all", "bool")
            dom.ctx.assume(z3.Implies(b, to_bool(_v(a))))
            return b

        reg("all", all_)

        reg("zeros_like", zeros_like)
        reg("ones_like", ones_like)
        reg("asarray", asarray)
        reg("array", lambda a, *x, **k: PArr(dom, _v(a)))
        reg("copy", copy)
        reg("any", any_)

        def nan_to_num(a, copy=True, nan=0.0, **k):
            # reals have no NaN: identity on values
            return PArr(dom, _v(a)) if copy else a

        reg("nan_to_num", nan_to_num)
        reg("ndarray", TypeToken("ndarray", lambda interp, v: isinstance(v, PArr)))
        reg("float64", TypeToken("float64"))
        return NpShim(ns)


class NpShim:
    def __init__(self, ns):
        self._ns = ns

    def __getattr__(self, name):
        ns = object.__getattribute__(self, "_ns")
        if name not in ns or ns[name] is None:
            raise Unsupported(f"np.{name} has no axiom in the pointwise-real domain")
        return ns[name]

    def __sym_getattr__(self, interp, name):
        if name not in self._ns or self._ns[name] is None:
            raise Unsupported(f"np.{name} has no axiom in the pointwise-real domain")
        return self._ns[name]


# ----------------------------------------------------------------------------------------------
# symbolic differentiation of forward terms with the trusted derivative table
# ----------------------------------------------------------------------------------------------
def diff(terms: Terms, e, x, table, conds: list):
    """d e / d x  for z3 real term e; `table[fname](args, dargs, terms)` gives the derivative of
    abstracted applications; side conditions of differentiability are appended to `conds`."""
    cache = {}

    def d(t):
        k = t.get_id()
        if k in cache:
            return cache[k]
        r = _d(t)
        cache[k] = r
        return r

    def _d(t):
        if t.eq(x):
            return z3.RealVal(1)
        if z3.is_rational_value(t) or z3.is_int_value(t) or z3.is_algebraic_value(t):
            return z3.RealVal(0)
        if t.get_id() in terms.by_var:
            fname, args = terms.by_var[t.get_id()]
            dargs = [d(a) for a in args]
            if all(z3.is_rational_value(z3.simplify(da)) and Terms.numeral(da) == 0 for da in dargs):
                return z3.RealVal(0)
            return table[fname](args, dargs, terms, conds)
        if z3.is_const(t):
            return z3.RealVal(0)  # other symbols (pi, ln2, other inputs)
        ch = t.children()
        if z3.is_add(t):
            return z3.Sum([d(c) for c in ch])
        if z3.is_sub(t):
            r = d(ch[0])
            for c in ch[1:]:
                r = r - d(c)
            return r
        if z3.is_app_of(t, z3.Z3_OP_UMINUS):
            return -d(ch[0])
        if z3.is_mul(t):
            tot = z3.RealVal(0)
            for i in range(len(ch)):
                term = d(ch[i])
                for j in range(len(ch)):
                    if j != i:
                        term = term * ch[j]
                tot = tot + term
            return tot
        if z3.is_div(t):
            u, v = ch
            conds.append(v != 0)
            return (d(u) * v - u * d(v)) / (v * v)
        if z3.is_app_of(t, z3.Z3_OP_ITE):
            c, a, b = ch
            # a piecewise definition is differentiated branch-wise; the points where the branches
            # meet are handled by the conventions in the table / the domain of the obligation
            return z3.If(c, d(a), d(b))
        if z3.is_app_of(t, z3.Z3_OP_POWER):
            b, ex = ch
            n = Terms.numeral(ex)
            if n is not None and n.denominator == 1:
                k = int(n)
                return k * (b ** (k - 1)) * d(b) if k != 0 else z3.RealVal(0)
        if z3.is_app_of(t, z3.Z3_OP_TO_REAL):
            return z3.RealVal(0)
        raise Unsupported(f"cannot differentiate {t.sexpr()[:80]}")

    return d(e)
