"""Discharge obligations: z3 first, z3 with a second configuration, then cvc5 for z3's unknowns.

An obligation is *discharged* only on `unsat` of  pc /\\ not goal.  `sat` => refuted (with model),
anything else => undecided.  Work is distributed over a process pool (SMT-LIB2 text is the wire
format, so the same text can be handed to cvc5).
"""
from __future__ import annotations

import os
import subprocess
import tempfile
import time
from concurrent.futures import ProcessPoolExecutor
from typing import List

import z3

CVC5 = "/usr/bin/cvc5"


class Result:
    def __init__(self, name, status, backend, ms, model=None, meta=None, smt2=None, reason=None):
        self.name = name
        self.status = status  # discharged | refuted | undecided
        self.backend = backend
        self.ms = ms
        self.model = model or {}
        self.meta = meta or {}
        self.smt2 = smt2
        self.reason = reason

    def to_json(self):
        d = dict(name=self.name, status=self.status, backend=self.backend, ms=round(self.ms, 1))
        if self.model:
            d["model"] = self.model
        if self.reason:
            d["reason"] = self.reason
        for k, v in self.meta.items():
            if isinstance(v, (str, int, float, bool, list, dict, type(None))):
                d[k] = v
        return d


def to_smt2(pc, goal) -> str:
    s = z3.Solver()
    for c in pc:
        s.add(c)
    s.add(z3.Not(goal))
    return s.to_smt2()


def _model_dict(m):
    out = {}
    for d in m.decls():
        try:
            v = m[d]
            if d.arity() == 0:
                out[d.name()] = str(v)
            else:
                out[d.name()] = str(v)[:400]
        except Exception:  # pragma: no cover
            pass
    return out


def _has_quant_or_nl(text):
    return "forall" in text or "exists" in text


def _run_z3(text, timeout_ms, seed=0, tactic=None):
    t0 = time.time()
    if tactic:
        g = z3.Goal()
        fs = z3.parse_smt2_string(text)
        s = z3.Tactic(tactic).solver()
        for f in fs:
            s.add(f)
    else:
        s = z3.Solver()
        s.from_string(text)
    s.set("timeout", timeout_ms)
    if seed:
        s.set("random_seed", seed)
    r = s.check()
    ms = (time.time() - t0) * 1000
    if r == z3.unsat:
        return "unsat", ms, None, None
    if r == z3.sat:
        return "sat", ms, _model_dict(s.model()), None
    return "unknown", ms, None, s.reason_unknown()


def _run_cvc5(text, timeout_ms):
    t0 = time.time()
    if not os.path.exists(CVC5):
        return "unknown", 0.0, None, "cvc5 missing"
    with tempfile.NamedTemporaryFile("w", suffix=".smt2", delete=False) as f:
        f.write("(set-logic ALL)\n(set-option :produce-models true)\n")
        f.write(text.replace("(check-sat)", ""))
        f.write("\n(check-sat)\n")
        path = f.name
    try:
        p = subprocess.run(
            [CVC5, "--lang=smt2", f"--tlimit={timeout_ms}", "--nl-ext-tplanes", path],
            capture_output=True,
            text=True,
            timeout=timeout_ms / 1000 + 5,
        )
        out = p.stdout.strip().splitlines()
        r = out[0].strip() if out else "unknown"
    except subprocess.TimeoutExpired:
        r = "unknown"
    finally:
        os.unlink(path)
    ms = (time.time() - t0) * 1000
    if r == "unsat":
        return "unsat", ms, None, None
    if r == "sat":
        return "sat", ms, {}, None
    return "unknown", ms, None, "cvc5: " + r[:80]


def _work(job):
    name, text, timeout_ms, meta, use_cvc5_too = job
    tried = []
    try:
        st, ms, model, reason = _run_z3(text, timeout_ms)
        tried.append(("z3", st, ms))
        if st == "unknown":
            st2, ms2, model2, reason2 = _run_z3(text, timeout_ms, seed=7, tactic="qfnra-nlsat" if not _has_quant_or_nl(text) and "Real" in text and "Array" not in text and "Int" not in text else None)
            tried.append(("z3#2", st2, ms2))
            if st2 != "unknown":
                st, ms, model, reason = st2, ms + ms2, model2, reason2
        backend = "z3"
        if st == "unknown":
            st3, ms3, model3, reason3 = _run_cvc5(text, timeout_ms)
            tried.append(("cvc5", st3, ms3))
            if st3 != "unknown":
                st, ms, model, reason, backend = st3, ms + ms3, model3, reason3, "cvc5"
            else:
                reason = f"{reason}; {reason3}"
        elif use_cvc5_too:
            st3, ms3, _m3, _r3 = _run_cvc5(text, timeout_ms)
            tried.append(("cvc5", st3, ms3))
            if st3 != "unknown" and st3 != st:
                return (name, "undecided", "z3+cvc5", ms + ms3, None, f"solvers disagree: z3={st} cvc5={st3}", meta, tried)
            if st3 == st:
                backend = "z3+cvc5"
        status = {"unsat": "discharged", "sat": "refuted", "unknown": "undecided"}[st]
        return (name, status, backend, ms, model, reason, meta, tried)
    except Exception as e:  # solver crash => undecided, never a violation
        return (name, "undecided", "error", 0.0, None, f"{type(e).__name__}: {e}", meta, tried)


def discharge(obligations, timeout_ms=20000, jobs=None, cross_check=False) -> List[Result]:
    """obligations: iterable of pyvc.interp.Obligation"""
    jobs = jobs or min(16, os.cpu_count() or 4)
    work = []
    texts = {}
    for i, o in enumerate(obligations):
        g = z3.simplify(o.goal) if z3.is_expr(o.goal) else z3.BoolVal(bool(o.goal))
        uid = f"{o.name}@{i}"
        if z3.is_true(g):
            texts[uid] = None
            work.append((uid, None, timeout_ms, o.meta, cross_check))
            continue
        text = to_smt2(o.pc, g)
        texts[uid] = text
        work.append((uid, text, timeout_ms, o.meta, cross_check))
    results: List[Result] = []
    real = [w for w in work if w[1] is not None]
    triv = [w for w in work if w[1] is None]
    for w in triv:
        results.append(Result(w[0].rsplit("@", 1)[0], "discharged", "simplify", 0.0, meta=w[3]))
    if real:
        if jobs > 1 and len(real) > 1:
            with ProcessPoolExecutor(max_workers=jobs) as ex:
                outs = list(ex.map(_work, real, chunksize=max(1, len(real) // (jobs * 4))))
        else:
            outs = [_work(w) for w in real]
        for (uid, status, backend, ms, model, reason, meta, tried) in outs:
            r = Result(uid.rsplit("@", 1)[0], status, backend, ms, model, meta, texts.get(uid), reason)
            r.tried = tried
            results.append(r)
    return results
