"""PyVC symbolic executor: forward symbolic execution of the *real* function ASTs.

Values are ordinary Python objects (concrete ints/strs/tuples/None...), z3 expressions
(symbolic Int/Real/Bool), and the symbolic containers/objects below.  Control flow that depends
on a symbolic condition forks the path (re-execution with a decision oracle).  Calls are resolved
to (a) a *summary* = the callee's contract (assert requires / havoc frame / assume ensures),
(b) a model of a builtin or NumPy function (axiom, trusted base), or (c) the callee's own AST,
inlined.  Loops over symbolic-length sequences use the sidecar loop invariant.
"""
from __future__ import annotations

import ast
import operator
from typing import Any, Callable, Dict, List, Optional

import z3

from . import frontend


# ----------------------------------------------------------------------------------------------
# exceptions used by the executor itself
# ----------------------------------------------------------------------------------------------
class Unsupported(Exception):
    """The function left the modelled Python subset (=> out of subset, not a violation)."""


class PathInfeasible(Exception):
    pass


class PathCut(Exception):
    """Path ends here on purpose (e.g. after a loop-body obligation)."""


class SymRaise(Exception):
    """An exception raised by the *interpreted* program."""

    def __init__(self, exc: "ExcInst"):
        super().__init__(repr(exc))
        self.exc = exc


class _Return(Exception):
    def __init__(self, value):
        self.value = value


class _Break(Exception):
    pass


class _Continue(Exception):
    pass


# ----------------------------------------------------------------------------------------------
# values
# ----------------------------------------------------------------------------------------------
class ExcInst:
    def __init__(self, cls, args=()):
        self.cls = cls  # python exception class or ClassValue
        self.args = tuple(args)

    def cls_name(self):
        return self.cls.name if isinstance(self.cls, ClassValue) else self.cls.__name__

    def __repr__(self):
        return f"<exc {self.cls_name()}>"


class FuncValue:
    def __init__(self, node, module: "ModuleValue", qualname, closure=None, cls=None):
        self.node = node
        self.module = module
        self.qualname = qualname
        self.closure = closure
        self.cls = cls
        self.is_generator = any(
            isinstance(n, (ast.Yield, ast.YieldFrom)) for n in _walk_no_nested(node)
        )
        self.wrapped = None  # functools.wraps target

    def __repr__(self):
        return f"<func {self.qualname}>"


def _walk_no_nested(fn):
    todo = list(fn.body) if hasattr(fn, "body") and isinstance(fn.body, list) else [fn.body]
    while todo:
        n = todo.pop()
        yield n
        for c in ast.iter_child_nodes(n):
            if isinstance(c, (ast.FunctionDef, ast.Lambda, ast.ClassDef, ast.AsyncFunctionDef)):
                continue
            todo.append(c)


class BoundMethod:
    def __init__(self, self_obj, func):
        self.self_obj = self_obj
        self.func = func

    def __repr__(self):
        return f"<bound {self.func} of {self.self_obj}>"


class PropertyValue:
    def __init__(self, fget=None, fset=None):
        self.fget = fget
        self.fset = fset


class StaticMethod:
    def __init__(self, func):
        self.func = func


class ClassMethod:
    def __init__(self, func):
        self.func = func


class ClassValue:
    def __init__(self, node: ast.ClassDef, module: "ModuleValue"):
        self.node = node
        self.module = module
        self.name = node.name
        self.qualname = f"{module.modname}:{node.name}"
        self._members: Optional[Dict[str, Any]] = None
        self._bases = None
        self.static_attrs: Dict[str, Any] = {}

    def bases(self, interp):
        if self._bases is None:
            out = []
            for b in self.node.bases:
                try:
                    v = interp.eval_in_module(b, self.module)
                except Unsupported:
                    v = None
                if isinstance(v, ClassValue):
                    out.append(v)
                elif isinstance(v, type):
                    out.append(v)
            self._bases = out
        return self._bases

    def mro(self, interp):
        # simple depth-first linearisation without duplicates (sufficient for MyGrad's hierarchies)
        out = [self]
        for b in self.bases(interp):
            if isinstance(b, ClassValue):
                for c in b.mro(interp):
                    if c not in out:
                        out.append(c)
            elif b not in out:
                out.append(b)
        return out

    def members(self, interp):
        if self._members is None:
            m: Dict[str, Any] = {}
            for n in self.node.body:
                if isinstance(n, ast.FunctionDef):
                    fv = FuncValue(n, self.module, f"{self.qualname}.{n.name}", cls=self)
                    kind = None
                    for d in n.decorator_list:
                        if isinstance(d, ast.Name) and d.id == "property":
                            kind = "property"
                        elif isinstance(d, ast.Name) and d.id == "staticmethod":
                            kind = "static"
                        elif isinstance(d, ast.Name) and d.id == "classmethod":
                            kind = "classmethod"
                        elif isinstance(d, ast.Attribute) and d.attr == "setter":
                            kind = "setter"
                        elif isinstance(d, ast.Name) and d.id == "abstractmethod":
                            pass
                        elif isinstance(d, ast.Name) and d.id == "overload":
                            kind = "overload"
                    if kind == "property":
                        m[n.name] = PropertyValue(fget=fv)
                    elif kind == "setter":
                        p = m.get(n.name)
                        if isinstance(p, PropertyValue):
                            p.fset = fv
                        else:
                            m[n.name] = PropertyValue(fset=fv)
                    elif kind == "static":
                        m[n.name] = StaticMethod(fv)
                    elif kind == "classmethod":
                        m[n.name] = ClassMethod(fv)
                    elif kind == "overload":
                        continue
                    else:
                        m[n.name] = fv
                elif isinstance(n, ast.Assign):
                    for t in n.targets:
                        if isinstance(t, ast.Name):
                            m[t.id] = _LazyClassAttr(n.value)
                elif isinstance(n, ast.AnnAssign) and n.value is not None:
                    if isinstance(n.target, ast.Name):
                        m[n.target.id] = _LazyClassAttr(n.value)
            self._members = m
        return self._members

    def lookup(self, interp, name):
        for c in self.mro(interp):
            if isinstance(c, ClassValue):
                if name in c.static_attrs:
                    return c.static_attrs[name], c
                mem = c.members(interp)
                if name in mem:
                    v = mem[name]
                    if isinstance(v, _LazyClassAttr):
                        v = interp.eval_in_module(v.node, c.module)
                        mem[name] = v
                    return v, c
        return _MISSING, None

    def __repr__(self):
        return f"<class {self.qualname}>"


class _LazyClassAttr:
    def __init__(self, node):
        self.node = node


_MISSING = object()


class SObj:
    """Heap object with *concrete* identity; fields live in a python dict."""

    _n = 0

    def __init__(self, cls, fields=None, label=None):
        self.cls = cls  # ClassValue or a model name (str)
        self.fields: Dict[str, Any] = dict(fields or {})
        SObj._n += 1
        self.label = label or f"o{SObj._n}"
        self.attr_hook = None  # optional: hook(interp, name) -> value or _MISSING (e.g. abstract class attributes)

    def cls_name(self):
        return self.cls.name if isinstance(self.cls, ClassValue) else str(self.cls)

    def __repr__(self):
        return f"<{self.cls_name()} {self.label}>"


class SRef:
    """Symbolic reference (z3 Int) to an object of class `cls`; 0 encodes None when nullable.
    Field values live in z3 arrays kept in ctx.heap[(cls, field)]."""

    def __init__(self, cls: str, ref):
        self.cls = cls
        self.ref = ref if z3.is_expr(ref) else z3.IntVal(ref)

    def __repr__(self):
        return f"<ref {self.cls} {self.ref}>"


class SSeq:
    """Symbolic-length immutable sequence. `get(i)` returns the element for a z3/py index."""

    def __init__(self, length, get: Callable[[Any], Any], kind="tuple", name="seq"):
        self.length = length
        self.get = get
        self.kind = kind
        self.name = name

    def __repr__(self):
        return f"<sseq {self.name} len={self.length}>"


class ModuleValue:
    def __init__(self, modname: str, mast: Optional[frontend.ModuleAST] = None):
        self.modname = modname
        self.mast = mast
        self.globals: Dict[str, Any] = {}  # assigned at "run time" (global statements / overrides)

    def __repr__(self):
        return f"<module {self.modname}>"


class GlobalCell:
    """A module-level variable whose value is symbolic state (e.g. TRACK_GRAPH, MEM_GUARD)."""

    def __init__(self, name, value=None):
        self.name = name
        self.value = value

    def get_global(self, interp):
        return self.value

    def set_global(self, interp, value):
        self.value = value


class Opaque:
    """A value the executor does not look into (message strings, unmodelled objects)."""

    def __init__(self, what="opaque"):
        self.what = what

    def __repr__(self):
        return f"<opaque {self.what}>"

    def __str__(self):
        return f"<opaque {self.what}>"

    def __format__(self, spec):
        return str(self)


# ----------------------------------------------------------------------------------------------
# path context
# ----------------------------------------------------------------------------------------------
class Obligation:
    def __init__(self, name, pc, goal, meta):
        self.name = name
        self.pc = list(pc)
        self.goal = goal
        self.meta = meta


class Ctx:
    def __init__(self, decisions=()):
        self.decisions: List[bool] = list(decisions)
        self.pos = 0
        self.pc: List[Any] = []
        self.new_branches: List[List[bool]] = []
        self.obligations: List[Obligation] = []
        self.heap: Dict[Any, Any] = {}
        self.fresh_n = 0
        self.ghost: Dict[str, Any] = {}
        self.notes: List[str] = []
        self._solver = None
        self.feas_timeout_ms = 1500
        self.unmodelled: List[str] = []

    # -- symbols
    def fresh(self, name, sort):
        self.fresh_n += 1
        nm = f"{name}!{self.fresh_n}"
        if sort == "int":
            return z3.Int(nm)
        if sort == "real":
            return z3.Real(nm)
        if sort == "bool":
            return z3.Bool(nm)
        return z3.Const(nm, sort)

    # -- path condition
    def _sv(self):
        if self._solver is None:
            self._solver = z3.Solver()
            self._solver.set("timeout", self.feas_timeout_ms)
            for c in self.pc:
                if not _has_quantifier(c):
                    self._solver.add(c)
        return self._solver

    def assume(self, f):
        if isinstance(f, bool):
            if not f:
                raise PathInfeasible()
            return
        f = z3.simplify(f)
        if z3.is_true(f):
            return
        if z3.is_false(f):
            raise PathInfeasible()
        self.pc.append(f)
        # feasibility pruning uses only the quantifier-free part of the path condition (an
        # over-approximation: extra paths are sound, their obligations carry the full condition)
        if self._solver is not None and not _has_quantifier(f):
            self._solver.add(f)

    def feasible(self, extra=None):
        s = self._sv()
        if extra is None:
            r = s.check()
        else:
            s.push()
            s.add(extra)
            r = s.check()
            s.pop()
        return r != z3.unsat

    def branch(self, cond) -> bool:
        if isinstance(cond, bool):
            return cond
        cond = z3.simplify(cond)
        if z3.is_true(cond):
            return True
        if z3.is_false(cond):
            return False
        if self.pos < len(self.decisions):
            choice = self.decisions[self.pos]
        else:
            can_t = self.feasible(cond)
            can_f = self.feasible(z3.Not(cond))
            if not can_t and not can_f:
                raise PathInfeasible()
            if can_t and can_f:
                self.new_branches.append(self.decisions[: self.pos] + [False])
                choice = True
            else:
                choice = can_t
            self.decisions.append(choice)
        self.pos += 1
        self.assume(cond if choice else z3.Not(cond))
        return choice

    def choose(self, n: int, label="") -> int:
        """Non-deterministic choice among n alternatives (forks)."""
        for i in range(n - 1):
            if self.pos < len(self.decisions):
                c = self.decisions[self.pos]
            else:
                self.new_branches.append(self.decisions[: self.pos] + [False])
                c = True
                self.decisions.append(c)
            self.pos += 1
            if c:
                return i
        return n - 1

    def oblige(self, name, goal, **meta):
        if isinstance(goal, bool):
            goal = z3.BoolVal(goal)
        if self.notes:
            meta = dict(meta, path="; ".join(self.notes))
        self.obligations.append(Obligation(name, self.pc, goal, meta))

    # -- heap of symbolic references
    def field(self, cls, fld, sort=None):
        key = (cls, fld)
        if key not in self.heap:
            if sort is None:
                raise Unsupported(f"undeclared heap field {cls}.{fld}")
            self.heap[key] = z3.Array(f"H_{cls}_{fld}", z3.IntSort(), sort)
        return self.heap[key]

    def havoc_field(self, cls, fld):
        key = (cls, fld)
        old = self.heap[key]
        self.fresh_n += 1
        self.heap[key] = z3.Array(f"H_{cls}_{fld}!{self.fresh_n}", z3.IntSort(), old.sort().range())


# ----------------------------------------------------------------------------------------------
# helpers
# ----------------------------------------------------------------------------------------------
def _has_quantifier(f):
    todo, seen = [f], set()
    while todo:
        e = todo.pop()
        if e.get_id() in seen:
            continue
        seen.add(e.get_id())
        if z3.is_quantifier(e):
            return True
        todo.extend(e.children())
    return False


def is_sym(v):
    return z3.is_expr(v)


def is_symbool(v):
    return z3.is_expr(v) and z3.is_bool(v)


def to_z3(v):
    if z3.is_expr(v):
        return v
    if isinstance(v, bool):
        return z3.BoolVal(v)
    if isinstance(v, int):
        return z3.IntVal(v)
    if isinstance(v, float):
        return z3.RealVal(repr(v)) if v == v and abs(v) != float("inf") else None
    return None


_BINOPS = {
    ast.Add: operator.add,
    ast.Sub: operator.sub,
    ast.Mult: operator.mul,
    ast.Pow: operator.pow,
    ast.BitAnd: operator.and_,
    ast.BitOr: operator.or_,
    ast.BitXor: operator.xor,
    ast.LShift: operator.lshift,
    ast.RShift: operator.rshift,
    ast.MatMult: operator.matmul,
}

_PY_EXC = {
    n: getattr(__import__("builtins"), n)
    for n in (
        "Exception ValueError TypeError KeyError IndexError AssertionError AttributeError "
        "NotImplementedError RuntimeError StopIteration ZeroDivisionError OverflowError "
        "ArithmeticError LookupError BaseException FutureWarning DeprecationWarning Warning"
    ).split()
}


class Env:
    def __init__(self, parent: Optional["Env"] = None):
        self.vars: Dict[str, Any] = {}
        self.parent = parent
        self.globals_decl: set = set()

    def lookup(self, name):
        e = self
        while e is not None:
            if name in e.vars:
                return e.vars[name]
            e = e.parent
        return _MISSING


# ----------------------------------------------------------------------------------------------
# the interpreter
# ----------------------------------------------------------------------------------------------
class Config:
    """Per-harness configuration: overrides, summaries (contracts), models, loop specs."""

    def __init__(self):
        self.global_overrides: Dict[tuple, Any] = {}  # (modname, name) -> value
        self.module_overrides: Dict[str, Any] = {}  # modname -> python object used as module
        self.summaries: Dict[str, Callable] = {}  # qualname -> fn(interp, args, kwargs)
        self.loop_specs: Dict[tuple, Any] = {}  # (qualname, ordinal) -> LoopSpec
        self.ref_models: Dict[str, Any] = {}  # class name of SRef -> model
        self.obj_models: Dict[str, Any] = {}  # model name (str cls of SObj) -> model
        self.max_inline_depth = 12
        self.eager_generators = True
        self.builtins: Dict[str, Any] = {}
        self.no_inline: set = set()
        self.expr_attr_hook = None  # optional fn(interp, z3expr, attr-name) -> value: attributes of symbolic scalars that stand for objects (a dtype)


class LoopSpec:
    """Sidecar loop contract for `for` loops over symbolic-length sequences.

    invariant(interp, env, k) -> list[(name, z3 bool)]   (k = number of completed iterations)
    modifies: local variable names assigned in the loop (havoced)
    heap_modifies: [(cls, field)] written by the loop (havoced)
    havoc(interp, env): optional custom havoc of further state
    """

    def __init__(self, invariant, modifies=(), heap_modifies=(), havoc=None, fresh_local=None, at_iteration=None):
        self.at_iteration = at_iteration  # hook(interp, env, k): e.g. unfold ghost definitions at k
        self.assume_invariant = None  # optional: hypothesis form of the invariant (finite instantiation)
        # optional (length, elem(j)): what the loop is *supposed* to iterate over.  The invariant speaks about "the k-th element"
        # of that ghost sequence, so the real iterable must be proved to be it (same length, same j-th element for a skolem j);
        # without this a loop over `seq[:1]` would satisfy an invariant about a prefix and exit early unnoticed.
        self.expect_iterable = None
        self.invariant = invariant
        self.modifies = tuple(modifies)
        self.heap_modifies = tuple(heap_modifies)
        self.havoc = havoc
        self.fresh_local = fresh_local or {}


class Interp:
    def __init__(self, ctx: Ctx, cfg: Config):
        self.ctx = ctx
        self.cfg = cfg
        self.modules: Dict[str, ModuleValue] = {}
        self.depth = 0
        self.call_stack: List[str] = []
        self.loop_counters: List[Dict[str, int]] = []
        self.generators_inlined: List[str] = []
        self.inlined: set = set()
        self.summarised: set = set()
        self.models_used: set = set()

    # -- modules / globals -------------------------------------------------------------------
    def module(self, modname) -> ModuleValue:
        if modname not in self.modules:
            if modname in self.cfg.module_overrides:
                self.modules[modname] = self.cfg.module_overrides[modname]
            else:
                try:
                    mast = frontend.load_module(modname)
                except frontend.ExtractionError:
                    raise Unsupported(f"module {modname} is not a repository module and has no model")
                self.modules[modname] = ModuleValue(modname, mast)
        return self.modules[modname]

    def global_lookup(self, mod: ModuleValue, name: str):
        key = (mod.modname, name)
        if key in self.cfg.global_overrides:
            return self.cfg.global_overrides[key]
        if name in mod.globals:
            return mod.globals[name]
        mast = mod.mast
        if mast is not None:
            if name in mast.defs:
                node = mast.defs[name]
                if isinstance(node, ast.ClassDef):
                    v = ClassValue(node, mod)
                else:
                    v = FuncValue(node, mod, f"{mod.modname}:{name}")
                    v = self._apply_decorators(v, node, mod)
                mod.globals[name] = v
                return v
            if name in mast.imports:
                imp = mast.imports[name]
                if imp[0] == "module":
                    return self.module(imp[1])
                _k, base, attr = imp
                if base in self.cfg.module_overrides or frontend.module_path(base):
                    m = self.module(base)
                    if isinstance(m, ModuleValue):
                        # `from pkg import submodule`
                        sub = f"{base}.{attr}"
                        v = self.global_lookup(m, attr) if self._has_global(m, attr) else _MISSING
                        if v is _MISSING and (
                            sub in self.cfg.module_overrides or frontend.module_path(sub)
                        ):
                            return self.module(sub)
                        if v is _MISSING:
                            raise Unsupported(f"name {attr} not found in module {base}")
                        return v
                    return getattr(m, attr)
                k2 = (base, attr)
                if k2 in self.cfg.global_overrides:
                    return self.cfg.global_overrides[k2]
                if base in ("typing", "abc", "numbers", "functools", "collections", "weakref", "os"):
                    b = self.cfg.builtins.get(f"{base}.{attr}", _MISSING)
                    if b is not _MISSING:
                        return b
                raise Unsupported(f"import {base}.{attr} has no model")
            if name in mast.assigns:
                v = self.eval_in_module(mast.assigns[name], mod)
                mod.globals[name] = v
                return v
        if mast is not None:
            for star in mast.star_imports:
                if frontend.module_path(star) or star in self.cfg.module_overrides:
                    sm = self.module(star)
                    if isinstance(sm, ModuleValue) and self._has_global(sm, name):
                        return self.global_lookup(sm, name)
        if name in self.cfg.builtins:
            return self.cfg.builtins[name]
        if name in _PY_EXC:
            return _PY_EXC[name]
        raise Unsupported(f"global name {name} in {mod.modname} unresolved")

    def _has_global(self, mod: ModuleValue, name):
        if (mod.modname, name) in self.cfg.global_overrides or name in mod.globals:
            return True
        m = mod.mast
        return m is not None and (name in m.defs or name in m.imports or name in m.assigns)

    def _apply_decorators(self, fv, node, mod):
        for d in reversed(node.decorator_list):
            # decorators that do not change call semantics for our purposes
            if isinstance(d, ast.Name) and d.id in ("abstractmethod", "overload"):
                continue
            dv = self.eval_in_module(d, mod)
            fv = self.call(dv, [fv], {})
        return fv

    def eval_in_module(self, node, mod: ModuleValue):
        env = Env()
        frame = Frame(mod, env, "<module>")
        return self.eval(node, frame)

    # -- calling ------------------------------------------------------------------------------
    def call(self, f, args, kwargs):
        ctx = self.ctx
        if isinstance(f, BoundMethod):
            return self.call(f.func, [f.self_obj] + list(args), kwargs)
        if isinstance(f, FuncValue):
            if f.qualname in self.cfg.summaries:
                self.summarised.add(f.qualname)
                return self.cfg.summaries[f.qualname](self, list(args), dict(kwargs))
            return self.call_func(f, args, kwargs)
        if isinstance(f, ClassValue):
            return self.instantiate(f, args, kwargs)
        if isinstance(f, StaticMethod):
            return self.call(f.func, args, kwargs)
        if isinstance(f, type) and issubclass(f, BaseException):
            return ExcInst(f, args)
        if isinstance(f, SObj) and isinstance(f.cls, ClassValue):
            c, _ = f.cls.lookup(self, "__call__")
            if c is not _MISSING:
                return self.call(c, [f] + list(args), kwargs)
        if callable(f):
            self.models_used.add(getattr(f, "__qualname__", repr(f)))
            # a model function (axiom / shim / harness helper) that is called with arguments it has no parameter for is a gap of the model -- the
            # real routine may well take them: the path ends out-of-subset instead of crashing the checker or passing for a TypeError of the code
            try:
                import inspect

                sig = inspect.signature(f)
                sig.bind(*(([self] if getattr(f, "_wants_interp", False) else []) + list(args)), **kwargs)
            except TypeError as e:
                raise Unsupported(f"model function {getattr(f, '__qualname__', f)!r} is not modelled for this call: {e}")
            except ValueError:
                pass  # no signature available (builtins): call as is
            if getattr(f, "_wants_interp", False):
                return f(self, *args, **kwargs)
            return f(*args, **kwargs)
        raise Unsupported(f"call of non-callable {f!r}")

    def instantiate(self, cls: ClassValue, args, kwargs):
        # exceptions defined in the repo
        for c in cls.mro(self):
            if isinstance(c, type) and issubclass(c, BaseException):
                return ExcInst(cls, args)
        if cls.qualname in self.cfg.summaries:
            return self.cfg.summaries[cls.qualname](self, list(args), dict(kwargs))
        new, _ = cls.lookup(self, "__new__")
        obj = SObj(cls)
        init, _ = cls.lookup(self, "__init__")
        if new is not _MISSING and not isinstance(new, (type(None),)):
            # only `_NoValueType.__new__`-style singletons appear; model by running it is overkill
            pass
        if init is not _MISSING:
            self.call(init, [obj] + list(args), kwargs)
        return obj

    def bind_args(self, f: FuncValue, args, kwargs, frame):
        a = f.node.args
        env = frame.env
        params = [p.arg for p in a.posonlyargs + a.args]
        defaults = a.defaults
        args = list(args)
        kwargs = dict(kwargs)
        ndef = len(defaults)
        npar = len(params)
        for i, p in enumerate(params):
            if i < len(args):
                env.vars[p] = args[i]
            elif p in kwargs:
                env.vars[p] = kwargs.pop(p)
            else:
                di = i - (npar - ndef)
                if di >= 0:
                    env.vars[p] = self.eval(defaults[di], Frame(f.module, Env(f.closure), f.qualname))
                else:
                    raise SymRaise(ExcInst(TypeError, (f"missing argument {p}",)))
        extra = args[npar:]
        if a.vararg:
            env.vars[a.vararg.arg] = tuple(extra)
        elif extra:
            raise SymRaise(ExcInst(TypeError, ("too many positional arguments",)))
        for p, d in zip(a.kwonlyargs, a.kw_defaults):
            if p.arg in kwargs:
                env.vars[p.arg] = kwargs.pop(p.arg)
            elif d is not None:
                env.vars[p.arg] = self.eval(d, Frame(f.module, Env(f.closure), f.qualname))
            else:
                raise SymRaise(ExcInst(TypeError, (f"missing kw-only argument {p.arg}",)))
        if a.kwarg:
            env.vars[a.kwarg.arg] = kwargs
        elif kwargs:
            raise SymRaise(ExcInst(TypeError, (f"unexpected keyword {sorted(kwargs)}",)))

    def call_func(self, f: FuncValue, args, kwargs):
        if self.depth >= self.cfg.max_inline_depth:
            raise Unsupported(f"inline depth exceeded at {f.qualname}")
        if f.qualname in self.cfg.no_inline:
            raise Unsupported(f"{f.qualname} must not be inlined (no contract available)")
        frame = Frame(f.module, Env(f.closure), f.qualname)
        frame.func = f
        self.bind_args(f, args, kwargs, frame)
        self.inlined.add(f.qualname)
        self.depth += 1
        self.call_stack.append(f.qualname)
        self.loop_counters.append({"n": 0})
        try:
            if f.is_generator:
                if not self.cfg.eager_generators:
                    raise Unsupported(f"generator {f.qualname}")
                frame.yields = []
                self.generators_inlined.append(f.qualname)
                try:
                    self.exec_block(f.node.body, frame)
                except _Return:
                    pass
                return list(frame.yields)
            if isinstance(f.node, ast.Lambda):
                return self.eval(f.node.body, frame)
            try:
                self.exec_block(f.node.body, frame)
            except _Return as r:
                return r.value
            return None
        finally:
            self.depth -= 1
            self.call_stack.pop()
            self.loop_counters.pop()

    # -- truthiness / comparisons ---------------------------------------------------------------
    def truth(self, v) -> bool:
        if isinstance(v, (bool, int, float, str, type(None), bytes)):
            return bool(v)
        if z3.is_expr(v):
            if z3.is_bool(v):
                return self.ctx.branch(v)
            return self.ctx.branch(v != 0)
        if isinstance(v, (tuple, list, dict, set, frozenset)):
            return len(v) > 0
        if isinstance(v, SSeq):
            return self.truth(v.length != 0) if z3.is_expr(v.length) else v.length != 0
        if isinstance(v, SRef):
            m = self.cfg.ref_models.get(v.cls)
            if m is not None and hasattr(m, "truth"):
                return self.truth(m.truth(self, v))
            return True
        if isinstance(v, SObj):
            m = self._obj_model(v)
            if m is not None and hasattr(m, "truth"):
                return self.truth(m.truth(self, v))
            if isinstance(v.cls, ClassValue):
                b, _ = v.cls.lookup(self, "__bool__")
                if b is not _MISSING:
                    return self.truth(self.call(b, [v], {}))
                ln, _ = v.cls.lookup(self, "__len__")
                if ln is not _MISSING:
                    return self.truth(self.sym_ne(self.call(ln, [v], {}), 0))
            return True
        if hasattr(v, "__sym_truth__"):
            return self.truth(v.__sym_truth__(self))
        if isinstance(v, (FuncValue, ClassValue, BoundMethod, ModuleValue, Opaque)):
            return True
        return bool(v)

    def sym_eq(self, a, b):
        """Python `==` on possibly symbolic values; returns bool or z3 Bool."""
        if isinstance(a, SSeq) or isinstance(b, SSeq):
            return self._seq_eq(a, b)
        if isinstance(a, (tuple, list)) and isinstance(b, (tuple, list)):
            if type(a) is not type(b) and not (isinstance(a, tuple) and isinstance(b, tuple)):
                if isinstance(a, list) != isinstance(b, list):
                    return False
            if len(a) != len(b):
                return False
            parts = [self.sym_eq(x, y) for x, y in zip(a, b)]
            if all(isinstance(p, bool) for p in parts):
                return all(parts)
            return z3.And(*[to_z3(p) for p in parts])
        for x, y in ((a, b), (b, a)):
            if isinstance(x, SRef):
                m = self.cfg.ref_models.get(x.cls)
                if m is not None and hasattr(m, "eq"):
                    return m.eq(self, x, y)
                return self.sym_is(a, b)
            if isinstance(x, SObj):
                m = self._obj_model(x)
                if m is not None and hasattr(m, "eq"):
                    return m.eq(self, a, b)
                return a is b
        if z3.is_expr(a) or z3.is_expr(b):
            za, zb = to_z3(a), to_z3(b)
            if za is None or zb is None:
                return False
            if za.sort() != zb.sort():
                if z3.is_bool(za) or z3.is_bool(zb):
                    za = z3.If(za, 1, 0) if z3.is_bool(za) else za
                    zb = z3.If(zb, 1, 0) if z3.is_bool(zb) else zb
                if z3.is_int(za) and z3.is_real(zb):
                    za = z3.ToReal(za)
                if z3.is_int(zb) and z3.is_real(za):
                    zb = z3.ToReal(zb)
            return za == zb
        if hasattr(a, "__sym_eq__"):
            return a.__sym_eq__(self, b)
        if hasattr(b, "__sym_eq__"):
            return b.__sym_eq__(self, a)
        return a == b

    def _seq_eq(self, a, b):
        la, lb = self.seq_len(a), self.seq_len(b)
        leq = self.sym_eq(la, lb)
        if leq is False:
            return False
        # element-wise equality is expressed through the sequence models (contract-level)
        fa = getattr(a, "eq_elems", None) or getattr(b, "eq_elems", None)
        if fa is None:
            raise Unsupported("equality of symbolic sequences without eq_elems")
        return z3.And(to_z3(leq), fa(self, a, b))

    def sym_ne(self, a, b):
        e = self.sym_eq(a, b)
        if isinstance(e, bool):
            return not e
        if z3.is_expr(e):
            return z3.Not(e)
        return ~e  # array-like result of an elementwise comparison

    def sym_is(self, a, b):
        if isinstance(a, SRef) or isinstance(b, SRef):
            ra = a.ref if isinstance(a, SRef) else (z3.IntVal(0) if a is None else None)
            rb = b.ref if isinstance(b, SRef) else (z3.IntVal(0) if b is None else None)
            if ra is None or rb is None:
                return False
            if isinstance(a, SRef) and isinstance(b, SRef) and a.cls != b.cls:
                return z3.And(ra == 0, rb == 0) if False else z3.BoolVal(False)
            return ra == rb
        if z3.is_expr(a) or z3.is_expr(b):
            # `x is True` / `x is False` / `x is None` on symbolic scalars
            if a is None or b is None:
                return False
            if isinstance(a, bool) or isinstance(b, bool):
                za, zb = to_z3(a), to_z3(b)
                if z3.is_bool(za) and z3.is_bool(zb):
                    return za == zb
                return False
            if z3.is_expr(a) and z3.is_expr(b):
                return a.eq(b) or (a == b)
            return False
        if hasattr(a, "__sym_is__"):
            return a.__sym_is__(self, b)
        if hasattr(b, "__sym_is__"):
            return b.__sym_is__(self, a)
        return a is b

    def seq_len(self, s):
        if isinstance(s, SSeq):
            return s.length
        if isinstance(s, (tuple, list, dict, set, frozenset, str)):
            return len(s)
        if isinstance(s, SObj):
            m = self._obj_model(s)
            if m is not None and hasattr(m, "len"):
                return m.len(self, s)
            if isinstance(s.cls, ClassValue):
                ln, _ = s.cls.lookup(self, "__len__")
                if ln is not _MISSING:
                    return self.call(ln, [s], {})
        if isinstance(s, SRef):
            m = self.cfg.ref_models.get(s.cls)
            if m is not None and hasattr(m, "len"):
                return m.len(self, s)
        if hasattr(s, "__sym_len__"):
            return s.__sym_len__(self)
        raise Unsupported(f"len() of {s!r}")

    def _obj_model(self, o: SObj):
        if isinstance(o.cls, str):
            return self.cfg.obj_models.get(o.cls)
        return None

    # -- attributes ---------------------------------------------------------------------------
    def getattr(self, obj, name):
        if isinstance(obj, SObj):
            if isinstance(obj.cls, str):
                m = self.cfg.obj_models.get(obj.cls)
                if m is None:
                    raise Unsupported(f"no model for {obj.cls}")
                return m.getattr(self, obj, name)
            v, _owner = obj.cls.lookup(self, name)
            if isinstance(v, PropertyValue):
                return self.call(v.fget, [obj], {})
            if name in obj.fields:
                return obj.fields[name]
            if obj.attr_hook is not None:
                hv = obj.attr_hook(self, name)
                if hv is not _MISSING:
                    return hv
            if name == "__dict__":
                return _DictProxy(obj)
            if name == "__class__":
                return obj.cls
            if v is _MISSING:
                raise SymRaise(ExcInst(AttributeError, (name,)))
            if isinstance(v, FuncValue):
                return BoundMethod(obj, v)
            if isinstance(v, StaticMethod):
                return v.func
            if isinstance(v, ClassMethod):
                return BoundMethod(obj.cls, v.func)
            return v
        if isinstance(obj, SRef):
            m = self.cfg.ref_models.get(obj.cls)
            if m is None:
                raise Unsupported(f"no model for refs of class {obj.cls}")
            return m.getattr(self, obj, name)
        if isinstance(obj, ModuleValue):
            if obj.mast is not None or (obj.modname, name) in self.cfg.global_overrides:
                if self._has_global(obj, name):
                    return self.global_lookup(obj, name)
                sub = f"{obj.modname}.{name}"
                if sub in self.cfg.module_overrides or frontend.module_path(sub):
                    return self.module(sub)
            raise Unsupported(f"module attribute {obj.modname}.{name}")
        if isinstance(obj, ClassValue):
            v, _owner = obj.lookup(self, name)
            if v is _MISSING:
                if name == "__name__":
                    return obj.name
                raise SymRaise(ExcInst(AttributeError, (name,)))
            if isinstance(v, StaticMethod):
                return v.func
            if isinstance(v, ClassMethod):
                return BoundMethod(obj, v.func)
            return v
        if isinstance(obj, FuncValue):
            if name == "__name__":
                return obj.node.name if hasattr(obj.node, "name") else "<lambda>"
            if name == "__wrapped__":
                return obj.wrapped
            raise Unsupported(f"attribute {name} of function")
        if isinstance(obj, ExcInst):
            if name == "args":
                return obj.args
            raise Unsupported(f"attribute {name} of exception")
        if z3.is_expr(obj):
            if self.cfg.expr_attr_hook is not None:
                hv = self.cfg.expr_attr_hook(self, obj, name)
                if hv is not _MISSING and hv is not None:
                    return hv
            raise Unsupported(f"attribute {name} of symbolic scalar {obj}")
        if hasattr(obj, "__sym_getattr__"):
            return obj.__sym_getattr__(self, name)
        # python-level helper objects (shims, namespaces, concrete containers).  A helper object of a HARNESS that lacks an attribute is a gap of the
        # model, not an AttributeError of the program: the path ends "out of subset" (undecided), it is not reported as an exception of the code.
        # (Concrete Python values -- tuples, lists, dicts, strings, numbers, None -- keep Python's own AttributeError.)
        try:
            return getattr(obj, name)
        except AttributeError:
            if obj is None or isinstance(obj, (tuple, list, dict, set, frozenset, str, bytes, int, float, bool, complex, range, slice)):
                raise SymRaise(ExcInst(AttributeError, (name,)))
            raise Unsupported(f"model object {type(obj).__name__} has no attribute .{name} (a gap of the harness, not an AttributeError of the code)")

    def setattr(self, obj, name, value):
        if isinstance(obj, SObj):
            if isinstance(obj.cls, str):
                m = self.cfg.obj_models.get(obj.cls)
                return m.setattr(self, obj, name, value)
            v, _ = obj.cls.lookup(self, name)
            if isinstance(v, PropertyValue):
                if v.fset is None:
                    raise SymRaise(ExcInst(AttributeError, (name,)))
                return self.call(v.fset, [obj, value], {})
            if name == "__dict__":
                if isinstance(value, dict):
                    obj.fields = value
                    return
                raise Unsupported("__dict__ assignment of non-dict")
            obj.fields[name] = value
            return
        if isinstance(obj, SRef):
            m = self.cfg.ref_models.get(obj.cls)
            return m.setattr(self, obj, name, value)
        if isinstance(obj, ModuleValue):
            obj.globals[name] = value
            return
        if hasattr(obj, "__sym_setattr__"):
            return obj.__sym_setattr__(self, name, value)
        raise Unsupported(f"setattr on {obj!r}")

    # -- statements ------------------------------------------------------------------------------
    def exec_block(self, body, frame):
        for st in body:
            self.exec(st, frame)

    def exec(self, node, frame):
        m = getattr(self, "x_" + type(node).__name__, None)
        if m is None:
            raise Unsupported(f"statement {type(node).__name__} (line {getattr(node,'lineno','?')})")
        return m(node, frame)

    def x_Expr(self, node, frame):
        if isinstance(node.value, ast.Constant) and isinstance(node.value.value, str):
            return  # docstring
        if isinstance(node.value, (ast.Yield,)):
            v = self.eval(node.value.value, frame) if node.value.value else None
            frame.yields.append(v)
            return
        if isinstance(node.value, ast.YieldFrom):
            v = self.eval(node.value.value, frame)
            frame.yields.extend(self.iterate_concrete(v))
            return
        self.eval(node.value, frame)

    def x_Pass(self, node, frame):
        pass

    def x_Continue(self, node, frame):
        raise _Continue()

    def x_Break(self, node, frame):
        raise _Break()

    def x_Global(self, node, frame):
        frame.env.globals_decl.update(node.names)

    def x_Nonlocal(self, node, frame):
        raise Unsupported("nonlocal")

    def x_Import(self, node, frame):
        for a in node.names:
            frame.env.vars[a.asname or a.name.split(".")[0]] = Opaque(f"module {a.name}")

    def x_ImportFrom(self, node, frame):
        for a in node.names:
            frame.env.vars[a.asname or a.name] = Opaque(f"{node.module}.{a.name}")

    def x_Assign(self, node, frame):
        v = self.eval(node.value, frame)
        for t in node.targets:
            self.assign(t, v, frame)

    def x_AnnAssign(self, node, frame):
        if node.value is not None:
            self.assign(node.target, self.eval(node.value, frame), frame)

    def x_AugAssign(self, node, frame):
        tgt = node.target
        if isinstance(tgt, ast.Name):
            cur = self.load_name(tgt.id, frame)
            new = self.binop(node.op, cur, self.eval(node.value, frame), inplace=True)
            self.assign(tgt, new, frame)
        elif isinstance(tgt, ast.Attribute):
            o = self.eval(tgt.value, frame)
            cur = self.getattr(o, tgt.attr)
            new = self.binop(node.op, cur, self.eval(node.value, frame), inplace=True)
            self.setattr(o, tgt.attr, new)
        elif isinstance(tgt, ast.Subscript):
            o = self.eval(tgt.value, frame)
            idx = self.eval_index(tgt.slice, frame)
            cur = self.getitem(o, idx)
            new = self.binop(node.op, cur, self.eval(node.value, frame), inplace=True)
            self.setitem(o, idx, new)
        else:
            raise Unsupported("augassign target")

    def x_Return(self, node, frame):
        raise _Return(self.eval(node.value, frame) if node.value is not None else None)

    def x_If(self, node, frame):
        if self.truth(self.eval(node.test, frame)):
            self.exec_block(node.body, frame)
        else:
            self.exec_block(node.orelse, frame)

    def x_Assert(self, node, frame):
        v = self.eval(node.test, frame)
        if not self.truth(v):
            raise SymRaise(ExcInst(AssertionError, ()))

    def x_Raise(self, node, frame):
        if node.exc is None:
            if frame.handling is None:
                raise Unsupported("bare raise outside handler")
            raise SymRaise(frame.handling)
        v = self.eval(node.exc, frame)
        if isinstance(v, ExcInst):
            raise SymRaise(v)
        if isinstance(v, ClassValue) or (isinstance(v, type) and issubclass(v, BaseException)):
            raise SymRaise(ExcInst(v, ()))
        raise Unsupported(f"raise of {v!r}")

    def x_Delete(self, node, frame):
        for t in node.targets:
            if isinstance(t, ast.Name):
                frame.env.vars.pop(t.id, None)
            elif isinstance(t, ast.Subscript):
                o = self.eval(t.value, frame)
                self.delitem(o, self.eval_index(t.slice, frame))
            else:
                raise Unsupported("del target")

    def exc_matches(self, exc: ExcInst, handler_type) -> bool:
        if handler_type is None:
            return True
        if isinstance(handler_type, tuple):
            return any(self.exc_matches(exc, h) for h in handler_type)
        ec = exc.cls
        chain = ec.mro(self) if isinstance(ec, ClassValue) else list(ec.__mro__)
        flat = []
        for c in chain:
            flat.append(c)
            if isinstance(c, type):
                flat.extend(c.__mro__)
        return any(c is handler_type for c in flat)

    def x_Try(self, node, frame):
        try:
            try:
                self.exec_block(node.body, frame)
            except SymRaise as sr:
                for h in node.handlers:
                    ht = self.eval(h.type, frame) if h.type is not None else None
                    if self.exc_matches(sr.exc, ht):
                        if h.name:
                            frame.env.vars[h.name] = sr.exc
                        prev = frame.handling
                        frame.handling = sr.exc
                        try:
                            self.exec_block(h.body, frame)
                        finally:
                            frame.handling = prev
                        break
                else:
                    raise
            else:
                self.exec_block(node.orelse, frame)
        finally:
            # NB: python `finally` semantics for PathCut/PathInfeasible/Unsupported do not matter
            import sys

            et = sys.exc_info()[0]
            if et is None or issubclass(et, (SymRaise, _Return, _Break, _Continue)):
                self.exec_block(node.finalbody, frame)

    def x_With(self, node, frame):
        mgrs = []
        for item in node.items:
            mgr = self.eval(item.context_expr, frame)
            enter = self.getattr(mgr, "__enter__")
            v = self.call(enter, [], {})
            if item.optional_vars is not None:
                self.assign(item.optional_vars, v, frame)
            mgrs.append(mgr)
        try:
            self.exec_block(node.body, frame)
        except SymRaise as sr:
            swallowed = False
            for mgr in reversed(mgrs):
                r = self.call(self.getattr(mgr, "__exit__"), [sr.exc.cls, sr.exc, Opaque("tb")], {})
                if self.truth(r):
                    swallowed = True
                    break
            if not swallowed:
                raise
        except (_Return, _Break, _Continue):
            for mgr in reversed(mgrs):
                self.call(self.getattr(mgr, "__exit__"), [None, None, None], {})
            raise
        else:
            for mgr in reversed(mgrs):
                self.call(self.getattr(mgr, "__exit__"), [None, None, None], {})

    def x_FunctionDef(self, node, frame):
        fv = FuncValue(node, frame.module, f"{frame.qualname}.<locals>.{node.name}", closure=frame.env)
        v = fv
        for d in reversed(node.decorator_list):
            dv = self.eval(d, frame)
            v = self.call(dv, [v], {})
        frame.env.vars[node.name] = v

    def x_While(self, node, frame):
        # only concretely-bounded while loops (or with loop spec) are in the subset
        n = 0
        while True:
            t = self.eval(node.test, frame)
            if not self.truth(t):
                break
            n += 1
            if n > 64:
                raise Unsupported("while loop exceeded 64 concrete iterations")
            try:
                self.exec_block(node.body, frame)
            except _Break:
                return
            except _Continue:
                continue
        self.exec_block(node.orelse, frame)

    def x_For(self, node, frame):
        cnt = self.loop_counters[-1] if self.loop_counters else {"n": 0}
        ordinal = cnt["n"]
        cnt["n"] += 1
        it = self.eval(node.iter, frame)
        spec = self.cfg.loop_specs.get((frame.qualname, ordinal))
        if spec is not None:
            return self.for_with_spec(node, frame, it, spec, ordinal)
        items = self.iterate_concrete(it)
        broke = False
        for x in items:
            self.assign(node.target, x, frame)
            try:
                self.exec_block(node.body, frame)
            except _Break:
                broke = True
                break
            except _Continue:
                continue
        if not broke:
            self.exec_block(node.orelse, frame)

    def for_with_spec(self, node, frame, it, spec: LoopSpec, ordinal):
        """Floyd/Hoare loop rule over a symbolic-length sequence (no `break`/`else` support
        other than return/raise exits, which simply continue as normal paths)."""
        ctx = self.ctx
        if isinstance(it, _Enumerate):
            seq, enum = it.seq, True
        else:
            seq, enum = it, False
        n = self.seq_len(seq)
        tag = f"{frame.qualname}#loop{ordinal}"
        if spec.expect_iterable is not None:
            exp_n, exp_elem = spec.expect_iterable[:2]
            eq_fn = spec.expect_iterable[2] if len(spec.expect_iterable) > 2 else None
            j = z3.Int(f"j_iter!{ordinal}")
            ctx.oblige(f"{tag}.iterates_over_the_contracted_sequence.length", to_z3(n) == to_z3(exp_n), kind="loop-iterable")
            got = self.getitem(seq, j)
            got = got.ref if isinstance(got, SRef) else got
            try:
                same = eq_fn(got, j) if eq_fn else to_z3(got) == to_z3(exp_elem(j))
            except Exception:
                same = z3.BoolVal(False)
            ctx.oblige(f"{tag}.iterates_over_the_contracted_sequence.element", z3.Implies(z3.And(j >= 0, j < to_z3(exp_n)), same), kind="loop-iterable")
            if enum and getattr(it, "start", 0) != 0:
                ctx.oblige(f"{tag}.iterates_over_the_contracted_sequence.enumerate_from_0", False, kind="loop-iterable")
        # (1) invariant holds on entry
        for nm, f in spec.invariant(self, frame.env, 0 if not z3.is_expr(n) else z3.IntVal(0)):
            ctx.oblige(f"{tag}.inv_init.{nm}", f, kind="loop-init")
        # havoc
        k = ctx.fresh("k", "int")
        for v in spec.modifies:
            mk = spec.fresh_local.get(v)
            frame.env.vars[v] = mk(self, v) if mk else Opaque(f"havoc {v}")
        for c, fl in spec.heap_modifies:
            ctx.havoc_field(c, fl)
        if spec.havoc:
            spec.havoc(self, frame.env)
        which = ctx.choose(2, tag)
        if which == 0:
            # (2) arbitrary iteration k: assume Inv(k), 0<=k<n; run body; assert Inv(k+1)
            ctx.assume(z3.And(k >= 0, k < to_z3(n)))
            for nm, f in (spec.assume_invariant or spec.invariant)(self, frame.env, k):
                ctx.assume(f)
            ctx.ghost["cur_k"] = k
            if spec.at_iteration:
                spec.at_iteration(self, frame.env, k)
            x = self.getitem(seq, k)
            self.assign(node.target, (k, x) if enum else x, frame)
            try:
                self.exec_block(node.body, frame)
            except _Continue:
                pass
            except _Break:
                raise Unsupported("break in a loop with an invariant")
            for nm, f in spec.invariant(self, frame.env, k + 1):
                ctx.oblige(f"{tag}.inv_step.{nm}", f, kind="loop-step")
            raise PathCut()
        # (3) after the loop: Inv(n)
        kk = to_z3(n)
        ctx.ghost["cur_k"] = None
        for nm, f in (spec.assume_invariant or spec.invariant)(self, frame.env, kk):
            ctx.assume(f)
        if node.orelse:
            self.exec_block(node.orelse, frame)

    def iterate_concrete(self, it):
        if isinstance(it, (tuple, list)):
            return list(it)
        if isinstance(it, range):
            return list(it)
        if isinstance(it, dict):
            return list(it.keys())
        if isinstance(it, (set, frozenset)):
            return list(it)
        if isinstance(it, (type({}.items()), type({}.keys()), type({}.values()))):
            return list(it)
        if isinstance(it, _Enumerate):
            return [(i + it.start, x) for i, x in enumerate(self.iterate_concrete(it.seq))]
        if isinstance(it, SSeq):
            if z3.is_expr(it.length):
                ln = z3.simplify(it.length)
                if z3.is_int_value(ln):
                    return [it.get(i) for i in range(ln.as_long())]
                raise Unsupported(f"iteration over symbolic-length sequence {it.name} without a loop invariant")
            return [it.get(i) for i in range(it.length)]
        if isinstance(it, SObj):
            m = self._obj_model(it)
            if m is not None and hasattr(m, "iterate"):
                return m.iterate(self, it)
            if isinstance(it.cls, ClassValue):
                f, _ = it.cls.lookup(self, "__iter__")
                if f is not _MISSING:
                    return self.iterate_concrete(self.call(f, [it], {}))
        if hasattr(it, "__sym_iter__"):
            return it.__sym_iter__(self)
        if isinstance(it, str):
            return list(it)
        raise Unsupported(f"iteration over {it!r}")

    # -- assignment --------------------------------------------------------------------------
    def assign(self, target, value, frame):
        if isinstance(target, ast.Name):
            if target.id in frame.env.globals_decl:
                frame.module.globals[target.id] = value
                key = (frame.module.modname, target.id)
                if key in self.cfg.global_overrides:
                    ov = self.cfg.global_overrides[key]
                    if isinstance(ov, GlobalCell):
                        ov.set_global(self, value)
                        return
                    self.cfg.global_overrides[key] = value
                return
            frame.env.vars[target.id] = value
        elif isinstance(target, (ast.Tuple, ast.List)):
            items = self.iterate_concrete(value)
            star = [i for i, e in enumerate(target.elts) if isinstance(e, ast.Starred)]
            if star:
                raise Unsupported("starred assignment")
            if len(items) != len(target.elts):
                raise SymRaise(ExcInst(ValueError, ("unpack",)))
            for t, v in zip(target.elts, items):
                self.assign(t, v, frame)
        elif isinstance(target, ast.Attribute):
            self.setattr(self.eval(target.value, frame), target.attr, value)
        elif isinstance(target, ast.Subscript):
            o = self.eval(target.value, frame)
            self.setitem(o, self.eval_index(target.slice, frame), value)
        else:
            raise Unsupported(f"assign target {type(target).__name__}")

    # -- expressions ----------------------------------------------------------------------------
    def eval(self, node, frame):
        m = getattr(self, "e_" + type(node).__name__, None)
        if m is None:
            raise Unsupported(f"expression {type(node).__name__} (line {getattr(node,'lineno','?')})")
        return m(node, frame)

    def e_Constant(self, node, frame):
        return node.value

    def e_JoinedStr(self, node, frame):
        return Opaque("f-string")

    def load_name(self, name, frame):
        if name not in frame.env.globals_decl:
            v = frame.env.lookup(name)
            if v is not _MISSING:
                return v
        v = self.global_lookup(frame.module, name)
        if isinstance(v, GlobalCell):
            return v.get_global(self)
        return v

    def e_Name(self, node, frame):
        return self.load_name(node.id, frame)

    def e_Attribute(self, node, frame):
        o = self.eval(node.value, frame)
        v = self.getattr(o, node.attr)
        if isinstance(v, GlobalCell):
            return v.get_global(self)
        return v

    def e_Tuple(self, node, frame):
        return tuple(self._elts(node.elts, frame))

    def e_List(self, node, frame):
        return list(self._elts(node.elts, frame))

    def e_Set(self, node, frame):
        return set(self._elts(node.elts, frame))

    def _elts(self, elts, frame):
        out = []
        for e in elts:
            if isinstance(e, ast.Starred):
                out.extend(self.iterate_concrete(self.eval(e.value, frame)))
            else:
                out.append(self.eval(e, frame))
        return out

    def e_Dict(self, node, frame):
        d = {}
        for k, v in zip(node.keys, node.values):
            if k is None:
                d.update(self.eval(v, frame))
            else:
                d[self.eval(k, frame)] = self.eval(v, frame)
        return d

    def e_Slice(self, node, frame):
        return slice(
            self.eval(node.lower, frame) if node.lower else None,
            self.eval(node.upper, frame) if node.upper else None,
            self.eval(node.step, frame) if node.step else None,
        )

    def eval_index(self, node, frame):
        return self.eval(node, frame)

    def e_Subscript(self, node, frame):
        o = self.eval(node.value, frame)
        return self.getitem(o, self.eval_index(node.slice, frame))

    def e_Starred(self, node, frame):
        raise Unsupported("starred expression outside call/tuple")

    def e_Lambda(self, node, frame):
        return FuncValue(node, frame.module, f"{frame.qualname}.<lambda>", closure=frame.env)

    def e_IfExp(self, node, frame):
        t = self.eval(node.test, frame)
        if getattr(self, "pure_mode", 0) and z3.is_expr(t) and z3.is_bool(t) and not z3.is_true(z3.simplify(t)) and not z3.is_false(z3.simplify(t)):
            # inside a side-effect-free symbolic comprehension: merge instead of forking
            a = self.eval(node.body, frame)
            b = self.eval(node.orelse, frame)
            if isinstance(a, SRef) and isinstance(b, SRef) and a.cls == b.cls:
                return SRef(a.cls, z3.If(t, a.ref, b.ref))
            za, zb = to_z3(a), to_z3(b)
            if za is not None and zb is not None and za.sort() == zb.sort():
                return z3.If(t, za, zb)
            raise Unsupported("cannot merge branches of a conditional expression in a symbolic comprehension")
        if self.truth(t):
            return self.eval(node.body, frame)
        return self.eval(node.orelse, frame)

    def e_BoolOp(self, node, frame):
        if isinstance(node.op, ast.And):
            v = True
            for e in node.values:
                v = self.eval(e, frame)
                if not self.truth(v):
                    return v
            return v
        v = False
        for e in node.values:
            v = self.eval(e, frame)
            if self.truth(v):
                return v
        return v

    def e_UnaryOp(self, node, frame):
        v = self.eval(node.operand, frame)
        if isinstance(node.op, ast.Not):
            if is_symbool(v):
                return z3.Not(v)
            return not self.truth(v)
        for T in (SObj, SRef):
            if isinstance(v, T):
                m = self._obj_model(v) if T is SObj else self.cfg.ref_models.get(v.cls)
                if m is not None and hasattr(m, "unop"):
                    return m.unop(self, node.op, v)
        if isinstance(node.op, ast.USub):
            return -v
        if isinstance(node.op, ast.UAdd):
            return +v
        if isinstance(node.op, ast.Invert):
            if is_symbool(v):
                return z3.Not(v)
            if hasattr(v, "__invert__"):
                return ~v
        raise Unsupported(f"unary op on {v!r}")

    def e_BinOp(self, node, frame):
        a = self.eval(node.left, frame)
        b = self.eval(node.right, frame)
        return self.binop(node.op, a, b)

    def binop(self, op, a, b, inplace=False):
        for x in (a, b):
            if isinstance(x, SObj):
                m = self._obj_model(x)
                if m is not None and hasattr(m, "binop"):
                    return m.binop(self, op, a, b, inplace)
                if isinstance(x.cls, ClassValue):
                    raise Unsupported(f"operator on repo object {x!r}")
            if isinstance(x, SRef):
                m = self.cfg.ref_models.get(x.cls)
                if m is not None and hasattr(m, "binop"):
                    return m.binop(self, op, a, b, inplace)
                raise Unsupported(f"operator on ref {x!r}")
            if hasattr(x, "__sym_binop__"):
                r = x.__sym_binop__(self, op, a, b, inplace)
                if r is not NotImplemented:
                    return r
        T = type(op)
        if isinstance(a, Opaque) or isinstance(b, Opaque):
            if isinstance(a, (str, Opaque)) and isinstance(b, (str, Opaque)):
                return Opaque("message text")  # message strings are dropped by the extraction
            raise Unsupported(f"arithmetic on opaque value {a!r} {b!r}")
        if T is ast.Div:
            return self._div(a, b)
        if T is ast.FloorDiv:
            return self._floordiv(a, b)
        if T is ast.Mod:
            return self._mod(a, b)
        if T is ast.Add and isinstance(a, (tuple, list)) and isinstance(b, SSeq):
            raise Unsupported("concatenation with a symbolic sequence")
        if T is ast.Pow and (z3.is_expr(a) or z3.is_expr(b)):
            return self._pow(a, b)
        if z3.is_expr(a) and z3.is_bool(a):
            a = z3.If(a, 1, 0)
        if z3.is_expr(b) and z3.is_bool(b):
            b = z3.If(b, 1, 0)
        if isinstance(a, float) and z3.is_expr(b):
            a = to_z3(a)
        if isinstance(b, float) and z3.is_expr(a):
            b = to_z3(b)
        try:
            return _BINOPS[T](a, b)
        except KeyError:
            raise Unsupported(f"binary operator {T.__name__}")
        except z3.Z3Exception as e:
            raise Unsupported(f"z3: {e}")

    def _pow(self, a, b):
        if isinstance(b, int) and not isinstance(b, bool):
            if b >= 0:
                r = 1
                for _ in range(b):
                    r = r * a
                return r if b else (z3.RealVal(1) if z3.is_real(a) else z3.IntVal(1))
            return 1 / self._pow(a, -b)
        h = self.cfg.builtins.get("__pow__")
        if h is None:
            raise Unsupported("symbolic exponent without a pow model")
        return h(self, a, b)

    def _div(self, a, b):
        za, zb = to_z3(a), to_z3(b)
        if z3.is_expr(a) or z3.is_expr(b):
            if za is None or zb is None:
                raise Unsupported("division by non-finite float")
            if z3.is_int(za):
                za = z3.ToReal(za)
            if z3.is_int(zb):
                zb = z3.ToReal(zb)
            h = self.cfg.builtins.get("__div_check__")
            if h is not None:
                h(self, za, zb)
            return za / zb
        return a / b

    def _floordiv(self, a, b):
        if z3.is_expr(a) or z3.is_expr(b):
            za, zb = to_z3(a), to_z3(b)
            if not (z3.is_int(za) and z3.is_int(zb)):
                raise Unsupported("floor division on reals")
            if self.truth(zb == 0):
                raise SymRaise(ExcInst(ZeroDivisionError, ()))
            # SMT-LIB div floors for positive divisors; python floors always
            if self.truth(zb > 0):
                return za / zb
            return (-za) / (-zb)
        return a // b

    def _mod(self, a, b):
        if z3.is_expr(a) or z3.is_expr(b):
            za, zb = to_z3(a), to_z3(b)
            if not (z3.is_int(za) and z3.is_int(zb)):
                raise Unsupported("mod on reals")
            if self.truth(zb == 0):
                raise SymRaise(ExcInst(ZeroDivisionError, ()))
            if self.truth(zb > 0):
                return za % zb
            return -((-za) % (-zb))
        return a % b

    def e_Compare(self, node, frame):
        left = self.eval(node.left, frame)
        result = None
        for op, rn in zip(node.ops, node.comparators):
            right = self.eval(rn, frame)
            r = self.compare(op, left, right)
            if len(node.ops) == 1:
                return r
            # chained comparison: short-circuit
            if not self.truth(r):
                return False
            result = True
            left = right
        return result

    def compare(self, op, a, b):
        T = type(op)
        if T is ast.Is:
            return self.sym_is(a, b)
        if T is ast.IsNot:
            r = self.sym_is(a, b)
            return (not r) if isinstance(r, bool) else z3.Not(r)
        if T is ast.Eq:
            return self.sym_eq(a, b)
        if T is ast.NotEq:
            return self.sym_ne(a, b)
        if T is ast.In:
            return self.contains(b, a)
        if T is ast.NotIn:
            r = self.contains(b, a)
            return (not r) if isinstance(r, bool) else z3.Not(r)
        for x in (a, b):
            if isinstance(x, SObj):
                m = self._obj_model(x)
                if m is not None and hasattr(m, "compare"):
                    return m.compare(self, op, a, b)
            if isinstance(x, SRef):
                m = self.cfg.ref_models.get(x.cls)
                if m is not None and hasattr(m, "compare"):
                    return m.compare(self, op, a, b)
            if hasattr(x, "__sym_compare__"):
                return x.__sym_compare__(self, op, a, b)
        if isinstance(a, float) and z3.is_expr(b):
            a = to_z3(a)
        if isinstance(b, float) and z3.is_expr(a):
            b = to_z3(b)
        try:
            if T is ast.Lt:
                return a < b
            if T is ast.LtE:
                return a <= b
            if T is ast.Gt:
                return a > b
            if T is ast.GtE:
                return a >= b
        except (TypeError, z3.Z3Exception) as e:
            raise Unsupported(f"comparison {a!r} {T.__name__} {b!r}: {e}")
        raise Unsupported(f"comparison {T.__name__}")

    def contains(self, container, item):
        if isinstance(container, (tuple, list, set, frozenset)):
            parts = []
            for x in container:
                e = self.sym_eq(x, item)
                if e is True:
                    return True
                if e is not False:
                    parts.append(e)
            if not parts:
                return False
            return z3.Or(*parts)
        if isinstance(container, dict):
            if z3.is_expr(item) or isinstance(item, (SRef, SObj)):
                raise Unsupported("symbolic key in concrete dict")
            return item in container
        if isinstance(container, SObj):
            m = self._obj_model(container)
            if m is not None and hasattr(m, "contains"):
                return m.contains(self, container, item)
            if isinstance(container.cls, ClassValue):
                f, _ = container.cls.lookup(self, "__contains__")
                if f is not _MISSING:
                    return self.call(f, [container, item], {})
        if hasattr(container, "__sym_contains__"):
            return container.__sym_contains__(self, item)
        raise Unsupported(f"`in` on {container!r}")

    # -- subscripts ---------------------------------------------------------------------------
    def _slice_sseq(self, o, sl):
        """seq[lo:hi] / seq[::-1] of a symbolic-length sequence (Python's clamping semantics; other steps unsupported)."""
        n = to_z3(o.length)

        def bound(b, default):
            if b is None:
                return default
            b = to_z3(b)
            b = z3.If(b < 0, b + n, b)
            return z3.If(b < 0, z3.IntVal(0), z3.If(b > n, n, b))

        step = sl.step
        if z3.is_expr(step):
            step = z3.simplify(step)
            step = step.as_long() if z3.is_int_value(step) else step
        if step in (None, 1):
            lo, hi = bound(sl.start, z3.IntVal(0)), bound(sl.stop, n)
            ln = z3.simplify(z3.If(hi > lo, hi - lo, z3.IntVal(0)))
            lo = z3.simplify(lo)
            return SSeq(ln, lambda i, o=o, lo=lo: o.get(z3.simplify(lo + to_z3(i))), o.kind, f"{o.name}[{sl.start}:{sl.stop}]")
        if step == -1 and sl.start is None and sl.stop is None:
            return SSeq(o.length, lambda i, o=o, n=n: o.get(z3.simplify(n - 1 - to_z3(i))), o.kind, f"{o.name}[::-1]")
        raise Unsupported("slice of symbolic sequence with a step other than 1 / [::-1]")

    def getitem(self, o, idx):
        if isinstance(o, SSeq):
            if isinstance(idx, slice):
                return self._slice_sseq(o, idx)
            return o.get(idx)
        if isinstance(o, (tuple, list, str, range)):
            if z3.is_expr(idx):
                idx = z3.simplify(idx)
                if z3.is_int_value(idx):
                    idx = idx.as_long()
                else:
                    # symbolic index into concrete tuple: ite-chain
                    n = len(o)
                    if n == 0:
                        raise SymRaise(ExcInst(IndexError, ()))
                    if not all(to_z3(x) is not None for x in o):
                        raise Unsupported("symbolic index into tuple of non-scalars")
                    r = to_z3(o[n - 1])
                    for j in range(n - 2, -1, -1):
                        r = z3.If(idx == j, to_z3(o[j]), r)
                    return r
            try:
                return o[idx]
            except IndexError:
                raise SymRaise(ExcInst(IndexError, ()))
        if isinstance(o, dict):
            if z3.is_expr(idx):
                raise Unsupported("symbolic key in concrete dict")
            try:
                return o[idx]
            except KeyError:
                raise SymRaise(ExcInst(KeyError, (idx,)))
            except TypeError:
                raise Unsupported(f"unhashable key {idx!r}")
        if isinstance(o, SObj):
            m = self._obj_model(o)
            if m is not None and hasattr(m, "getitem"):
                return m.getitem(self, o, idx)
            if isinstance(o.cls, ClassValue):
                f, _ = o.cls.lookup(self, "__getitem__")
                if f is not _MISSING:
                    return self.call(f, [o, idx], {})
        if isinstance(o, SRef):
            m = self.cfg.ref_models.get(o.cls)
            if m is not None and hasattr(m, "getitem"):
                return m.getitem(self, o, idx)
        if hasattr(o, "__sym_getitem__"):
            return o.__sym_getitem__(self, idx)
        if isinstance(o, Opaque):
            return Opaque(f"{o.what}[...]")
        raise Unsupported(f"subscript of {o!r}")

    def setitem(self, o, idx, value):
        if isinstance(o, dict):
            if z3.is_expr(idx) or isinstance(idx, SRef):
                raise Unsupported("symbolic key in concrete dict")
            o[idx] = value
            return
        if isinstance(o, list):
            o[idx] = value
            return
        if isinstance(o, SObj):
            m = self._obj_model(o)
            if m is not None and hasattr(m, "setitem"):
                return m.setitem(self, o, idx, value)
        if isinstance(o, SRef):
            m = self.cfg.ref_models.get(o.cls)
            if m is not None and hasattr(m, "setitem"):
                return m.setitem(self, o, idx, value)
        if hasattr(o, "__sym_setitem__"):
            return o.__sym_setitem__(self, idx, value)
        raise Unsupported(f"item assignment on {o!r}")

    def delitem(self, o, idx):
        if isinstance(o, dict):
            try:
                del o[idx]
            except KeyError:
                raise SymRaise(ExcInst(KeyError, (idx,)))
            return
        if hasattr(o, "__sym_delitem__"):
            return o.__sym_delitem__(self, idx)
        raise Unsupported(f"del item on {o!r}")

    # -- calls ------------------------------------------------------------------------------------
    def e_Call(self, node, frame):
        # super() support
        if isinstance(node.func, ast.Name) and node.func.id == "super":
            return _Super(frame)
        f = self.eval(node.func, frame)
        args = []
        for a in node.args:
            if isinstance(a, ast.Starred):
                args.extend(self.iterate_concrete(self.eval(a.value, frame)))
            else:
                args.append(self.eval(a, frame))
        kwargs = {}
        for k in node.keywords:
            if k.arg is None:
                d = self.eval(k.value, frame)
                if not isinstance(d, dict):
                    raise Unsupported("** of non-dict")
                kwargs.update(d)
            else:
                kwargs[k.arg] = self.eval(k.value, frame)
        if isinstance(f, _Super):
            raise Unsupported("calling super object")
        return self.call(f, args, kwargs)

    # -- comprehensions -------------------------------------------------------------------------
    def _comp(self, node, frame, elt_fn):
        out = []
        env = Env(frame.env)
        sub = Frame(frame.module, env, frame.qualname)
        sub.handling = frame.handling
        first_iter = {}
        if len(node.generators) == 1 and not node.generators[0].ifs:
            g0 = node.generators[0]
            it0 = self.eval(g0.iter, sub)
            first_iter["v"] = it0  # evaluated exactly once (the iterable expression may have effects)
            if isinstance(it0, SSeq) and z3.is_expr(it0.length) and not z3.is_int_value(z3.simplify(it0.length)):
                # side-effect-free element expression over a symbolic-length sequence:
                # r with len r = len s and r[i] = e(s[i])   (DESIGN §2.2)
                interp = self

                def get(i, it0=it0, g0=g0):
                    e2 = Env(frame.env)
                    fr = Frame(frame.module, e2, frame.qualname)
                    interp.assign(g0.target, it0.get(i), fr)
                    interp.pure_mode = getattr(interp, "pure_mode", 0) + 1
                    try:
                        return elt_fn(fr)
                    finally:
                        interp.pure_mode -= 1

                return SSeq(it0.length, get, "list", f"comp({it0.name})")

        def rec(gi):
            if gi == len(node.generators):
                out.append(elt_fn(sub))
                return
            g = node.generators[gi]
            it = first_iter.pop("v") if (gi == 0 and "v" in first_iter) else self.eval(g.iter, sub)
            for x in self.iterate_concrete(it):
                self.assign(g.target, x, sub)
                if all(self.truth(self.eval(c, sub)) for c in g.ifs):
                    rec(gi + 1)

        rec(0)
        return out

    def e_ListComp(self, node, frame):
        return self._comp(node, frame, lambda fr: self.eval(node.elt, fr))

    def e_GeneratorExp(self, node, frame):
        # executed eagerly (see DESIGN §2.2: sound when the consumer's effects do not feed back)
        return self._comp(node, frame, lambda fr: self.eval(node.elt, fr))

    def e_SetComp(self, node, frame):
        return set(self._comp(node, frame, lambda fr: self.eval(node.elt, fr)))

    def e_DictComp(self, node, frame):
        return dict(
            self._comp(node, frame, lambda fr: (self.eval(node.key, fr), self.eval(node.value, fr)))
        )


class Frame:
    def __init__(self, module: ModuleValue, env: Env, qualname: str):
        self.module = module
        self.env = env
        self.qualname = qualname
        self.handling = None
        self.yields = None
        self.func = None


class _Enumerate:
    def __init__(self, seq, start=0):
        self.seq = seq
        self.start = start


class _Super:
    def __init__(self, frame):
        self.frame = frame

    def __sym_getattr__(self, interp, name):
        f = self.frame.func
        # find enclosing method frame (closures of methods are not needed here)
        if f is None or f.cls is None:
            raise Unsupported("super() outside method")
        selfobj = self.frame.env.vars[f.node.args.args[0].arg]
        cls = selfobj.cls if isinstance(selfobj, SObj) else None
        if cls is None:
            raise Unsupported("super() on non-SObj")
        mro = cls.mro(interp)
        i = mro.index(f.cls)
        for c in mro[i + 1 :]:
            if isinstance(c, ClassValue):
                mem = c.members(interp)
                if name in mem:
                    v = mem[name]
                    if isinstance(v, FuncValue):
                        return BoundMethod(selfobj, v)
                    return v
        if name == "__init__":
            return lambda *a, **k: None
        raise Unsupported(f"super().{name} not found")


class _DictProxy:
    """`obj.__dict__` of an SObj."""

    def __init__(self, obj: SObj):
        self.obj = obj

    def copy(self):
        return dict(self.obj.fields)


# ----------------------------------------------------------------------------------------------
# path exploration
# ----------------------------------------------------------------------------------------------
class PathResult:
    def __init__(self, ctx, outcome, value, interp):
        self.ctx = ctx
        self.outcome = outcome  # "return" | "raise" | "cut" | "unsupported"
        self.value = value
        self.interp = interp


def explore(harness: Callable[[Ctx], Any], max_paths=4000) -> List[PathResult]:
    """Run `harness(ctx)` once per feasible path.  The harness builds the symbolic pre-state,
    runs the function under verification and records obligations on ctx."""
    work: List[List[bool]] = [[]]
    results: List[PathResult] = []
    while work:
        dec = work.pop()
        ctx = Ctx(dec)
        SObj._n = 0
        try:
            harness(ctx)
            results.append(PathResult(ctx, "done", None, None))
        except PathInfeasible:
            work.extend(ctx.new_branches)
            continue
        except PathCut:
            results.append(PathResult(ctx, "cut", None, None))
        except Unsupported as u:
            results.append(PathResult(ctx, "unsupported", str(u), None))
        except SymRaise as sr:
            # an exception of the interpreted program that the harness did not expect
            results.append(PathResult(ctx, "unsupported", f"uncaught {sr.exc!r} escaped the harness", None))
        work.extend(ctx.new_branches)
        if len(results) > max_paths:
            raise Unsupported(f"more than {max_paths} paths")
    return results
