"""Index-function domain: ndarrays of *concrete rank* with *symbolic extents* and an element function.

An `XArr` is (shape, element function).  Two representations:

  idx  mode   `elem(i_0..i_{r-1}) -> Real`   (an uninterpreted function for inputs; a composed Python closure for results)
  flat mode   `flat(k) -> Real`              (element at C-order flat position k; used by the order-preserving routines whose
                                              NumPy definition is "same flat sequence, new shape")

The NumPy functions below are AXIOMS — NumPy's documented definition of each rearrangement routine, written over index
tuples (numpy/_core/fromnumeric.py, numeric.py: transpose / swapaxes / moveaxis / roll; reshape-like routines keep the C-order
flat sequence).  Axis arguments must be concrete integers (the contracts enumerate them); extents and roll shifts are symbolic
integers of unbounded value.  Everything else is `Unsupported` (an out-of-subset path, never a verdict).
"""
from __future__ import annotations

import z3

from pyvc.interp import ExcInst, Opaque, SymRaise, Unsupported


def _is_int(v):
    return isinstance(v, int) and not isinstance(v, bool)


def _conc_axis(v, what="axis"):
    if isinstance(v, bool) or not isinstance(v, int):
        if z3.is_int_value(v) if z3.is_expr(v) else False:
            return v.as_long()
        raise Unsupported(f"{what} must be a concrete integer in the index-function domain")
    return v


def _norm(ax, nd, what="axis"):
    ax = _conc_axis(ax, what)
    if not -nd <= ax < nd:
        raise Unsupported(f"{what} {ax} out of range for rank {nd} (NumPy raises AxisError; not modelled)")
    return ax % nd


def prod(xs):
    acc = z3.IntVal(1)
    for x in xs:
        acc = acc * x
    return z3.simplify(acc) if z3.is_expr(acc) else acc


def ravel(idx, shape):
    k = z3.IntVal(0)
    for i, n in zip(idx, shape):
        k = k * n + i
    return k


class XArr:
    _n = 0

    def __init__(self, dom, shape, elem=None, flat=None, origin="fresh", base=None):
        assert (elem is None) != (flat is None)
        self.dom = dom
        self.shape = tuple(shape)
        self.ndim = len(self.shape)
        self.elem = elem
        self.flat = flat
        self.origin = origin
        self.base = base
        self.writes = 0
        XArr._n += 1
        self.label = f"xarr{XArr._n}"

    def __repr__(self):
        return f"<XArr {self.label} {self.origin} rank={self.ndim} {'flat' if self.flat else 'idx'}>"

    def at(self, idx):
        idx = tuple(idx)
        assert len(idx) == self.ndim
        if self.elem is not None:
            return self.elem(idx)
        return self.flat(ravel(idx, self.shape))

    def owner(self):
        a = self
        while a.base is not None:
            a = a.base
        return a

    def size(self):
        return prod(self.shape)

    # -- NumPy definitions ---------------------------------------------------------------------
    def transposed(self, perm):
        """np.transpose(a, perm): out.shape[k] = a.shape[perm[k]], out[j] = a[i] with i[perm[k]] = j[k]."""
        nd = self.ndim
        perm = [_norm(p, nd, "transpose axis") for p in perm]
        if sorted(perm) != list(range(nd)):
            raise Unsupported("transpose axes are not a permutation (NumPy raises ValueError; not modelled)")
        src = self

        def elem(j, perm=tuple(perm), src=src):
            i = [None] * len(perm)
            for k, p in enumerate(perm):
                i[p] = j[k]
            return src.at(i)

        return XArr(self.dom, [self.shape[p] for p in perm], elem=elem, base=self)

    def reshaped(self, newshape, view=True):
        """C-order reshape: the flat element sequence is kept.  Precondition (NumPy raises otherwise): sizes agree."""
        flat = self.flat
        if flat is None:
            # C-order flat position k of an index-mode array: the unique in-bounds index tuple i with ravel(i) = k, introduced by
            # witnesses (exists and is unique for 0 <= k < size); nonlinear in the extents — fine for refutations, slow for proofs
            src = self

            def flat(k, src=src):
                ctx = src.dom.ctx
                i = [ctx.fresh("u", "int") for _ in src.shape]
                ctx.assume(z3.Implies(z3.And(k >= 0, k < src.size()), z3.And(ravel(i, src.shape) == k, *[z3.And(a >= 0, a < n) for a, n in zip(i, src.shape)])))
                return src.at(i)
        newshape = list(newshape)
        holes = [k for k, n in enumerate(newshape) if _is_int(n) and n == -1]
        if len(holes) > 1:
            raise Unsupported("more than one -1 in a shape")
        if holes:
            d = self.dom.ctx.fresh("dim", "int")
            self.dom.ctx.assume(d >= 0)
            newshape[holes[0]] = d
        newshape = [z3.IntVal(n) if _is_int(n) else n for n in newshape]
        for n in newshape:
            if not (z3.is_expr(n) and z3.is_int(n)):
                raise Unsupported(f"shape entry {n!r}")
        # accepted call: the sizes agree (the refusing branch of NumPy is outside this contract)
        self.dom.ctx.assume(prod(newshape) == self.size())
        return XArr(self.dom, newshape, flat=flat, base=self if view else None)

    def sliced(self, idx):
        """Basic indexing a[idx] with integers and step-1 slices (NumPy: negative values count from the end, slice bounds are clipped,
        an integer must be in range — recorded as a side condition the contract obliges).  The result is a view."""
        if not isinstance(idx, tuple):
            idx = (idx,)
        nreal = sum(1 for ix in idx if ix is not None)
        if nreal > self.ndim:
            raise SymRaise(ExcInst(IndexError, ("too many indices for array",)))
        idx = tuple(idx) + (slice(None, None, None),) * (self.ndim - nreal)
        plan, shape = [], []
        dims = iter(self.shape)
        for k, ix in enumerate(idx):
            if ix is None:
                # np.newaxis: a new axis of length 1 that consumes no axis of the source
                plan.append(("new", None))
                shape.append(z3.IntVal(1))
                continue
            n = next(dims)
            if isinstance(ix, slice):
                if ix.step not in (None, 1):
                    raise Unsupported("slice step")
                def norm(v, default, n=n):
                    if v is None:
                        return default
                    v = z3.IntVal(v) if _is_int(v) else v
                    if not (z3.is_expr(v) and z3.is_int(v)):
                        raise Unsupported(f"slice bound {v!r}")
                    return z3.If(v < 0, z3.If(v + n < 0, 0, v + n), z3.If(v > n, n, v))
                if ix.start is None and ix.stop is None:
                    plan.append(("slice", z3.IntVal(0)))
                    shape.append(n)
                    continue
                lo, hi = norm(ix.start, z3.IntVal(0)), norm(ix.stop, n)
                ln = z3.simplify(z3.If(hi - lo < 0, 0, hi - lo))
                plan.append(("slice", z3.simplify(lo)))
                shape.append(ln)
            elif _is_int(ix) or (z3.is_expr(ix) and z3.is_int(ix)):
                v = z3.IntVal(ix) if _is_int(ix) else ix
                w = z3.simplify(z3.If(v < 0, v + n, v))
                self.dom.side_conditions.append(("integer index in range", z3.And(w >= 0, w < n)))
                plan.append(("int", w))
            else:
                raise Unsupported(f"index object {type(ix).__name__} in the index-function domain")
        src = self
        if self.flat is not None and self.ndim == 1 and plan[0][0] == "slice":
            lo = plan[0][1]
            return XArr(self.dom, shape, flat=lambda k, lo=lo, src=src: src.flat(lo + k), base=self)

        def elem(j, plan=tuple(plan), src=src):
            it = iter(j)
            i = []
            for kind, lo in plan:
                if kind == "slice":
                    i.append(lo + next(it))
                elif kind == "new":
                    next(it)
                else:
                    i.append(lo)
            return src.at(i)

        return XArr(self.dom, shape, elem=elem, base=self)

    def scaled(self, f):
        """elementwise image under a scalar function f: Real -> Real (a new array)"""
        src = self
        if self.flat is not None:
            return XArr(self.dom, self.shape, flat=lambda k: f(src.flat(k)))
        return XArr(self.dom, self.shape, elem=lambda i: f(src.at(i)))

    def __sym_binop__(self, interp, op, a, b, inplace):
        import ast as _ast

        if inplace:
            raise Unsupported("in-place arithmetic on an array of the index-function domain (no write primitive)")
        other = b if a is self else a
        if isinstance(other, XArr):
            raise Unsupported("array-array arithmetic in the index-function domain")
        if _is_int(other):
            o = z3.RealVal(other)
        elif z3.is_expr(other) and z3.is_int(other):
            o = z3.ToReal(other)
        elif z3.is_expr(other) and z3.is_real(other):
            o = other
        elif isinstance(other, float):
            o = z3.RealVal(other)
        else:
            raise Unsupported(f"arithmetic with {type(other).__name__}")
        T = type(op)
        left = a is self
        fn = {_ast.Add: lambda x: x + o, _ast.Mult: lambda x: x * o, _ast.Sub: (lambda x: x - o) if left else (lambda x: o - x),
              _ast.Div: (lambda x: x / o) if left else (lambda x: o / x)}.get(T)
        if fn is None:
            raise Unsupported(f"array operator {T.__name__}")
        return self.scaled(fn)

    # -- interpreter hooks ---------------------------------------------------------------------
    def __sym_getitem__(self, interp, idx):
        return self.sliced(idx)

    def __sym_is__(self, interp, other):
        return self is other

    def __sym_getattr__(self, interp, name):
        if name == "ndim":
            return self.ndim
        if name == "shape":
            return self.shape
        if name == "base":
            return self.base
        if name == "data":
            return self
        if name == "dtype":
            return self.dom.dtype_token
        if name == "size":
            return self.size()
        if name == "T":
            return self.transposed(range(self.ndim)[::-1]) if self.ndim >= 2 else XArr(self.dom, self.shape, elem=self.elem, flat=self.flat, base=self)
        if name == "transpose":
            def transpose(*axes):
                if len(axes) == 1 and (axes[0] is None or isinstance(axes[0], (tuple, list))):
                    axes = axes[0]
                if axes is None or len(axes) == 0 and self.ndim != 0:
                    axes = range(self.ndim)[::-1]
                return self.transposed(list(axes))

            return transpose
        if name == "flatten":
            def flatten(order="C"):
                if order != "C":
                    raise Unsupported("flatten order")
                return self.reshaped([self.size()], view=False)

            return flatten
        if name == "reshape":
            def reshape(*shape):
                if len(shape) == 1 and isinstance(shape[0], (tuple, list)):
                    shape = shape[0]
                return self.reshaped(shape)

            return reshape
        if name == "copy":
            return lambda *a, **k: XArr(self.dom, self.shape, elem=self.elem, flat=self.flat)
        if name == "astype":
            # values are mathematical reals: a conversion between float types is the identity on values
            return lambda *a, **k: self if k.get("copy", True) is False else XArr(self.dom, self.shape, elem=self.elem, flat=self.flat)
        if name in ("sum", "mean", "max", "min", "prod"):
            # a reduction allocates a NEW array; its contents and shape are not modelled (unknown function, unknown rank-1 extent)
            def reduction(*a, **k):
                f = z3.Function(f"{name}!{self.label}", z3.IntSort(), z3.RealSort())
                return XArr(self.dom, [self.dom.ctx.fresh("red", "int")], flat=lambda q: f(q), origin=f"np.{name}")

            return reduction
        raise Unsupported(f"ndarray attribute .{name} in the index-function domain")


class XTensor:
    """Stand-in for a Tensor operand: `.data` and shape metadata only."""

    def __init__(self, data: XArr, name):
        self.data = data
        self.name = name

    def __repr__(self):
        return f"<XTensor {self.name}>"

    def __sym_getattr__(self, interp, name):
        if name == "data":
            return self.data
        if name in ("ndim", "shape", "size", "dtype"):
            return self.data.__sym_getattr__(interp, name)
        if name == "constant":
            return False
        raise Unsupported(f"Tensor attribute .{name} in the index-function domain")


class IdxDomain:
    def __init__(self, ctx):
        self.ctx = ctx
        self.dtype_token = Opaque("dtype")
        self.np = _Np(self)
        self.quotients = []  # (q, n) of every `a mod n` formed so far
        self.side_conditions = []  # (what, formula): conditions under which NumPy accepts an indexing expression; obliged by the contracts

    def mod(self, a, n):
        """Python's / NumPy's `a % n` for an extent n: for n > 0 the Euclidean remainder, introduced by witnesses
        a = q*n + m, 0 <= m < n (the definition; n == 0 only occurs for index spaces with no in-bounds index).
        The solvers do not find  |Q*n| < n  ==>  Q = 0  unprompted, so instances of the LEMMA
              n >= 0 /\ Q >= 1  ==>  Q*n >= n          n >= 0 /\ Q <= -1  ==>  Q*n <= -n
        (itself discharged as the obligation C02.struct.lemma.mul_monotone, for all integers) are added for Q ranging over
        single quotients and the sums / differences of pairs of quotients with the same modulus."""
        ctx = self.ctx
        q, m = ctx.fresh("q", "int"), ctx.fresh("m", "int")
        ctx.assume(z3.Implies(n > 0, z3.And(a == q * n + m, m >= 0, m < n)))
        cands = [q] + [e for (q2, n2) in self.quotients if n2.eq(n) for e in (q + q2, q - q2)]
        for Q in cands:
            ctx.assume(z3.And(z3.Implies(z3.And(n >= 0, Q >= 1), Q * n >= n), z3.Implies(z3.And(n >= 0, Q <= -1), Q * n <= -n)))
        self.quotients.append((q, n))
        return m


def _arr(a):
    if isinstance(a, XTensor):
        return a.data
    if not isinstance(a, XArr):
        raise Unsupported(f"array argument {type(a).__name__} in the index-function domain")
    return a


class _Np:
    def __init__(self, dom):
        self._dom = dom

    def __sym_getattr__(self, interp, name):
        if name == "newaxis":
            return None
        f = getattr(self, "np_" + name, None)
        if f is None:
            raise Unsupported(f"np.{name} has no axiom in the index-function domain")
        return f

    def __getattr__(self, name):
        if name.startswith("np_") or name.startswith("_"):
            raise AttributeError(name)
        return self.__sym_getattr__(None, name)

    # ---- permutations of axes
    def np_transpose(self, a, axes=None):
        a = _arr(a)
        if axes is None:
            axes = range(a.ndim)[::-1]
        return a.transposed(list(axes))

    def np_swapaxes(self, a, axis1, axis2):
        a = _arr(a)
        p = list(range(a.ndim))
        i, j = _norm(axis1, a.ndim), _norm(axis2, a.ndim)
        p[i], p[j] = p[j], p[i]
        return a.transposed(p)

    def np_moveaxis(self, a, source, destination):
        # numpy/_core/numeric.py: moveaxis
        a = _arr(a)
        src = [source] if _is_int(source) else list(source)
        dst = [destination] if _is_int(destination) else list(destination)
        src = [_norm(s, a.ndim, "source") for s in src]
        dst = [_norm(d, a.ndim, "destination") for d in dst]
        if len(src) != len(dst) or len(set(src)) != len(src) or len(set(dst)) != len(dst):
            raise Unsupported("moveaxis: NumPy raises ValueError (not modelled)")
        order = [n for n in range(a.ndim) if n not in src]
        for d, s in sorted(zip(dst, src)):
            order.insert(d, s)
        return a.transposed(order)

    def np_ndim(self, v):
        if isinstance(v, (XArr, XTensor)):
            return _arr(v).ndim
        if _is_int(v) or isinstance(v, bool) or (z3.is_expr(v) and (z3.is_int(v) or z3.is_bool(v))):
            return 0
        if isinstance(v, (tuple, list)):
            depths = {self.np_ndim(x) for x in v}
            if len(depths) > 1:
                raise Unsupported("np.ndim of a ragged sequence")
            return 1 + (depths.pop() if depths else 0)
        raise Unsupported(f"np.ndim of {type(v).__name__}")

    def np_argsort(self, seq):
        seq = [_conc_axis(s, "argsort element") for s in seq]
        return tuple(sorted(range(len(seq)), key=lambda k: seq[k]))

    def np_roll(self, a, shift, axis=None):
        # numpy/_core/numeric.py: roll — out[.., j, ..] = a[.., (j - shift) mod n, ..] per rolled axis; shifts on a repeated axis add up
        a = _arr(a)
        if axis is None:
            raise Unsupported("np.roll(axis=None) (flattened roll)")
        axes = [axis] if _is_int(axis) else list(axis)
        shifts = list(shift) if isinstance(shift, (tuple, list)) else [shift]
        if len(shifts) == 1 and len(axes) > 1:
            shifts = shifts * len(axes)
        if len(axes) == 1 and len(shifts) > 1:
            axes = axes * len(shifts)
        if len(axes) != len(shifts):
            raise Unsupported("roll: shift/axis do not broadcast (NumPy raises)")
        total = {}
        for s, ax in zip(shifts, axes):
            ax = _norm(ax, a.ndim)
            if not (_is_int(s) or (z3.is_expr(s) and z3.is_int(s))):
                raise Unsupported(f"roll shift {s!r}")
            total[ax] = total.get(ax, 0) + s
        src = a

        def elem(j, total=dict(total), src=src, dom=self._dom):
            i = list(j)
            for ax, s in total.items():
                i[ax] = dom.mod(j[ax] - s, src.shape[ax])
            return src.at(i)

        return XArr(self._dom, a.shape, elem=elem)

    # ---- joins
    def np_concatenate(self, arrays, axis=0, out=None, dtype=None, casting="same_kind"):
        # numpy.concatenate: the pieces laid one after the other along `axis` (axis=None: the flattened pieces one after the other)
        if out is not None:
            raise Unsupported("np.concatenate(out=)")
        pieces = [_arr(a) for a in arrays]
        if not pieces:
            raise Unsupported("np.concatenate of nothing (NumPy raises)")
        dom = self._dom
        if axis is None:
            if any(p.flat is None for p in pieces):
                raise Unsupported("np.concatenate(axis=None) of index-mode arrays")
            offs = [z3.IntVal(0)]
            for p in pieces:
                offs.append(offs[-1] + p.size())

            def flat(k, pieces=tuple(pieces), offs=tuple(offs)):
                r = pieces[-1].flat(k - offs[-2])
                for q in range(len(pieces) - 2, -1, -1):
                    r = z3.If(k < offs[q + 1], pieces[q].flat(k - offs[q]), r)
                return r

            return XArr(dom, [z3.simplify(offs[-1])], flat=flat)
        nd = pieces[0].ndim
        if nd == 0 or any(p.ndim != nd for p in pieces):
            raise Unsupported("np.concatenate: 0-d or mixed-rank pieces (NumPy raises)")
        ax = _norm(axis, nd)
        for p in pieces[1:]:
            for k in range(nd):
                if k != ax:
                    # accepted call: all extents off the axis agree
                    dom.ctx.assume(p.shape[k] == pieces[0].shape[k])
        offs = [z3.IntVal(0)]
        for p in pieces:
            offs.append(offs[-1] + p.shape[ax])

        def elem(j, pieces=tuple(pieces), offs=tuple(offs), ax=ax):
            def at(q):
                i = list(j)
                i[ax] = j[ax] - offs[q]
                return pieces[q].at(i)

            r = at(len(pieces) - 1)
            for q in range(len(pieces) - 2, -1, -1):
                r = z3.If(j[ax] < offs[q + 1], at(q), r)
            return r

        shape = list(pieces[0].shape)
        shape[ax] = z3.simplify(offs[-1])
        return XArr(dom, shape, elem=elem)

    def np_stack(self, arrays, axis=0, out=None, dtype=None, casting="same_kind"):
        # numpy.stack: a new axis of length len(arrays) at `axis`; out[.., p, ..] = arrays[p]
        if out is not None:
            raise Unsupported("np.stack(out=)")
        pieces = [_arr(a) for a in arrays]
        if not pieces:
            raise Unsupported("np.stack of nothing (NumPy raises)")
        nd = pieces[0].ndim
        if any(p.ndim != nd for p in pieces):
            raise Unsupported("np.stack: mixed-rank pieces (NumPy raises)")
        ax = _norm(axis, nd + 1)
        for p in pieces[1:]:
            for k in range(nd):
                self._dom.ctx.assume(p.shape[k] == pieces[0].shape[k])

        def elem(j, pieces=tuple(pieces), ax=ax):
            i = [x for k, x in enumerate(j) if k != ax]
            r = pieces[-1].at(i)
            for q in range(len(pieces) - 2, -1, -1):
                r = z3.If(j[ax] == q, pieces[q].at(i), r)
            return r

        shape = list(pieces[0].shape)
        shape.insert(ax, z3.IntVal(len(pieces)))
        return XArr(self._dom, shape, elem=elem)

    def np_broadcast_to(self, a, shape, subok=False):
        # NumPy broadcasting: align trailing axes; a source extent that is the literal 1 is stretched (index 0), any other extent must equal the target's
        a = _arr(a)
        shape = [z3.IntVal(n) if _is_int(n) else n for n in shape]
        lead = len(shape) - a.ndim
        if lead < 0:
            raise SymRaise(ExcInst(ValueError, ("input operand has more dimensions than allowed by the axis remapping",)))
        stretch = []
        for k, n in enumerate(a.shape):
            one = (_is_int(n) and n == 1) or (z3.is_expr(n) and z3.is_int_value(n) and n.as_long() == 1)
            if one:
                stretch.append(True)
            else:
                same = z3.simplify(n == shape[lead + k])
                if not z3.is_true(same):
                    raise Unsupported("broadcast_to: a source extent that is neither the literal 1 nor the target's own extent (needs a case split)")
                stretch.append(False)
        src = a

        def elem(j, lead=lead, stretch=tuple(stretch), src=src):
            return src.at([z3.IntVal(0) if st else j[lead + k] for k, st in enumerate(stretch)])

        out = XArr(self._dom, shape, elem=elem, base=a)
        return out

    def np_full(self, shape, fill_value, dtype=None, order="C"):
        if isinstance(fill_value, XArr) and fill_value.ndim != 0:
            # NumPy broadcasts the fill array to the requested shape
            b = self.np_broadcast_to(fill_value, [shape] if _is_int(shape) or z3.is_expr(shape) else list(shape))
            return XArr(self._dom, b.shape, elem=b.elem)
        if isinstance(fill_value, XArr):
            v = fill_value.at(())
        elif z3.is_expr(fill_value) or isinstance(fill_value, (int, float)):
            v = fill_value if z3.is_expr(fill_value) else z3.RealVal(fill_value)
        else:
            raise Unsupported(f"np.full fill value {type(fill_value).__name__}")
        shape = [shape] if _is_int(shape) or z3.is_expr(shape) else list(shape)
        return XArr(self._dom, shape, elem=lambda i, v=v: v)

    def np_prod(self, seq, **kw):
        if kw or not isinstance(seq, (tuple, list)):
            raise Unsupported("np.prod of anything but a sequence of integers")
        acc = z3.IntVal(1)
        for v in seq:
            acc = acc * v
        return acc

    def np_cumsum(self, seq, **kw):
        if kw or not isinstance(seq, (tuple, list)):
            raise Unsupported("np.cumsum of anything but a sequence of integers")
        out, acc = [], 0
        for v in seq:
            acc = acc + v
            out.append(z3.simplify(acc) if z3.is_expr(acc) else acc)
        return out

    # ---- order-preserving routines
    def np_reshape(self, a, newshape=None, shape=None, order="C"):
        a = _arr(a)
        if order != "C":
            raise Unsupported("reshape order")
        newshape = shape if newshape is None else newshape
        if _is_int(newshape) or (z3.is_expr(newshape)):
            newshape = (newshape,)
        return a.reshaped(list(newshape))

    def np_ravel(self, a, order="C"):
        a = _arr(a)
        if order != "C":
            raise Unsupported("ravel order")
        return a.reshaped([a.size()])

    def np_squeeze(self, a, axis=None):
        # extents that are the *literal* 1 are length-one axes; a symbolic extent is assumed != 1 when axis is None (the
        # contract enumerates which axes are the literal 1, which covers every case)
        a = _arr(a)

        def is_one(n):
            return (_is_int(n) and n == 1) or (z3.is_int_value(n) and n.as_long() == 1)

        if axis is None:
            for n in a.shape:
                if not is_one(n):
                    self._dom.ctx.assume(n != 1)
            keep = [n for n in a.shape if not is_one(n)]
        else:
            axes = [axis] if _is_int(axis) else list(axis)
            axes = [_norm(x, a.ndim) for x in axes]
            for x in axes:
                if not is_one(a.shape[x]):
                    # NumPy raises ValueError unless the extent is 1: accepted calls only
                    self._dom.ctx.assume(a.shape[x] == 1)
            keep = [n for k, n in enumerate(a.shape) if k not in axes]
        return a.reshaped(keep)

    def np_expand_dims(self, a, axis):
        a = _arr(a)
        axes = [axis] if _is_int(axis) else list(axis)
        nd = a.ndim + len(axes)
        axes = [_norm(x, nd) for x in axes]
        if len(set(axes)) != len(axes):
            raise Unsupported("expand_dims: repeated axis (NumPy raises)")
        it = iter(a.shape)
        new = [1 if k in axes else next(it) for k in range(nd)]
        return a.reshaped(new)

    def _atleast(self, a, k):
        a = _arr(a)
        if a.ndim >= k:
            return a
        s = list(a.shape)
        if k == 1:
            new = [1]
        elif k == 2:
            new = [1, 1] if a.ndim == 0 else [1, s[0]]
        else:
            new = [1, 1, 1] if a.ndim == 0 else ([1, s[0], 1] if a.ndim == 1 else [s[0], s[1], 1])
        return a.reshaped(new)

    def np_atleast_1d(self, a):
        return self._atleast(a, 1)

    def np_atleast_2d(self, a):
        return self._atleast(a, 2)

    def np_atleast_3d(self, a):
        return self._atleast(a, 3)
