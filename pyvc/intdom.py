"""Integer / small-integer-vector domain: NumPy integer vectors of *concrete length* whose
elements are symbolic z3 Ints (shape arithmetic of sliding_window_view, ConvND, MaxPoolND,
reduce_broadcast).  The dimension count is enumerated by the harness; element values are unbounded.
"""
from __future__ import annotations

import ast
import numbers

import z3

from .builtins_model import TypeToken, wants_interp
from .interp import ExcInst, Opaque, SymRaise, Unsupported, to_z3


class QVal:
    """Result of true division of two integers (exact rational num/den, den != 0)."""

    def __init__(self, num, den):
        self.num, self.den = num, den

    def __repr__(self):
        return f"<q {self.num}/{self.den}>"

    def __sym_getattr__(self, interp, name):
        if name == "is_integer":
            def is_integer():
                if interp.truth(to_z3(self.den) > 0):
                    return to_z3(self.num) % to_z3(self.den) == 0
                return (-to_z3(self.num)) % (-to_z3(self.den)) == 0
            return is_integer
        raise Unsupported(f"float attribute .{name}")

    def __sym_binop__(self, interp, op, a, b, inplace):
        T = type(op)
        if isinstance(a, QVal) and not isinstance(b, QVal):
            if T is ast.Add:
                return QVal(a.num + b * a.den, a.den)
            if T is ast.Sub:
                return QVal(a.num - b * a.den, a.den)
            if T is ast.Mult:
                return QVal(a.num * b, a.den)
        if isinstance(b, QVal) and not isinstance(a, QVal):
            if T is ast.Add:
                return QVal(b.num + a * b.den, b.den)
            if T is ast.Mult:
                return QVal(b.num * a, b.den)
        raise Unsupported(f"rational operator {T.__name__}")

    def __sym_compare__(self, interp, op, a, b):
        if not isinstance(a, QVal) or isinstance(b, QVal):
            raise Unsupported("rational comparison")
        n, d = to_z3(a.num), to_z3(a.den)
        bz = to_z3(b)
        pos = interp.truth(d > 0)
        lhs, rhs = (n, bz * d) if pos else (-n, bz * (-d))
        T = type(op)
        return {ast.Lt: lhs < rhs, ast.LtE: lhs <= rhs, ast.Gt: lhs > rhs, ast.GtE: lhs >= rhs}[T]

    def __sym_eq__(self, interp, other):
        if isinstance(other, QVal):
            return to_z3(self.num) * to_z3(other.den) == to_z3(other.num) * to_z3(self.den)
        return to_z3(self.num) == to_z3(other) * to_z3(self.den)


class IVec:
    """1-D integer ndarray of concrete length with symbolic elements."""

    def __init__(self, elems):
        self.e = list(elems)

    def __repr__(self):
        return f"<ivec {self.e}>"

    def __sym_len__(self, interp):
        return len(self.e)

    def __sym_iter__(self, interp):
        return list(self.e)

    def __sym_getitem__(self, interp, idx):
        if isinstance(idx, slice):
            return IVec(self.e[idx])
        if z3.is_expr(idx):
            idx = z3.simplify(idx)
            if not z3.is_int_value(idx):
                raise Unsupported("symbolic index into integer vector")
            idx = idx.as_long()
        try:
            return self.e[idx]
        except IndexError:
            raise SymRaise(ExcInst(IndexError, ()))

    def __sym_setitem__(self, interp, idx, v):
        if isinstance(idx, slice):
            vals = v.e if isinstance(v, IVec) else list(v) if isinstance(v, (tuple, list)) else None
            rng = range(*idx.indices(len(self.e)))
            if vals is None:
                vals = [v] * len(rng)
            if len(vals) != len(rng):
                raise SymRaise(ExcInst(ValueError, ("shape mismatch",)))
            for i, x in zip(rng, vals):
                self.e[i] = x
            return
        self.e[idx] = v

    def __sym_binop__(self, interp, op, a, b, inplace):
        def elems(x, n):
            if isinstance(x, IVec):
                return x.e
            if isinstance(x, (tuple, list)):
                return list(x)
            return [x] * n

        n = len(a.e) if isinstance(a, IVec) else len(b.e)
        xs, ys = elems(a, n), elems(b, n)
        if len(xs) != len(ys):
            if len(xs) == 1:
                xs = xs * len(ys)
            elif len(ys) == 1:
                ys = ys * len(xs)
            else:
                raise SymRaise(ExcInst(ValueError, ("operands could not be broadcast together",)))
        T = type(op)
        out = []
        for x, y in zip(xs, ys):
            if isinstance(x, QVal) or isinstance(y, QVal):
                q = x if isinstance(x, QVal) else y
                out.append(q.__sym_binop__(interp, op, x, y, False))
            elif T is ast.Add:
                out.append(x + y)
            elif T is ast.Sub:
                out.append(x - y)
            elif T is ast.Mult:
                out.append(x * y)
            elif T is ast.FloorDiv:
                out.append(interp._floordiv(x, y))
            elif T is ast.Div:
                if isinstance(x, QVal) or isinstance(y, QVal):
                    raise Unsupported("division of rationals")
                if interp.truth(to_z3(y) == 0):
                    raise Unsupported("division by zero in integer vector (numpy yields inf)")
                out.append(QVal(x, y))
            elif T is ast.Mod:
                out.append(interp._mod(x, y))
            else:
                raise Unsupported(f"integer-vector operator {T.__name__}")
        if inplace and isinstance(a, IVec):
            a.e = out
            return a
        return IVec(out)

    def __sym_compare__(self, interp, op, a, b):
        """elementwise comparison (NumPy semantics), result: vector of booleans"""
        n = len(a.e) if isinstance(a, IVec) else len(b.e)
        xs = a.e if isinstance(a, IVec) else (list(a) if isinstance(a, (tuple, list)) else [a] * n)
        ys = b.e if isinstance(b, IVec) else (list(b) if isinstance(b, (tuple, list)) else [b] * n)
        if len(xs) != len(ys):
            if len(xs) == 1:
                xs = xs * len(ys)
            elif len(ys) == 1:
                ys = ys * len(xs)
            else:
                raise SymRaise(ExcInst(ValueError, ("operands could not be broadcast together",)))
        out = []
        for x, y in zip(xs, ys):
            if isinstance(x, QVal) or isinstance(y, QVal):
                raise Unsupported("comparison of rationals in an integer vector")
            out.append(interp.compare(op, x, y))
        return IVec(out)

    def __sym_getattr__(self, interp, name):
        if name == "shape":
            return (len(self.e),)
        if name == "ndim":
            return 1
        if name == "size":
            return len(self.e)
        raise Unsupported(f"integer vector attribute .{name}")


def _flat(x):
    if isinstance(x, IVec):
        return list(x.e)
    if isinstance(x, (tuple, list)):
        return list(x)
    raise Unsupported(f"not an integer vector: {x!r}")


class IntNp:
    """NumPy shim for the integer-vector domain (trusted axioms about these few functions)."""

    def __init__(self, extra=None):
        self.extra = extra or {}

    def __sym_getattr__(self, interp, name):
        if name in self.extra:
            return self.extra[name]
        f = getattr(self, "np_" + name, None)
        if f is None:
            raise Unsupported(f"np.{name} has no axiom in the integer-vector domain")
        return f

    def __getattr__(self, name):
        if name.startswith("np_") or name in ("extra",):
            raise AttributeError(name)
        extra = object.__getattribute__(self, "extra")
        if name in extra:
            return extra[name]
        try:
            return object.__getattribute__(self, "np_" + name)
        except AttributeError:
            raise Unsupported(f"np.{name} has no axiom in the integer-vector domain")

    @staticmethod
    def np_array(x, *a, **k):
        return IVec(_flat(x))

    @staticmethod
    def np_asarray(x, *a, **k):
        return x if isinstance(x, IVec) else IVec(_flat(x))

    @staticmethod
    def np_ones(shape, dtype=None):
        (n,) = shape if isinstance(shape, tuple) else (shape,)
        return IVec([1] * n)

    @staticmethod
    def np_full(shape, fill_value, dtype=None):
        (n,) = shape if isinstance(shape, tuple) else (shape,)
        return IVec([fill_value] * n)

    @staticmethod
    def np_cumprod(x, *a, **k):
        out, acc = [], 1
        for v in _flat(x):
            acc = acc * v
            out.append(acc)
        return IVec(out)

    @staticmethod
    def np_any(x, *a, **k):
        import z3 as _z3

        vs = [v if (_z3.is_expr(v) and _z3.is_bool(v)) else (v != 0 if _z3.is_expr(v) else bool(v)) for v in _flat(x)]
        if not vs:
            return False
        if all(isinstance(v, bool) for v in vs):
            return any(vs)
        return _z3.Or(*[v if _z3.is_expr(v) else _z3.BoolVal(v) for v in vs])

    @staticmethod
    def np_all(x, *a, **k):
        import z3 as _z3

        vs = [v if (_z3.is_expr(v) and _z3.is_bool(v)) else (v != 0 if _z3.is_expr(v) else bool(v)) for v in _flat(x)]
        if not vs:
            return True
        if all(isinstance(v, bool) for v in vs):
            return all(vs)
        return _z3.And(*[v if _z3.is_expr(v) else _z3.BoolVal(v) for v in vs])

    @staticmethod
    def np_prod(x, *a, **k):
        acc = 1
        for v in _flat(x):
            acc = acc * v
        return acc
