"""PyVC frontend: re-reads the real MyGrad sources on every run.

Nothing here is a hand-written look-alike of repository code: functions are located by
qualified name in the AST of the file in the current working tree and handed to the
symbolic executor as they are.  What extraction drops (and only this):
  * docstrings (leading string-expression statements),
  * type annotations (``x: T = v`` is executed as ``x = v``; bare ``x: T`` is a no-op),
  * ``if TYPE_CHECKING:`` blocks,
  * comments / pragmas (not part of the AST),
  * the text of exception / assertion messages (f-strings are evaluated lazily as opaque).
"""
from __future__ import annotations

import ast
import hashlib
import os
from typing import Dict, Optional

REPO = os.environ.get("MYGRAD_REPO", "/repo")
SRC = os.path.join(REPO, "src")


class ExtractionError(Exception):
    pass


_module_cache: Dict[str, "ModuleAST"] = {}


def module_path(modname: str) -> Optional[str]:
    rel = modname.replace(".", "/")
    for cand in (os.path.join(SRC, rel + ".py"), os.path.join(SRC, rel, "__init__.py")):
        if os.path.exists(cand):
            return cand
    return None


class ModuleAST:
    def __init__(self, modname: str):
        path = module_path(modname)
        if path is None:
            raise ExtractionError(f"module {modname} not found under {SRC}")
        self.modname = modname
        self.path = path
        self.is_pkg = path.endswith("__init__.py")
        with open(path, "r", encoding="utf-8") as f:
            self.source = f.read()
        self.tree = ast.parse(self.source, filename=path)
        self.defs: Dict[str, ast.AST] = {}
        self.imports: Dict[str, tuple] = {}  # name -> ("module", modname) | ("from", modname, attr)
        self.assigns: Dict[str, ast.AST] = {}
        self.star_imports = []  # modules imported with `from m import *`
        self._index(self.tree.body)

    def _index(self, body):
        for node in body:
            if isinstance(node, (ast.FunctionDef, ast.ClassDef, ast.AsyncFunctionDef)):
                self.defs[node.name] = node
            elif isinstance(node, ast.Import):
                for a in node.names:
                    name = a.asname or a.name.split(".")[0]
                    target = a.name if a.asname else a.name.split(".")[0]
                    self.imports[name] = ("module", target)
            elif isinstance(node, ast.ImportFrom):
                base = node.module or ""
                if node.level:
                    parts = self.modname.split(".")
                    if not self.is_pkg:
                        parts = parts[:-1]
                    if node.level > 1:
                        parts = parts[: -(node.level - 1)]
                    base = ".".join(parts + ([node.module] if node.module else []))
                for a in node.names:
                    if a.name == "*":
                        self.star_imports.append(base)
                        continue
                    self.imports[a.asname or a.name] = ("from", base, a.name)
            elif isinstance(node, ast.Assign):
                for t in node.targets:
                    if isinstance(t, ast.Name):
                        self.assigns[t.id] = node.value
            elif isinstance(node, ast.AnnAssign):
                if isinstance(node.target, ast.Name) and node.value is not None:
                    self.assigns[node.target.id] = node.value
            elif isinstance(node, ast.If):
                # `if TYPE_CHECKING:` is dropped; `else` branch kept (e.g. WeakRef class)
                t = node.test
                if isinstance(t, ast.Name) and t.id == "TYPE_CHECKING":
                    self._index(node.orelse)
                else:
                    self._index(node.body)
                    self._index(node.orelse)
            elif isinstance(node, ast.Try):
                self._index(node.body)


def load_module(modname: str) -> ModuleAST:
    if modname not in _module_cache:
        _module_cache[modname] = ModuleAST(modname)
    return _module_cache[modname]


def clear_cache():
    _module_cache.clear()


def find(qualname: str) -> tuple:
    """``mygrad.operation_base:Operation.backward`` -> (ModuleAST, node, class_node|None)"""
    modname, _, path = qualname.partition(":")
    mod = load_module(modname)
    parts = path.split(".")
    node = mod.defs.get(parts[0])
    cls = None
    if node is None:
        raise ExtractionError(f"{qualname}: top-level name {parts[0]} not found in {mod.path}")
    for p in parts[1:]:
        if not isinstance(node, ast.ClassDef):
            raise ExtractionError(f"{qualname}: {p} looked up in a non-class")
        cls = node
        found = None
        for n in node.body:
            if isinstance(n, (ast.FunctionDef, ast.ClassDef)) and n.name == p:
                # for properties, the getter is the first def; setter found via find_setter
                if found is None:
                    found = n
        if found is None:
            raise ExtractionError(f"{qualname}: member {p} not found")
        node = found
    return mod, node, cls


def find_setter(qualname: str):
    modname, _, path = qualname.partition(":")
    mod = load_module(modname)
    cname, pname = path.split(".")
    cls = mod.defs[cname]
    for n in cls.body:
        if isinstance(n, ast.FunctionDef) and n.name == pname:
            for d in n.decorator_list:
                if isinstance(d, ast.Attribute) and d.attr == "setter":
                    return mod, n, cls
    raise ExtractionError(f"{qualname}: setter not found")


def source_hash(node: ast.AST) -> str:
    """Hash of the function's AST with docstrings removed (stable under comment edits)."""
    node = strip_docstrings(node)
    return hashlib.sha256(ast.dump(node, include_attributes=False).encode()).hexdigest()[:16]


def strip_docstrings(node: ast.AST) -> ast.AST:
    import copy

    node = copy.deepcopy(node)
    for n in ast.walk(node):
        if isinstance(n, (ast.FunctionDef, ast.ClassDef, ast.Module, ast.AsyncFunctionDef)):
            if (
                n.body
                and isinstance(n.body[0], ast.Expr)
                and isinstance(n.body[0].value, ast.Constant)
                and isinstance(n.body[0].value.value, str)
            ):
                n.body = n.body[1:] or [ast.Pass()]
    return node


def func_source(node: ast.AST, mod: ModuleAST) -> str:
    return ast.get_source_segment(mod.source, node) or ""


def iter_package_modules(pkg: str = "mygrad"):
    root = os.path.join(SRC, pkg.replace(".", "/"))
    for d, _dirs, files in os.walk(root):
        for f in sorted(files):
            if f.endswith(".py"):
                rel = os.path.relpath(os.path.join(d, f), SRC)[:-3].replace("/", ".")
                if rel.endswith(".__init__"):
                    rel = rel[: -len(".__init__")]
                yield rel
