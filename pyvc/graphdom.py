"""Heap domain for the graph mechanics: Tensors / ndarrays / Operations as symbolic references
(z3 Ints, 0 = None) with Boogie-style field maps (one z3 array per (class, field)).

ndarray ghost fields (DESIGN §3.1): shape (id), dtype (id), base (ref|0), layout (id), val (Real,
pointwise value abstraction), writeable.  Allocation returns a reference strictly above the
heap-top counter, hence distinct from every reference that existed before ("fresh").
NumPy calls are axioms (trusted): asarray / copy / astype / multiply / in-place add / full_like /
ones-like seeds / sum via the reduce_broadcast contract.
"""
from __future__ import annotations

import ast

import z3

from .builtins_model import TypeToken, wants_interp
from .interp import (
    _MISSING,
    BoundMethod,
    ClassValue,
    ExcInst,
    FuncValue,
    Opaque,
    PropertyValue,
    SRef,
    StaticMethod,
    SymRaise,
    Unsupported,
    to_z3,
)

I = z3.IntSort()
B = z3.BoolSort()
R = z3.RealSort()

ND_FIELDS = dict(shape=I, dtype=I, base=I, layout=I, val=R, writeable=B)

# uninterpreted helpers shared by contracts
NDIM = z3.Function("NDIM", I, I)  # number of dimensions of a shape id
SIZE = z3.Function("SIZE", I, I)  # number of elements of a shape id (>= 0)
FLAG = z3.Function("FLAG", z3.StringSort(), I, I, z3.BoolSort())
CANCAST = z3.Function("CANCAST", I, I, z3.BoolSort())
STRIDES_EQ = z3.Function("STRIDES_EQ", I, I, I, I, z3.BoolSort())
BSHAPE = z3.Function("BSHAPE", I, I, I)  # broadcast of two shape ids
RFUN = z3.Function("RFUN", R, I, I, R)  # value of reduce_broadcast(grad(val, shape), var_shape)
CLAYOUT = z3.Function("CLAYOUT", I, I)  # the C-contiguous layout id of a shape
KLAYOUT = z3.Function("KLAYOUT", I, I)
COMPACT = z3.Function("COMPACT", I, B)  # layout of an array that fills its memory block without gaps/overlap
SHAPE0 = z3.Int("SHAPE0")  # the (unique) 0-d shape `()`; NDIM(SHAPE0) = 0 is assumed by Heap()  # layout produced by a K-order copy of an array with this layout


class Heap:
    """Declares classes/fields on a Ctx and provides allocation."""

    def __init__(self, ctx, tensor_fields=None, op_fields=None):
        self.ctx = ctx
        for f, s in ND_FIELDS.items():
            ctx.field("ndarray", f, s)
        self.tensor_fields = dict(_constant=B, _grad=I, data=I, _ops_nonempty=B, _creator=I, _base=I, _view_grad=I)
        if tensor_fields:
            self.tensor_fields.update(tensor_fields)
        for f, s in self.tensor_fields.items():
            ctx.field("Tensor", f, s)
        self.top = z3.Int("heap_top")
        ctx.ghost["top"] = self.top
        ctx.assume(self.top >= 0)
        ctx.assume(NDIM(SHAPE0) == 0)

    @property
    def cur_top(self):
        return self.ctx.ghost["top"]

    def alloc(self, cls):
        r = self.ctx.fresh(f"new_{cls}", "int")
        self.ctx.assume(r == self.cur_top + 1)
        self.ctx.ghost["top"] = r
        return SRef(cls, r)

    def get(self, cls, fld, ref):
        return z3.Select(self.ctx.heap[(cls, fld)], ref)

    def set(self, cls, fld, ref, v):
        k = (cls, fld)
        self.ctx.heap[k] = z3.Store(self.ctx.heap[k], ref, v)

    def new_array(self, shape=None, dtype=None, base=0, layout=None, val=None, writeable=True):
        a = self.alloc("ndarray")
        for f, v in (("shape", shape), ("dtype", dtype), ("layout", layout), ("val", val)):
            if v is not None:
                self.set("ndarray", f, a.ref, v)
        self.set("ndarray", "base", a.ref, to_z3(base) if not isinstance(base, SRef) else base.ref)
        self.set("ndarray", "writeable", a.ref, to_z3(writeable))
        return a


class NdModel:
    """Attribute / operator model of ndarray references (axioms)."""

    def __init__(self, heap: Heap):
        self.h = heap

    def getattr(self, interp, o: SRef, name):
        h = self.h
        if name in ("shape", "dtype", "layout", "val"):
            return h.get("ndarray", name, o.ref)
        if name == "base":
            return SRef("ndarray", h.get("ndarray", "base", o.ref))
        if name == "ndim":
            return NDIM(h.get("ndarray", "shape", o.ref))
        if name == "size":
            sz = SIZE(h.get("ndarray", "shape", o.ref))
            interp.ctx.assume(sz >= 0)
            return sz
        if name == "strides":
            # strides are a function of (shape, layout); equal shapes => strides equal iff layouts equal
            return _Strides(h.get("ndarray", "shape", o.ref), h.get("ndarray", "layout", o.ref))
        if name == "flags":
            return _Flags(h.get("ndarray", "shape", o.ref), h.get("ndarray", "layout", o.ref), h.get("ndarray", "writeable", o.ref))
        if name == "astype":
            return lambda dtype, copy=True, **k: self.astype(interp, o, dtype, copy)
        if name == "copy":
            return lambda *a, **k: self.copy(interp, o, k.get("order", "C"))
        if name == "data":
            raise SymRaise(ExcInst(AttributeError, (name,)))
        raise Unsupported(f"ndarray attribute .{name} in the graph domain")

    def setattr(self, interp, o, name, v):
        raise Unsupported(f"ndarray attribute assignment .{name}")

    def setitem(self, interp, o, idx, v):
        h = self.h
        if idx is not Ellipsis:
            raise Unsupported("array item assignment other than a[...] = v")
        if isinstance(v, SRef) and v.cls == "ndarray":
            nv = h.get("ndarray", "val", v.ref)
            # NumPy: the value must have the target's shape or broadcast to it, otherwise ValueError
            so, sv = h.get("ndarray", "shape", o.ref), h.get("ndarray", "shape", v.ref)
            fits = z3.Or(so == sv, BSHAPE(sv, so) == so)
            if not interp.truth(fits):
                raise SymRaise(ExcInst(ValueError, ("could not broadcast input array into shape",)))
        else:
            nv = to_z3(v)
            if z3.is_int(nv):
                nv = z3.ToReal(nv)
        interp.ctx.ghost.setdefault("array_writes", []).append(o.ref)
        h.set("ndarray", "val", o.ref, nv)

    def astype(self, interp, o, dtype, copy):
        h = self.h
        same = h.get("ndarray", "dtype", o.ref) == to_z3(dtype)
        if not copy and interp.truth(same):
            return o
        # numpy: astype(order='K') keeps the layout
        lay = h.get("ndarray", "layout", o.ref)
        return h.new_array(shape=h.get("ndarray", "shape", o.ref), dtype=to_z3(dtype), base=0,
                           layout=z3.If(COMPACT(lay), lay, KLAYOUT(lay)), val=h.get("ndarray", "val", o.ref))

    def copy(self, interp, o, order="K"):
        h = self.h
        lay = h.get("ndarray", "layout", o.ref)
        shp = h.get("ndarray", "shape", o.ref)
        # order='K' reproduces the layout of a compact array exactly (axiom); order='C' gives the C layout of the shape
        newlay = CLAYOUT(shp) if order == "C" else z3.If(COMPACT(lay), lay, KLAYOUT(lay))
        return h.new_array(shape=shp, dtype=h.get("ndarray", "dtype", o.ref), base=0, layout=newlay, val=h.get("ndarray", "val", o.ref))

    def binop(self, interp, op, a, b, inplace):
        h = self.h
        T = type(op)

        def parts(x):
            if isinstance(x, SRef) and x.cls == "ndarray":
                return h.get("ndarray", "val", x.ref), h.get("ndarray", "shape", x.ref)
            z = to_z3(x)
            if z is None:
                raise Unsupported(f"array arithmetic with {x!r}")
            if z3.is_bool(z):
                z = z3.If(z, z3.RealVal(1), z3.RealVal(0))
            if z3.is_int(z):
                z = z3.ToReal(z)
            return z, None

        (av, ash), (bv, bsh) = parts(a), parts(b)
        if T is ast.Add:
            r = av + bv
        elif T is ast.Sub:
            r = av - bv
        elif T is ast.Mult:
            r = av * bv
        elif T is ast.Div:
            r = av / bv
        else:
            raise Unsupported(f"ndarray operator {T.__name__}")
        if inplace:
            if not (isinstance(a, SRef) and a.cls == "ndarray"):
                raise Unsupported("in-place operator on non-array")
            # numpy in-place: writes a's memory; requires b to broadcast to a's shape (else ValueError)
            interp.ctx.ghost.setdefault("array_writes", []).append(a.ref)
            h.set("ndarray", "val", a.ref, r)
            return a
        shp = ash if bsh is None else (bsh if ash is None else z3.If(ash == bsh, ash, BSHAPE(ash, bsh)))
        dt = h.get("ndarray", "dtype", a.ref if isinstance(a, SRef) else b.ref)
        return h.new_array(shape=shp, dtype=interp.ctx.fresh("res_dtype", "int"), base=0, layout=CLAYOUT(shp), val=r)

    def eq(self, interp, a, b):
        raise Unsupported("== on arrays in the graph domain")

    def truth(self, interp, o):
        raise Unsupported("truth value of an array")


class _Flags:
    """ndarray.flags: contiguity flags are (uninterpreted) functions of (shape, layout) -- equal layouts of equal shapes have equal flags,
    equal flags say nothing about the layouts"""

    def __init__(self, shape, layout, writeable):
        self.shape, self.layout, self.w = shape, layout, writeable

    def __sym_getattr__(self, interp, name):
        if name == "writeable":
            return self.w
        if name in ("c_contiguous", "f_contiguous", "fnc", "forc", "contiguous", "aligned", "owndata", "carray", "farray"):
            return FLAG(z3.StringVal(name), self.shape, self.layout)
        raise Unsupported(f"ndarray.flags.{name}")

    def __sym_getitem__(self, interp, key):
        k = {"C_CONTIGUOUS": "c_contiguous", "C": "c_contiguous", "F_CONTIGUOUS": "f_contiguous", "F": "f_contiguous", "WRITEABLE": "writeable", "FNC": "fnc", "FORC": "forc"}.get(key)
        if k is None:
            raise Unsupported(f"ndarray.flags[{key!r}]")
        return self.__sym_getattr__(interp, k)


class _Strides:
    def __init__(self, shape, layout):
        self.shape, self.layout = shape, layout

    def __sym_eq__(self, interp, other):
        if not isinstance(other, _Strides):
            return False
        # equal shapes: strides are equal iff the layouts are; different shapes may still have equal stride tuples
        # (e.g. C-ordered (1,3) and (2,3)): unknown, an uninterpreted predicate
        return z3.If(self.shape == other.shape, self.layout == other.layout, STRIDES_EQ(self.shape, self.layout, other.shape, other.layout))


class TensorModel:
    """Tensor references: properties and methods come from the *real* class AST; plain attributes
    are heap fields."""

    def __init__(self, heap: Heap, tensor_cls: ClassValue, ref_fields=None):
        self.h = heap
        self.cls = tensor_cls
        self.ref_fields = {"_grad": "ndarray", "data": "ndarray", "_base": "Tensor", "_view_grad": "ndarray", "_creator": "Operation"}
        if ref_fields:
            self.ref_fields.update(ref_fields)

    def getattr(self, interp, o: SRef, name):
        v, _owner = self.cls.lookup(interp, name)
        if isinstance(v, PropertyValue):
            return interp.call(v.fget, [o], {})
        if isinstance(v, FuncValue):
            return BoundMethod(o, v)
        if isinstance(v, StaticMethod):
            return v.func
        if (("Tensor", name)) in interp.ctx.heap:
            raw = self.h.get("Tensor", name, o.ref)
            if name in self.ref_fields:
                return SRef(self.ref_fields[name], raw)
            return raw
        if name == "_ops":
            return _OpsView(self.h, o)
        if name == "_view_children":
            # only its truthiness is modelled: an unconstrained boolean per tensor (declared on demand)
            if ("Tensor", "_view_children_nonempty") not in interp.ctx.heap:
                interp.ctx.field("Tensor", "_view_children_nonempty", B)
            return _OpsView(self.h, o, "_view_children_nonempty")
        raise Unsupported(f"Tensor attribute .{name} has no heap field")

    def setattr(self, interp, o: SRef, name, v):
        cv, _ = self.cls.lookup(interp, name)
        if isinstance(cv, PropertyValue):
            if cv.fset is None:
                raise SymRaise(ExcInst(AttributeError, (name,)))
            return interp.call(cv.fset, [o, v], {})
        if ("Tensor", name) not in interp.ctx.heap:
            raise Unsupported(f"Tensor attribute .{name} has no heap field")
        if v is None:
            z = z3.IntVal(0)
        elif isinstance(v, SRef):
            z = v.ref
        else:
            z = to_z3(v)
        interp.ctx.ghost.setdefault("tensor_writes", []).append((name, o.ref))
        self.h.set("Tensor", name, o.ref, z)


class _OpsView:
    """`t._ops` reduced to what backward needs: its truthiness."""

    def __init__(self, heap, t, fld="_ops_nonempty"):
        self.h, self.t, self.fld = heap, t, fld

    def __sym_truth__(self, interp):
        return self.h.get("Tensor", self.fld, self.t.ref)


def graph_np(heap: Heap):
    """NumPy shim for the graph domain."""
    h = heap

    class NP:
        ndarray = TypeToken("ndarray", lambda interp, v: isinstance(v, SRef) and v.cls == "ndarray")
        number = TypeToken("np.number", lambda interp, v: False)  # numpy scalars are folded into `Real` below

        @staticmethod
        def asarray(x, dtype=None, **k):
            if isinstance(x, SRef) and x.cls == "ndarray":
                if dtype is None:
                    return x
                raise Unsupported("np.asarray(array, dtype)")
            z = to_z3(x)
            if z is None:
                raise Unsupported(f"np.asarray({x!r})")
            if z3.is_int(z):
                z = z3.ToReal(z)
            s0 = SHAPE0
            return h.new_array(shape=s0, dtype=h.ctx.fresh("dt_scalar", "int"), base=0, layout=CLAYOUT(s0), val=z)

        @staticmethod
        def copy(x, order="K", **k):
            return NdModel(h).copy(None, x, order)

        @staticmethod
        def can_cast(from_, to, casting="safe"):
            # NumPy's casting table is not modelled: an uninterpreted relation on dtype ids, reflexive (a dtype casts to itself)
            a, b_ = to_z3(from_), to_z3(to)
            return z3.Or(a == b_, CANCAST(a, b_))

        @staticmethod
        def where(c, a, b_=None, **k):
            # the one form the graph mechanics use: where(mask, g, 0) -- g where the (boolean) mask holds, 0 elsewhere: a fresh array of the
            # broadcast shape whose pointwise value is `g if mask else 0`
            if not (isinstance(c, SRef) and c.cls == "ndarray" and isinstance(a, SRef) and a.cls == "ndarray"):
                raise Unsupported("np.where outside the form where(mask_array, array, 0)")
            zb = to_z3(b_)
            if zb is None or not (z3.is_int_value(z3.simplify(zb)) or z3.is_rational_value(z3.simplify(zb))) or str(z3.simplify(zb)) not in ("0", "0.0"):
                raise Unsupported("np.where with an alternative other than the numeral 0")
            cv, csh = h.get("ndarray", "val", c.ref), h.get("ndarray", "shape", c.ref)
            av, ash = h.get("ndarray", "val", a.ref), h.get("ndarray", "shape", a.ref)
            shp = z3.If(ash == csh, ash, BSHAPE(ash, csh))
            return h.new_array(shape=shp, dtype=h.ctx.fresh("res_dtype", "int"), base=0, layout=CLAYOUT(shp), val=z3.If(cv != 0, av, z3.RealVal(0)))

        @staticmethod
        def may_share_memory(a, b_, *x, **k):
            # whether two arrays overlap: certainly when they are the same object, otherwise only possible when they have the same owner; beyond
            # that unknown (an arbitrary boolean) -- enough to see that a decision taken on it leaves the other case open
            if isinstance(a, SRef) and isinstance(b_, SRef) and a.cls == b_.cls == "ndarray":
                ba, bb = h.get("ndarray", "base", a.ref), h.get("ndarray", "base", b_.ref)
                ra, rb = z3.If(ba == 0, a.ref, ba), z3.If(bb == 0, b_.ref, bb)
                r = h.ctx.fresh("may_share_memory", "bool")
                h.ctx.assume(z3.Implies(a.ref == b_.ref, r))
                h.ctx.assume(z3.Implies(ra != rb, z3.Not(r)))
                return r
            raise Unsupported("np.may_share_memory on non-array operands")

        shares_memory = may_share_memory

        @staticmethod
        def empty_like(x, dtype=None, order="K", **k):
            # numpy: same shape/dtype; order='K' matches the layout of `x` as closely as possible, i.e.
            # exactly when x is compact (axiom); contents unspecified
            lay = h.get("ndarray", "layout", x.ref)
            shp = h.get("ndarray", "shape", x.ref)
            newlay = z3.If(COMPACT(lay), lay, KLAYOUT(lay)) if order == "K" else CLAYOUT(shp)
            return h.new_array(shape=shp, dtype=h.get("ndarray", "dtype", x.ref) if dtype is None else to_z3(dtype), base=0, layout=newlay, val=h.ctx.fresh("uninit", "real"))

    return NP
