"""C02.elem — contracts for the elementwise operations.

For every op listed in OPS the executor runs the op's own `__init__`, `__call__` (forward) and
`backward_var` from /repo in the pointwise-real domain and generates, per path:

  ensures  backward_var(g, i)  ==  g * d forward / d x_i        (spec from derivative_table.py)
  frame    `grad`, the operands' data and nothing but fresh arrays / op state are written (C12)

under the hypotheses: differentiability conditions of the forward term, the ground identity
instances of the abstracted transcendental terms, and the per-op domain below (taken from the
property statement and the function's mathematical domain, never from the backward code).
"""
from __future__ import annotations

import z3

from pyvc import frontend
from pyvc.builtins_model import default_builtins, wants_interp
from pyvc.interp import (
    ClassValue,
    Config,
    Ctx,
    Interp,
    PathCut,
    SObj,
    SymRaise,
    Unsupported,
    explore,
)
from pyvc.realdom import PArr, PTensor, RealDomain, Terms, diff, to_real

from .derivative_table import TABLE

A = "mygrad.math.arithmetic.ops"
E = "mygrad.math.exp_log.ops"
TR = "mygrad.math.trigonometric.ops"
H = "mygrad.math.hyperbolic_trig.ops"
M = "mygrad.math.misc.ops"
NA = "mygrad.nnet.activations"
NL = "mygrad.nnet.losses"


def _abs(u):
    return z3.If(u >= 0, u, -u)


# (module, class, n_inputs, kwargs for __call__, extra-domain(x list, terms) -> list of z3)
OPS = [
    (A, "Add", 2, {}, None),
    (A, "Subtract", 2, {}, None),
    (A, "Multiply", 2, {}, None),
    (A, "Divide", 2, {}, None),
    (A, "Power", 2, {}, None),
    (A, "Reciprocal", 1, {}, None),
    (A, "Square", 1, {}, None),
    (A, "Positive", 1, {}, None),
    (A, "Negative", 1, {}, None),
    (A, "AddSequence", 3, {}, None),
    (A, "MultiplySequence", 3, {}, None),
    (E, "Exp", 1, {}, None),
    (E, "Exp2", 1, {}, None),
    (E, "Expm1", 1, {}, None),
    (E, "Log", 1, {}, None),
    (E, "Log2", 1, {}, None),
    (E, "Log10", 1, {}, None),
    (E, "Log1p", 1, {}, None),
    (E, "Logaddexp", 2, {}, None),
    (E, "Logaddexp2", 2, {}, None),
    (TR, "Sin", 1, {}, None),
    (TR, "Cos", 1, {}, None),
    (TR, "Tan", 1, {}, None),
    (TR, "Csc", 1, {}, None),
    (TR, "Sec", 1, {}, None),
    (TR, "Cot", 1, {}, None),
    (TR, "Arcsin", 1, {}, None),
    (TR, "Arccos", 1, {}, None),
    (TR, "Arctan", 1, {}, None),
    (TR, "Arccsc", 1, {}, None),
    (TR, "Arcsec", 1, {}, None),
    (TR, "Arccot", 1, {}, lambda x, T: [x[0] != 0]),  # arccot is discontinuous at 0
    (TR, "Arctan2", 2, {}, None),
    # sinc: the band 0 < |x| <= 1e-162 where the code substitutes 0 for the (tiny) derivative is
    # excluded and reported in the evidence (DESIGN §6 C02)
    (TR, "Sinc", 1, {}, lambda x, T: [z3.Or(x[0] == 0, _abs(x[0]) > z3.RealVal("1e-162"))]),
    (H, "Sinh", 1, {}, None),
    (H, "Cosh", 1, {}, None),
    (H, "Tanh", 1, {}, None),
    (H, "Csch", 1, {}, None),
    (H, "Sech", 1, {}, None),
    (H, "Coth", 1, {}, None),
    (H, "Arcsinh", 1, {}, None),
    (H, "Arccosh", 1, {}, None),
    (H, "Arctanh", 1, {}, None),
    (H, "Arccsch", 1, {}, None),
    (H, "Arccoth", 1, {}, None),
    (M, "Abs", 1, {}, None),  # nan_to_num=True (default): 0 at 0
    (M, "Abs", 1, {"nan_to_num": False}, lambda x, T: [x[0] != 0]),
    (M, "Sqrt", 1, {}, None),
    (M, "Cbrt", 1, {}, None),
    (M, "Maximum", 2, {}, None),
    (M, "Minimum", 2, {}, None),
    # nnet activations that are Operations of their own (kinks at 0 are outside the differentiable domain)
    (NA + ".sigmoid", "Sigmoid", 1, {}, None),
    (NA + ".relu", "ReLu", 1, {}, lambda x, T: [x[0] != 0]),
    (NA + ".elu", "ELU", 1, {"alpha": z3.Real("alpha")}, lambda x, T: [x[0] != 0]),
    (NA + ".selu", "SELU", 1, {}, lambda x, T: [x[0] != 0]),
    # where(condition, a, b): a pointwise selection -- the condition is an arbitrary boolean per element
    ("mygrad.indexing_routines.ops", "Where", 2, {"condition": z3.Bool("cond")}, None),
]


def make_config(dom_holder):
    cfg = Config()
    cfg.builtins = default_builtins()

    class _NpProxy:
        def __sym_getattr__(self, interp, name):
            return dom_holder["dom"].np.__sym_getattr__(interp, name)

        def __getattr__(self, name):
            return getattr(dom_holder["dom"].np, name)

    cfg.module_overrides["numpy"] = _NpProxy()
    cfg.global_overrides[("mygrad._numpy_version", "NP_IS_V2")] = True

    @wants_interp
    def b_reduce(interp, f, it, *init):
        xs = interp.iterate_concrete(it)
        if init:
            acc = init[0]
        else:
            acc, xs = xs[0], xs[1:]
        for x in xs:
            acc = interp.call(f, [acc, x], {})
        return acc

    cfg.builtins["functools.reduce"] = b_reduce

    # Operation.backward is not part of the per-op VJP contract (it is C01.step); when an op's own
    # `backward` override calls it (MultiplySequence) the call is cut here.
    cfg.summaries["mygrad.operation_base:Operation.backward"] = lambda interp, a, k: None
    return cfg


# corner points of the domain where the derivative exists although the generic formula's side conditions exclude them: an operand is
# fixed to a numeral and the other ranges over ALL reals (x**1 is x, x**2 is x*x, x**3 ...: differentiable at 0 too)
CORNERS = [
    (A, "Power", 2, {}, None, {1: 1}, "exponent=1"),
    (A, "Power", 2, {}, None, {1: 2}, "exponent=2"),
    (A, "Power", 2, {}, None, {1: 3}, "exponent=3"),
]


def _path_harness(mod, cls, n, kw, extra, order, opname, collected, fixed=None):
    """Returns harness(ctx): run forward then backward_var for each index in `order`; the last
    call is the one checked."""

    def harness(ctx: Ctx):
        holder = {}
        cfg = make_config(holder)
        dom = RealDomain(ctx)
        holder["dom"] = dom
        interp = Interp(ctx, cfg)
        xs = [z3.RealVal((fixed or {})[i]) if i in (fixed or {}) else z3.Real(f"x{i}") for i in range(n)]
        g = z3.Real("g")
        tensors = [PTensor(dom.arr(xs[i], f"input:{i}"), f"t{i}") for i in range(n)]
        m = interp.module(mod)
        C = interp.global_lookup(m, cls)
        op = interp.instantiate(C, [], {})
        fwd = interp.call(interp.getattr(op, "__call__"), tensors, dict(kw))
        fval = to_real(fwd.val if isinstance(fwd, PArr) else fwd)
        n_writes_fwd = [t.data.writes for t in tensors]
        garr = dom.arr(g, "grad")
        # ops that override `backward` (MultiplySequence): run its prelude
        bw, owner = C.lookup(interp, "backward")
        if owner is not None and owner.name != "Operation":
            interp.call(bw, [op, garr], {})
        res = None
        for idx in order:
            res = interp.call(interp.getattr(op, "backward_var"), [garr, idx], {})
        idx = order[-1]
        rv = to_real(res.val if isinstance(res, PArr) else res)
        conds = []
        D = diff(dom.terms, fval, xs[idx], TABLE, conds)
        hyps = list(dom.terms.axioms) + conds
        if extra:
            hyps += extra(xs, dom.terms)
        # ground identity instances may have been added while differentiating
        hyps = list(dom.terms.axioms) + conds + (extra(xs, dom.terms) if extra else [])
        for h in hyps:
            ctx.assume(h)
        tag = f"{opname}.{idx}" + ("" if len(order) == 1 else ".after" + "".join(map(str, order[:-1])))
        ctx.oblige(
            f"C02.elem.{tag}.vjp",
            rv == g * D,
            kind="vjp",
            op=f"{mod}:{cls}",
            index=idx,
            fixed={str(i): v for i, v in (fixed or {}).items()},
            kwargs={k: repr(v) for k, v in kw.items()},
            order=list(order),
            forward=str(z3.simplify(fval))[:300],
            backward=str(z3.simplify(rv))[:300],
            spec=str(z3.simplify(g * D))[:300],
        )
        # frame (C12): neither the incoming gradient nor any operand's data is written
        ctx.oblige(
            f"C12.frame.{tag}.grad_unwritten",
            garr.writes == 0,
            kind="frame",
            op=f"{mod}:{cls}",
            writes=[w for w in dom.writes],
        )
        ctx.oblige(
            f"C12.frame.{tag}.operands_unwritten",
            all(t.data.writes == 0 for t in tensors),
            kind="frame",
            op=f"{mod}:{cls}",
        )
        # alias class of the result (C02.alias): fresh / grad itself / op state
        if isinstance(res, PArr):
            owner_arr = res.owner()
            cls_ = (
                "grad" if owner_arr is garr else ("input" if owner_arr.origin.startswith("input") else "fresh-or-state")
            )
        else:
            cls_ = "scalar"
        ctx.oblige(
            f"C02.alias.{tag}",
            cls_ != "input",
            kind="alias",
            alias_class=cls_,
            op=f"{mod}:{cls}",
        )
        collected.setdefault("models", set()).update(interp.models_used)
        collected.setdefault("inlined", set()).update(interp.inlined)

    return harness


def obligations(tier="quick"):
    """Returns (obligations, info)"""
    out = []
    info = {"functions": {}, "unsupported": [], "paths": 0, "models": set(), "inlined": set()}
    for (mod, cls, n, kw, extra) in OPS:
        opname = cls + ("" if not kw else "[" + ",".join(f"{k}={v}" for k, v in kw.items()) + "]")
        try:
            for member in ("__call__", "backward_var", "__init__", "backward"):
                try:
                    mm, node, _c = frontend.find(f"{mod}:{cls}.{member}")
                    info["functions"][f"{mod}:{cls}.{member}"] = frontend.source_hash(node)
                except frontend.ExtractionError:
                    pass
        except Exception as e:  # pragma: no cover
            info["unsupported"].append(f"{opname}: {e}")
        orders = [(i,) for i in range(n)]
        if n == 2:
            orders += [(0, 1), (1, 0)]
        for order in orders:
            collected = info
            results = explore(_path_harness(mod, cls, n, kw, extra, order, opname, collected))
            npaths = 0
            for r in results:
                if r.outcome == "unsupported":
                    info["unsupported"].append(f"{opname}{list(order)}: {r.value}")
                    continue
                npaths += 1
                for o in r.ctx.obligations:
                    o.name = f"{o.name}.p{npaths}"
                    out.append(o)
            info["paths"] += npaths
            if npaths == 0:
                info["unsupported"].append(f"{opname}{list(order)}: no completed path")
    for (mod, cls, n, kw, extra, fixed, label) in CORNERS:
        opname = f"{cls}[{label}]"
        for idx in [i for i in range(n) if i not in fixed]:
            results = explore(_path_harness(mod, cls, n, kw, extra, (idx,), opname, info, fixed=fixed))
            npaths = 0
            for r in results:
                if r.outcome == "unsupported":
                    info["unsupported"].append(f"{opname}[{idx}]: {r.value}")
                    continue
                npaths += 1
                for o in r.ctx.obligations:
                    o.name = f"{o.name}.p{npaths}"
                    out.append(o)
            info["paths"] += npaths
            if npaths == 0:
                info["unsupported"].append(f"{opname}[{idx}]: no completed path")
    return out, info
