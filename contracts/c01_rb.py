"""C01.rb — contracts of reduce_broadcast(grad, var_shape) and Operation.grad_post_process_fn.

 requires  Broadcasts(var_shape -> grad.shape):  len(var_shape) <= grad.ndim  and, aligning trailing axes
           (k = grad.ndim - len(var_shape)),  var_shape[n] == grad.shape[k+n]  or  var_shape[n] == 1
 ensures   result.shape == var_shape
           the set of summed axes is exactly  {0..k-1}  U  { k+n | var_shape[n] == 1 and grad.shape[k+n] != 1 }
           (stated independently of the code's `i != var_shape[n]` test)
           result is `grad` itself  <=>  grad.shape == var_shape
 raises    ValueError  <=>  grad.ndim < len(var_shape)       (no precondition needed for this clause)
 grad_post_process_fn: same, and the result is an ndarray also when it is 0-d (np.asarray applied).

Ranks are enumerated (grad.ndim <= R_MAX); all sizes are unbounded symbolic integers >= 0.
NumPy axiom used: a.sum(axis=A, keepdims=K) has shape = a.shape with the axes in A removed (K false) or
set to 1 (K true), and its value is the sum over exactly the axes in A.
"""
from __future__ import annotations

import z3

from pyvc import frontend
from pyvc.builtins_model import default_builtins
from pyvc.interp import Config, Ctx, Interp, SymRaise, Unsupported, explore

UT = "mygrad._utils"
OB = "mygrad.operation_base"
R_MAX = {"quick": 3, "thorough": 4}


class GArr:
    """ndarray stand-in: shape (tuple of symbolic ints) + the set of original axes summed so far."""

    def __init__(self, shape, origin_axes=None, summed=(), src=None, is_ndarray=True):
        self.shape = tuple(shape)
        self.ndim = len(self.shape)
        # origin_axes[i] = index of the original grad axis that result axis i corresponds to
        self.origin_axes = list(range(self.ndim)) if origin_axes is None else list(origin_axes)
        self.summed = tuple(summed)
        self.src = src
        self.is_ndarray = is_ndarray

    def sum(self, axis=None, keepdims=False):
        if axis is None:
            axes = tuple(range(self.ndim))
        elif isinstance(axis, int):
            axes = (axis,)
        else:
            axes = tuple(axis)
        norm = []
        for a in axes:
            if not isinstance(a, int):
                raise Unsupported("symbolic axis")
            if not (-self.ndim <= a < self.ndim):
                raise SymRaise_axis()
            norm.append(a % self.ndim if self.ndim else 0)
        if len(set(norm)) != len(norm):
            raise SymRaise_axis()
        summed = self.summed + tuple(self.origin_axes[a] for a in norm)
        if keepdims:
            shape = [1 if i in norm else s for i, s in enumerate(self.shape)]
            oa = list(self.origin_axes)
        else:
            shape = [s for i, s in enumerate(self.shape) if i not in norm]
            oa = [o for i, o in enumerate(self.origin_axes) if i not in norm]
        # NumPy: summing an ndarray to 0-d returns a NumPy scalar, not an ndarray
        return GArr(shape, oa, summed, src=self.src or self, is_ndarray=(len(shape) > 0))


def SymRaise_axis():
    from pyvc.interp import ExcInst, SymRaise

    return SymRaise(ExcInst(ValueError, ("axis",)))


def harness(fn, rg, rv):
    def h(ctx: Ctx):
        cfg = Config()
        cfg.builtins = default_builtins()
        cfg.global_overrides[("mygrad._numpy_version", "NP_IS_V2")] = True

        class NP:
            @staticmethod
            def asarray(x, *a, **k):
                if isinstance(x, GArr):
                    return x if x.is_ndarray else GArr(x.shape, x.origin_axes, x.summed, src=x.src, is_ndarray=True)
                raise Unsupported("asarray of non-array")

            @staticmethod
            def array(x, copy=None, **k):
                return NP.asarray(x)

        cfg.module_overrides["numpy"] = NP
        interp = Interp(ctx, cfg)
        gs = [z3.Int(f"g{i}") for i in range(rg)]
        vs = [z3.Int(f"v{i}") for i in range(rv)]
        for x in gs + vs:
            ctx.assume(x >= 0)
        grad = GArr(gs)
        var_shape = tuple(vs)
        k = rg - rv
        tag = f"C01.rb.{fn}[grad.ndim={rg},len(var_shape)={rv}]"
        meta = dict(function=f"{UT}:reduce_broadcast" if fn == "reduce_broadcast" else f"{OB}:Operation.grad_post_process_fn", ranks=[rg, rv])
        if fn == "reduce_broadcast":
            f = interp.global_lookup(interp.module(UT), "reduce_broadcast")
        else:
            Op = interp.global_lookup(interp.module(OB), "Operation")
            f = interp.getattr(Op, "grad_post_process_fn")
        try:
            r = interp.call(f, [grad, var_shape], {})
        except SymRaise as e:
            ctx.oblige(f"{tag}.raises_iff_too_few_dims", z3.BoolVal(rg < rv) if e.exc.cls is ValueError else z3.BoolVal(False), raised=e.exc.cls_name(), **meta)
            return
        ctx.oblige(f"{tag}.returns_only_if_enough_dims", rg >= rv, **meta)
        if rg < rv:
            return
        # precondition (assumed only now, so that the raise clause above is unconditional)
        bc = z3.And(*[z3.Or(vs[n] == gs[k + n], vs[n] == 1) for n in range(rv)]) if rv else z3.BoolVal(True)
        ctx.assume(bc)
        same = z3.And(*[vs[n] == gs[n] for n in range(rv)]) if rg == rv else z3.BoolVal(False)
        ctx.oblige(f"{tag}.identity_iff_equal_shapes", z3.BoolVal(r is grad) == same, **meta)
        ok_rank = isinstance(r, GArr) and len(r.shape) == rv
        ctx.oblige(f"{tag}.result_rank", ok_rank, **meta)
        if not ok_rank:
            return
        for n in range(rv):
            ctx.oblige(f"{tag}.result_shape[{n}]", r.shape[n] == vs[n], **meta)
        # summed-axes set == spec set
        summed = set(r.summed)
        ctx.oblige(f"{tag}.no_axis_summed_twice", len(summed) == len(r.summed), **meta)
        for ax in range(rg):
            spec_in = z3.BoolVal(True) if ax < k else z3.And(vs[ax - k] == 1, gs[ax] != 1)
            ctx.oblige(f"{tag}.axis[{ax}]_summed_iff_broadcast", z3.BoolVal(ax in summed) == spec_in, **meta)
        if fn != "reduce_broadcast":
            ctx.oblige(f"{tag}.result_is_ndarray", r.is_ndarray, **meta)

    return h


def obligations(tier="quick"):
    out = []
    info = {"functions": {}, "unsupported": [], "paths": 0}
    for q in (f"{UT}:reduce_broadcast", f"{OB}:Operation.grad_post_process_fn"):
        try:
            _m, node, _c = frontend.find(q)
            info["functions"][q] = frontend.source_hash(node)
        except frontend.ExtractionError as e:
            info["unsupported"].append(str(e))
    rmax = R_MAX.get(tier, 3)
    for fn in ("reduce_broadcast", "grad_post_process_fn"):
        for rg in range(0, rmax + 1):
            for rv in range(0, rg + 2):
                results = explore(harness(fn, rg, rv))
                k = 0
                for r in results:
                    if r.outcome == "unsupported":
                        info["unsupported"].append(f"{fn}[{rg},{rv}]: {r.value}")
                        continue
                    k += 1
                    for o in r.ctx.obligations:
                        o.name = f"{o.name}.p{k}"
                        out.append(o)
                info["paths"] += k
                if k == 0:
                    info["unsupported"].append(f"{fn}[{rg},{rv}]: no completed path")
    return out, info
