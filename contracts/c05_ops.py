"""C05.mask / C05.unview — backward rules of the two graph-surgery operations, pointwise-real domain.

ApplyMask(pass_through, upstream, mask):  forward = pass_through's data (unchanged)
   ensures  backward_var(g, 0) = g                      (the ufunc operands then receive mask*g through C01.step's `where`)
   ensures  backward_var(g, 1) = g * (not mask)         (masked-out elements pass their gradient to the old contents)
UnView(placeholder_base, placeholder_mutant_view; view_fn_sequence):
   with the view functions abstracted pointwise (pi = identity on the representative element *inside* the view region):
   ensures  index 1 (view):  result = pi(g)             (the corresponding view of the incoming gradient)
   ensures  index 0 (base):  result = g with the view region zeroed, computed on a *copy* (g itself unwritten)
"""
from __future__ import annotations

import z3

from pyvc import frontend
from pyvc.builtins_model import default_builtins
from pyvc.interp import Config, Ctx, Interp, SymRaise, explore
from pyvc.realdom import PArr, PTensor, RealDomain, to_real

DG = "mygrad._utils.duplicating_graph"


def _cfg(holder):
    cfg = Config()
    cfg.builtins = default_builtins()

    class _NpProxy:
        def __sym_getattr__(self, interp, name):
            return holder["dom"].np.__sym_getattr__(interp, name)

        def __getattr__(self, name):
            return getattr(holder["dom"].np, name)

    cfg.module_overrides["numpy"] = _NpProxy()
    return cfg


def applymask_harness(index, mask_kind):
    def h(ctx: Ctx):
        holder = {}
        cfg = _cfg(holder)
        dom = RealDomain(ctx)
        holder["dom"] = dom
        interp = Interp(ctx, cfg)
        x, u, g = z3.Real("x"), z3.Real("u"), z3.Real("g")
        m = z3.Bool("mask")
        pt, up = PTensor(dom.arr(x, "input:0"), "z'"), PTensor(dom.arr(u, "input:1"), "old-z")
        mask = dom.arr(m, "mask") if mask_kind == "array" else m
        Op = interp.global_lookup(interp.module(DG), "ApplyMask")
        op = interp.instantiate(Op, [], {})
        out = interp.call(interp.getattr(op, "__call__"), [pt, up], {"mask": mask})
        tag = f"C05.mask[{index},{mask_kind}]"
        meta = dict(function=f"{DG}:ApplyMask.backward_var")
        ctx.oblige(f"{tag}.forward_passes_through", out is pt.data, **meta)
        garr = dom.arr(g, "grad")
        r = interp.call(interp.getattr(op, "backward_var"), [garr, index], {})
        rv = to_real(r.val if isinstance(r, PArr) else r)
        spec = g if index == 0 else z3.If(m, z3.RealVal(0), g)
        ctx.oblige(f"{tag}.vjp", rv == spec, **meta)
        ctx.oblige(f"{tag}.grad_unwritten", garr.writes == 0, **meta)
        variables = op.fields.get("variables")
        ctx.oblige(f"{tag}.variables", isinstance(variables, tuple) and len(variables) == 2 and variables[0] is pt and variables[1] is up, **meta)

    return h


def unview_harness(index, nfn):
    def h(ctx: Ctx):
        holder = {}
        cfg = _cfg(holder)
        dom = RealDomain(ctx)
        holder["dom"] = dom
        interp = Interp(ctx, cfg)
        g = z3.Real("g")
        pb = PTensor(dom.arr(z3.Real("b"), "input:0"), "placeholder_base")
        pv = PTensor(dom.arr(z3.Real("v"), "input:1"), "placeholder_mutant_view")
        mbd = dom.arr(z3.Real("m"), "mutant_base_data")
        applied = []

        def mkfn(i):
            def fn(a):
                # a view function: result is a view (base = owner of a) of the representative element
                applied.append(i)
                return PArr(dom, a.val, "fresh", base=a.owner())

            return fn

        fns = [mkfn(i) for i in range(nfn)]
        Op = interp.global_lookup(interp.module(DG), "UnView")
        op = interp.instantiate(Op, [], {})
        out = interp.call(interp.getattr(op, "__call__"), [pb, pv], {"mutant_base_data": mbd, "view_fn_sequence": fns})
        tag = f"C05.unview[{index},nfn={nfn}]"
        meta = dict(function=f"{DG}:UnView.backward_var")
        ctx.oblige(f"{tag}.forward_returns_mutant_base_data", out is mbd, **meta)
        garr = dom.arr(g, "grad")
        # shapes: the executor's `shape` token is shared, so `grad_view.shape == self.variables[1].shape` holds
        try:
            r = interp.call(interp.getattr(op, "backward_var"), [garr, index], {})
        except SymRaise as e:
            # with an empty view-function sequence `grad_view.base is grad` cannot hold for index 0 (grad_view is grad's copy itself)
            ctx.oblige(f"{tag}.raises_only_for_empty_sequence", nfn == 0 and index == 0 and e.exc.cls is AssertionError, raised=e.exc.cls_name(), **meta)
            return
        ctx.oblige(f"{tag}.view_fns_applied_in_order", applied == list(range(nfn)), **meta)
        ctx.oblige(f"{tag}.grad_unwritten", garr.writes == 0, **meta)
        if index == 1:
            ctx.oblige(f"{tag}.vjp_is_view_of_grad", isinstance(r, PArr) and (r.owner() is garr) and z3.is_true(z3.simplify(to_real(r.val) == g)), **meta)
        else:
            ok = isinstance(r, PArr) and r.owner() is not garr
            ctx.oblige(f"{tag}.result_is_a_copy", ok, **meta)
            if ok:
                # inside the view region (the representative element is viewed by every fn) the gradient is zeroed
                ctx.oblige(f"{tag}.view_region_zeroed", to_real(r.val) == 0, **meta)

    return h


def obligations(tier="quick"):
    out = []
    info = {"functions": {}, "unsupported": [], "paths": 0}
    for q in (f"{DG}:ApplyMask.__call__", f"{DG}:ApplyMask.backward_var", f"{DG}:UnView.__call__", f"{DG}:UnView.backward_var"):
        try:
            _m, node, _c = frontend.find(q)
            info["functions"][q] = frontend.source_hash(node)
        except frontend.ExtractionError as e:
            info["unsupported"].append(str(e))
    hs = [(f"mask{i}{k}", applymask_harness(i, k)) for i in (0, 1) for k in ("array", "bool")]
    hs += [(f"unview{i},{n}", unview_harness(i, n)) for i in (0, 1) for n in (0, 1, 2, 3)]
    for name, h in hs:
        results = explore(h)
        k = 0
        for r in results:
            if r.outcome == "unsupported":
                info["unsupported"].append(f"{name}: {r.value}")
                continue
            k += 1
            for o in r.ctx.obligations:
                o.name = f"{o.name}.p{k}"
                out.append(o)
        info["paths"] += k
        if k == 0:
            info["unsupported"].append(f"{name}: no completed path")
    return out, info
