"""C02.struct — VJP contracts of the operations that only REARRANGE elements (no arithmetic), index-function domain.

Functions under contract (real `__call__` and `backward_var` ASTs, re-read from /repo on every run):
  tensor_manip/transpose_like/ops.py : Tensor_Transpose_Property, Transpose, MoveAxis, SwapAxes, Roll
  tensor_manip/array_shape/ops.py    : Reshape, Flatten, Ravel, Squeeze, ExpandDims, AtLeast1D/2D/3D (via _PreservesOrder /
                                       _AtLeastKD), BroadcastTo

Contract of a rearrangement  y = f(x):  the forward (run symbolically over NumPy's definition of the routine, pyvc/idxdom.py)
gives  y[j] = x[sigma(j)]  for every in-bounds j, with sigma read off the forward's own result term.  Because sigma is a
bijection between the index spaces (obliged: `sigma_injective`, `sigma_in_bounds`, equal sizes), the exact VJP is
      backward_var(g, 0).shape == x.shape      and      backward_var(g, 0)[sigma(j)] == g[j]   for every in-bounds j,
stated at a skolem index j, for symbolic extents n_k >= 0 and symbolic roll shifts of unbounded value.  Rank (0..3, thorough 4)
and axis arguments are enumerated exhaustively for those ranks (all permutations, all negative spellings, all source /
destination pairs), because NumPy's axis arguments are structural.  For the order-preserving family the statement is over the
C-order flat position k:  y.flat[k] = x.flat[k],  backward(g).flat[k] = g.flat[k],  backward(g).shape == x.shape.
BroadcastTo's backward_var must return the incoming gradient itself (the reduction over broadcast axes is the contract of
reduce_broadcast, C01.rb, applied by Operation.backward — C01.step).
Frame: the incoming gradient and the operand are not written (no write primitive exists in this domain: any `out=`, `+=` or
item assignment leaves the subset and the path is undecided, never passed).
"""
from __future__ import annotations

import itertools

import z3

from pyvc import frontend
from pyvc.builtins_model import default_builtins
from pyvc.idxdom import IdxDomain, XArr, XTensor, prod
from pyvc.interp import Config, Ctx, Interp, SymRaise, explore

TL = "mygrad.tensor_manip.transpose_like.ops"
AS = "mygrad.tensor_manip.array_shape.ops"
TJ = "mygrad.tensor_manip.tensor_joining.ops"
R_MAX = {"quick": 3, "thorough": 4}


def _cfg(holder):
    cfg = Config()
    cfg.builtins = default_builtins()

    class _NpProxy:
        def __sym_getattr__(self, interp, name):
            return holder["dom"].np.__sym_getattr__(interp, name)

        def __getattr__(self, name):
            return getattr(holder["dom"].np, name)

    cfg.module_overrides["numpy"] = _NpProxy()

    def accumulate(it):
        out, acc = [], None
        for v in it:
            acc = v if acc is None else acc + v
            out.append(acc)
        return out

    cfg.global_overrides[("itertools", "accumulate")] = accumulate
    return cfg


def _setup(ctx):
    holder = {}
    cfg = _cfg(holder)
    dom = IdxDomain(ctx)
    holder["dom"] = dom
    return dom, Interp(ctx, cfg)


def _dims(ctx, rank, ones=()):
    dims = []
    for k in range(rank):
        if k in ones:
            dims.append(z3.IntVal(1))
        else:
            n = z3.Int(f"n{k}")
            ctx.assume(n >= 0)
            dims.append(n)
    return dims


def _shape_eq(a, dims):
    if not isinstance(a, XArr) or a.ndim != len(dims):
        return False
    return z3.And(*[x == y for x, y in zip(a.shape, dims)]) if dims else True


def _sym(v, ctx, names):
    """replace the marker strings 's0','s1' of an argument spec by symbolic integers (roll shifts)"""
    if isinstance(v, str) and v.startswith("$"):
        names.append(v[1:])
        return z3.Int(v[1:])
    if isinstance(v, tuple):
        return tuple(_sym(x, ctx, names) for x in v)
    return v


# NumPy's own call for each operation (the property C03 statement: the forward result is what NumPy returns for the same call)
NUMPY_CALL = {
    "Tensor_Transpose_Property": lambda np_, x: x.__sym_getattr__(None, "T"),
    "Transpose": lambda np_, x, axes=None: np_.np_transpose(x, axes),
    "MoveAxis": lambda np_, x, s, d: np_.np_moveaxis(x, s, d),
    "SwapAxes": lambda np_, x, a, b: np_.np_swapaxes(x, a, b),
    "Roll": lambda np_, x, shift, axis: np_.np_roll(x, shift, axis),
    "Reshape": lambda np_, x, newshape: np_.np_reshape(x, newshape),
    "Flatten": lambda np_, x: x.__sym_getattr__(None, "flatten")(),
    "Ravel": lambda np_, x: np_.np_ravel(x),
    "Squeeze": lambda np_, x, axis: np_.np_squeeze(x, axis),
    "ExpandDims": lambda np_, x, axis: np_.np_expand_dims(x, axis),
    "AtLeast1D": lambda np_, x: np_.np_atleast_1d(x),
    "AtLeast2D": lambda np_, x: np_.np_atleast_2d(x),
    "AtLeast3D": lambda np_, x: np_.np_atleast_3d(x),
}


def _has_hole(args):
    return any((a == -1) if isinstance(a, int) else (_has_hole(a) if isinstance(a, tuple) else False) for a in args)


def _backward(ctx, interp, op, args, name, meta):
    """backward_var after an ACCEPTED forward pass: an exception (NumPy refusing an index / a shape the code formed) is a violation"""
    try:
        return interp.call(interp.getattr(op, "backward_var"), args, {})
    except SymRaise as e:
        ctx.oblige(f"{name}.backward_does_not_raise", False, raised=e.exc.cls_name(), **meta)
        return None


def perm_harness(mod, cls, rank, args, tag):
    """idx-mode contract of a rearrangement that permutes / shifts indices."""

    def h(ctx: Ctx):
        dom, interp = _setup(ctx)
        dims = _dims(ctx, rank)
        X = z3.Function("X", *([z3.IntSort()] * rank + [z3.RealSort()])) if rank else None
        x0 = z3.Real("x0")
        x = XArr(dom, dims, elem=(lambda i: X(*i)) if rank else (lambda i: x0), origin="input:0")
        t = XTensor(x, "x")
        names = []
        cargs = [_sym(a, ctx, names) for a in args]
        Op = interp.global_lookup(interp.module(mod), cls)
        op = interp.instantiate(Op, [], {})
        meta = dict(function=f"{mod}:{cls}.backward_var", op=f"{mod}:{cls}", rank=rank, args=repr(args), kind="vjp", symbols=names)
        out = interp.call(interp.getattr(op, "__call__"), [t] + cargs, {})
        name = f"C02.struct.{cls}[{tag}]"
        ok = isinstance(out, XArr)
        ctx.oblige(f"{name}.forward_returns_array", ok, **meta)
        if not ok:
            return
        variables = op.fields.get("variables")
        ctx.oblige(f"{name}.variables", isinstance(variables, tuple) and len(variables) == 1 and variables[0] is t, **meta)
        j = [z3.Int(f"j{k}") for k in range(out.ndim)]
        for jk, nk in zip(j, out.shape):
            ctx.assume(z3.And(jk >= 0, jk < nk))
        y = out.at(j)
        # C03: the forward result is NumPy's result for the same call on the underlying array (shape and every element)
        spec = NUMPY_CALL[cls](dom.np, x, *cargs)
        m3 = dict(meta, function=f"{mod}:{cls}.__call__", kind="forward")
        ctx.oblige(f"C03.struct.{cls}[{tag}].forward_shape_is_numpys", _shape_eq(out, list(spec.shape)), **m3)
        if spec.ndim == out.ndim:
            ctx.oblige(f"C03.struct.{cls}[{tag}].forward_elements_are_numpys", spec.at(j) == y, **m3)
        if rank:
            if not (z3.is_app(y) and y.decl().eq(X)):
                ctx.oblige(f"{name}.forward_is_a_rearrangement", False, term=str(y)[:200], **meta)
                return
            sigma = [y.arg(k) for k in range(rank)]
        else:
            ctx.oblige(f"{name}.forward_is_a_rearrangement", y is x0 or (z3.is_expr(y) and y.eq(x0)), **meta)
            sigma = []
        # sigma maps the output index space 1-1 into the input index space, and the sizes agree  ==> bijection
        ctx.oblige(f"{name}.sigma_in_bounds", z3.And(*[z3.And(s >= 0, s < n) for s, n in zip(sigma, dims)]) if rank else True, **meta)
        ctx.oblige(f"{name}.same_size", prod(out.shape) == prod(dims), **meta)
        if rank:
            j2 = [z3.Int(f"jj{k}") for k in range(out.ndim)]
            inb2 = z3.And(*[z3.And(a >= 0, a < n) for a, n in zip(j2, out.shape)])
            y2 = out.at(j2)
            sig2 = [y2.arg(k) for k in range(rank)]
            ctx.oblige(f"{name}.sigma_injective",
                       z3.Implies(z3.And(inb2, *[a == b for a, b in zip(sigma, sig2)]), z3.And(*[a == b for a, b in zip(j, j2)])), **meta)
        G = z3.Function("G", *([z3.IntSort()] * out.ndim + [z3.RealSort()])) if out.ndim else None
        g0 = z3.Real("g0")
        g = XArr(dom, out.shape, elem=(lambda i: G(*i)) if out.ndim else (lambda i: g0), origin="grad")
        r = _backward(ctx, interp, op, [g, 0], name, meta)
        ok = isinstance(r, XArr)
        ctx.oblige(f"{name}.backward_returns_array", ok, **meta)
        if not ok:
            return
        ctx.oblige(f"{name}.grad_shape_is_operand_shape", _shape_eq(r, dims), **meta)
        if r.ndim == rank:
            gj = G(*j) if out.ndim else g0
            ctx.oblige(f"{name}.vjp", r.at(sigma) == gj, **meta)

    return h


def flat_harness(mod, cls, rank, args, tag, ones=(), kwargs=None):
    """flat-mode contract of an order-preserving routine (same C-order flat sequence, new shape)."""

    def h(ctx: Ctx):
        dom, interp = _setup(ctx)
        dims = _dims(ctx, rank, ones)
        Xf = z3.Function("Xf", z3.IntSort(), z3.RealSort())
        x = XArr(dom, dims, flat=lambda k: Xf(k), origin="input:0")
        t = XTensor(x, "x")
        names = []
        cargs = [_sym(a, ctx, names) for a in args]
        for nm in names:
            ctx.assume(z3.Int(nm) >= 0)
        Op = interp.global_lookup(interp.module(mod), cls)
        op = interp.instantiate(Op, [], {})
        meta = dict(function=f"{mod}:{cls}.backward_var", op=f"{mod}:{cls}", rank=rank, args=repr(args), ones=list(ones), kind="vjp-flat", symbols=names)
        out = interp.call(interp.getattr(op, "__call__"), [t] + cargs, dict(kwargs or {}))
        name = f"C02.struct.{cls}[{tag}]"
        ok = isinstance(out, XArr) and out.flat is not None
        ctx.oblige(f"{name}.forward_returns_array", ok, **meta)
        if not ok:
            return
        variables = op.fields.get("variables")
        ctx.oblige(f"{name}.variables", isinstance(variables, tuple) and len(variables) == 1 and variables[0] is t, **meta)
        if not _has_hole(args):
            spec = NUMPY_CALL[cls](dom.np, x, *cargs, **dict(kwargs or {}))
            m3 = dict(meta, function=f"{mod}:{cls}.__call__", kind="forward")
            ctx.oblige(f"C03.struct.{cls}[{tag}].forward_shape_is_numpys", _shape_eq(out, list(spec.shape)), **m3)
        k = z3.Int("k")
        ctx.assume(z3.And(k >= 0, k < prod(dims)))
        ctx.oblige(f"{name}.forward_keeps_flat_order", out.flat(k) == Xf(k), **meta)
        ctx.oblige(f"{name}.same_size", prod(out.shape) == prod(dims), **meta)
        Gf = z3.Function("Gf", z3.IntSort(), z3.RealSort())
        g = XArr(dom, out.shape, flat=lambda q: Gf(q), origin="grad")
        r = _backward(ctx, interp, op, [g, 0], name, meta)
        ok = isinstance(r, XArr) and r.flat is not None
        ctx.oblige(f"{name}.backward_returns_array", ok, **meta)
        if not ok:
            return
        ctx.oblige(f"{name}.grad_shape_is_operand_shape", _shape_eq(r, dims), **meta)
        ctx.oblige(f"{name}.vjp", r.flat(k) == Gf(k), **meta)

    return h


def broadcast_harness(rank, lead):
    """BroadcastTo: forward hands (data, shape) to np.broadcast_to; backward_var returns the incoming gradient itself."""

    def h(ctx: Ctx):
        dom, interp = _setup(ctx)
        dims = _dims(ctx, rank)
        Xf = z3.Function("Xf", z3.IntSort(), z3.RealSort())
        x = XArr(dom, dims, flat=lambda k: Xf(k), origin="input:0")
        t = XTensor(x, "x")
        shape = tuple([z3.Int(f"m{k}") for k in range(lead)] + list(dims))
        seen = []

        def broadcast_to(a, shape=None, subok=False):
            seen.append((a, shape))
            return XArr(dom, shape, flat=lambda k: Xf(k), base=a)  # contents irrelevant to the obligations below

        dom.np.np_broadcast_to = broadcast_to
        Op = interp.global_lookup(interp.module(AS), "BroadcastTo")
        op = interp.instantiate(Op, [], {})
        meta = dict(function=f"{AS}:BroadcastTo.backward_var", op=f"{AS}:BroadcastTo", rank=rank, args=repr(("shape",)), kind="passthrough")
        out = interp.call(interp.getattr(op, "__call__"), [t, shape], {})
        name = f"C02.struct.BroadcastTo[r{rank},lead{lead}]"
        ctx.oblige(f"{name}.forwards_data_and_shape", len(seen) == 1 and seen[0][0] is x and seen[0][1] is shape, **meta)
        variables = op.fields.get("variables")
        ctx.oblige(f"{name}.variables", isinstance(variables, tuple) and len(variables) == 1 and variables[0] is t, **meta)
        g = XArr(dom, shape, flat=lambda q: z3.Function("Gf", z3.IntSort(), z3.RealSort())(q), origin="grad")
        r = interp.call(interp.getattr(op, "backward_var"), [g, 0], {})
        ctx.oblige(f"{name}.backward_returns_incoming_gradient", r is g, **meta)

    return h


def join_harness(cls, rank, npieces, axis, index):
    """Concatenate / Stack: P operands, each element of the result comes from exactly one element of exactly one operand.
    For operand `index` and a skolem in-bounds index i of it, with j = the place NumPy's definition puts x_p[i]:
        forward:  out[j] == x_p[i]  and the result has NumPy's shape;     VJP:  backward_var(g, p)[i] == g[j],  same shape as x_p."""

    def h(ctx: Ctx):
        dom, interp = _setup(ctx)
        flatmode = axis is None
        pieces, ts, dimsl = [], [], []
        common = _dims(ctx, rank)
        for p in range(npieces):
            if flatmode:
                dims = [z3.Int(f"d{p}_{k}") for k in range(rank)]
                for d in dims:
                    ctx.assume(d >= 0)
                Xf = z3.Function(f"Xf{p}", z3.IntSort(), z3.RealSort())
                x = XArr(dom, dims, flat=(lambda Xf: lambda k: Xf(k))(Xf), origin=f"input:{p}")
            else:
                dims = list(common)
                if cls == "Concatenate":
                    e = z3.Int(f"e{p}")
                    ctx.assume(e >= 0)
                    dims[axis % rank] = e
                X = z3.Function(f"X{p}", *([z3.IntSort()] * rank + [z3.RealSort()])) if rank else None
                x0 = z3.Real(f"x{p}")
                x = XArr(dom, dims, elem=(lambda X: lambda i: X(*i))(X) if rank else (lambda x0: lambda i: x0)(x0), origin=f"input:{p}")
            pieces.append(x)
            dimsl.append(dims)
            ts.append(XTensor(x, f"x{p}"))
        Op = interp.global_lookup(interp.module(TJ), cls)
        op = interp.instantiate(Op, [], {})
        tag = f"r{rank},P={npieces},axis={axis},index={index}"
        meta = dict(function=f"{TJ}:{cls}.backward_var", op=f"{TJ}:{cls}", rank=rank, args=repr((npieces, axis, index)), kind="join")
        out = interp.call(interp.getattr(op, "__call__"), list(ts), {"axis": axis})
        name = f"C02.struct.{cls}[{tag}]"
        ok = isinstance(out, XArr)
        ctx.oblige(f"{name}.forward_returns_array", ok, **meta)
        if not ok:
            return
        variables = op.fields.get("variables")
        ctx.oblige(f"{name}.variables", isinstance(variables, tuple) and len(variables) == npieces and all(a is b for a, b in zip(variables, ts)), **meta)
        xp, dp = pieces[index], dimsl[index]
        m3 = dict(meta, function=f"{TJ}:{cls}.__call__", kind="join-forward")
        if flatmode:
            k = z3.Int("k")
            ctx.assume(z3.And(k >= 0, k < prod(dp)))
            off = sum((prod(d) for d in dimsl[:index]), z3.IntVal(0))
            total = sum((prod(d) for d in dimsl), z3.IntVal(0))
            ctx.oblige(f"C03.struct.{cls}[{tag}].forward_shape_is_numpys", _shape_eq(out, [total]), **m3)
            if out.flat is None or out.ndim != 1:
                return
            ctx.oblige(f"C03.struct.{cls}[{tag}].forward_places_piece", out.flat(off + k) == xp.flat(k), **m3)
            Gf = z3.Function("Gf", z3.IntSort(), z3.RealSort())
            g = XArr(dom, out.shape, flat=lambda q: Gf(q), origin="grad")
            r = _backward(ctx, interp, op, [g, index], name, meta)
            ok = isinstance(r, XArr) and r.flat is not None
            ctx.oblige(f"{name}.backward_returns_array", ok, **meta)
            if ok:
                ctx.oblige(f"{name}.grad_shape_is_operand_shape", _shape_eq(r, dp), **meta)
                ctx.oblige(f"{name}.vjp", r.flat(k) == Gf(off + k), **meta)
        else:
            i = [z3.Int(f"i{k}") for k in range(rank)]
            for a, n in zip(i, dp):
                ctx.assume(z3.And(a >= 0, a < n))
            if cls == "Concatenate":
                ax = axis % rank
                off = sum((d[ax] for d in dimsl[:index]), z3.IntVal(0))
                j = list(i)
                j[ax] = i[ax] + off
                spec_shape = list(dp)
                spec_shape[ax] = sum((d[ax] for d in dimsl), z3.IntVal(0))
            else:
                ax = axis % (rank + 1)
                j = list(i)
                j.insert(ax, z3.IntVal(index))
                spec_shape = list(dp)
                spec_shape.insert(ax, z3.IntVal(npieces))
            ctx.oblige(f"C03.struct.{cls}[{tag}].forward_shape_is_numpys", _shape_eq(out, spec_shape), **m3)
            if out.ndim != len(j):
                return
            ctx.oblige(f"C03.struct.{cls}[{tag}].forward_places_piece", out.at(j) == xp.at(i), **m3)
            G = z3.Function("G", *([z3.IntSort()] * out.ndim + [z3.RealSort()]))
            g = XArr(dom, out.shape, elem=lambda q: G(*q), origin="grad")
            r = _backward(ctx, interp, op, [g, index], name, meta)
            if rank == 0 and not isinstance(r, XArr):
                ctx.oblige(f"{name}.backward_returns_array", False, **meta)
                return
            ok = isinstance(r, XArr)
            ctx.oblige(f"{name}.backward_returns_array", ok, **meta)
            if ok:
                ctx.oblige(f"{name}.grad_shape_is_operand_shape", _shape_eq(r, dp), **meta)
                if r.ndim == rank:
                    ctx.oblige(f"{name}.vjp", r.at(i) == G(*j), **meta)
        for n_, (what, f) in enumerate(dom.side_conditions):
            ctx.oblige(f"{name}.numpy_accepts[{n_}:{what}]", f, **meta)

    return h


def lemma_harness(ctx: Ctx):
    """the lemma whose instances pyvc/idxdom.py:IdxDomain.mod adds as hypotheses — proved here for all integers"""
    Q, n = z3.Int("Q"), z3.Int("n")
    meta = dict(function="pyvc/idxdom.py:IdxDomain.mod (lemma)", kind="lemma")
    ctx.oblige("C02.struct.lemma.mul_monotone.pos", z3.Implies(z3.And(n >= 0, Q >= 1), Q * n >= n), **meta)
    ctx.oblige("C02.struct.lemma.mul_monotone.neg", z3.Implies(z3.And(n >= 0, Q <= -1), Q * n <= -n), **meta)


def _spellings(p, r, all_patterns=True):
    """an axis tuple with every pattern of negative spellings (a or a - rank per entry)"""
    if not all_patterns:
        yield tuple(p)
        if r:
            yield tuple(a - r for a in p)
        return
    for signs in itertools.product((0, 1), repeat=r):
        yield tuple(a - r if sg else a for a, sg in zip(p, signs))


def harnesses(tier):
    R = R_MAX.get(tier, 3)
    hs = [("lemma", lemma_harness)]
    for r in range(0, R + 1):
        hs.append((f"T[r{r}]", perm_harness(TL, "Tensor_Transpose_Property", r, (), f"r{r}")))
        hs.append((f"transpose[r{r},None]", perm_harness(TL, "Transpose", r, (None,), f"r{r},axes=None")))
        for p in itertools.permutations(range(r)):
            for q in _spellings(p, r, all_patterns=(r <= 3)):
                hs.append((f"transpose[r{r},{q}]", perm_harness(TL, "Transpose", r, (q,), f"r{r},axes={q}")))
        rng = list(range(-r, r))
        for a in rng:
            for b in rng:
                hs.append((f"swapaxes[r{r},{a},{b}]", perm_harness(TL, "SwapAxes", r, (a, b), f"r{r},{a},{b}")))
                hs.append((f"moveaxis[r{r},{a},{b}]", perm_harness(TL, "MoveAxis", r, (a, b), f"r{r},{a},{b}")))
        if r >= 2:
            pairs = list(itertools.permutations(range(r), 2))
            for s in pairs:
                for d in pairs:
                    hs.append((f"moveaxis[r{r},{s},{d}]", perm_harness(TL, "MoveAxis", r, (s, d), f"r{r},{s},{d}")))
            # negative spelling of a tuple pair
            hs.append((f"moveaxis[r{r},neg]", perm_harness(TL, "MoveAxis", r, ((-1, 0), (0, -1)), f"r{r},(-1,0),(0,-1)")))
        for a in rng:
            hs.append((f"roll[r{r},{a}]", perm_harness(TL, "Roll", r, ("$s0", a), f"r{r},shift=s0,axis={a}")))
        if r >= 1:
            for a in range(r):
                for b in range(-r, r):
                    hs.append((f"roll[r{r},({a},{b})]", perm_harness(TL, "Roll", r, (("$s0", "$s1"), (a, b)), f"r{r},shift=(s0,s1),axis=({a},{b})")))
            hs.append((f"roll[r{r},scalar,tuple]", perm_harness(TL, "Roll", r, ("$s0", tuple(range(r))), f"r{r},shift=s0,axis={tuple(range(r))}")))
    for r in range(0, R + 1):
        hs.append((f"flatten[r{r}]", flat_harness(AS, "Flatten", r, (), f"r{r}")))
        hs.append((f"ravel[r{r}]", flat_harness(AS, "Ravel", r, (), f"r{r}")))
        for cls in ("AtLeast1D", "AtLeast2D", "AtLeast3D"):
            hs.append((f"{cls}[r{r}]", flat_harness(AS, cls, r, (), f"r{r}")))
        # reshape to rank 0..3 with symbolic extents, and with one -1
        for q in range(0, 4):
            new = tuple(f"$m{k}" for k in range(q))
            hs.append((f"reshape[r{r}->{q}]", flat_harness(AS, "Reshape", r, (new,), f"r{r}->rank{q}")))
            for hole in range(q):
                nw = tuple(-1 if k == hole else f"$m{k}" for k in range(q))
                hs.append((f"reshape[r{r}->{q},-1@{hole}]", flat_harness(AS, "Reshape", r, (nw,), f"r{r}->rank{q},-1@{hole}")))
        # squeeze: every subset of axes that are the literal 1
        for ones in itertools.chain.from_iterable(itertools.combinations(range(r), n) for n in range(r + 1)):
            hs.append((f"squeeze[r{r},ones={ones},None]", flat_harness(AS, "Squeeze", r, (None,), f"r{r},ones={ones},axis=None", ones=ones)))
            if len(ones) == 1:
                for ax in (ones[0], ones[0] - r):
                    hs.append((f"squeeze[r{r},{ax}]", flat_harness(AS, "Squeeze", r, (ax,), f"r{r},ones={ones},axis={ax}", ones=ones)))
            if ones:
                for sub in itertools.chain.from_iterable(itertools.combinations(ones, n) for n in range(1, len(ones) + 1)):
                    hs.append((f"squeeze[r{r},ones={ones},{sub}]", flat_harness(AS, "Squeeze", r, (tuple(sub),), f"r{r},ones={ones},axis={sub}", ones=ones)))
        for ax in range(-(r + 1), r + 1):
            hs.append((f"expand_dims[r{r},{ax}]", flat_harness(AS, "ExpandDims", r, (ax,), f"r{r},axis={ax}")))
        if r <= 2:
            # tuple axes: every ordered pair of distinct positions of the (r+2)-dimensional result, in every sign spelling
            nd = r + 2
            for a in range(-nd, nd):
                for b in range(-nd, nd):
                    if a % nd != b % nd:
                        hs.append((f"expand_dims[r{r},({a},{b})]", flat_harness(AS, "ExpandDims", r, ((a, b),), f"r{r},axis=({a},{b})")))
        for lead in (0, 1, 2):
            hs.append((f"broadcast_to[r{r},lead{lead}]", broadcast_harness(r, lead)))
    # joins: P pieces, every axis spelling, every operand index
    for r in range(0, min(R, 3) + 1):
        for P in (1, 2, 3):
            for idx in range(P):
                if r >= 1:
                    for ax in range(-r, r):
                        hs.append((f"concatenate[r{r},P{P},{ax},{idx}]", join_harness("Concatenate", r, P, ax, idx)))
                hs.append((f"concatenate[r{r},P{P},None,{idx}]", join_harness("Concatenate", r, P, None, idx)))
                for ax in range(-(r + 1), r + 1):
                    hs.append((f"stack[r{r},P{P},{ax},{idx}]", join_harness("Stack", r, P, ax, idx)))
    return hs


FUNCTIONS = (
    [f"{TL}:{c}.{m}" for c in ("Tensor_Transpose_Property", "Transpose", "MoveAxis", "SwapAxes", "Roll") for m in ("__call__", "backward_var")]
    + [f"{AS}:_PreservesOrder.backward_var", f"{AS}:_AtLeastKD.__call__"]
    + [f"{AS}:{c}.__call__" for c in ("Reshape", "Flatten", "Ravel", "Squeeze", "ExpandDims", "BroadcastTo")]
    + [f"{AS}:BroadcastTo.backward_var"]
    + [f"{TJ}:{c}.{m}" for c in ("Concatenate", "Stack") for m in ("__call__", "backward_var")]
)


def obligations(tier="quick"):
    out = []
    info = {"functions": {}, "unsupported": [], "paths": 0, "models": set()}
    for q in FUNCTIONS:
        try:
            _m, node, _c = frontend.find(q)
            info["functions"][q] = frontend.source_hash(node)
        except frontend.ExtractionError as e:
            info["unsupported"].append(str(e))
    for name, h in harnesses(tier):
        results = explore(h)
        k = 0
        for r in results:
            if r.outcome == "unsupported":
                info["unsupported"].append(f"{name}: {r.value}")
                continue
            k += 1
            for o in r.ctx.obligations:
                o.name = f"{o.name}.p{k}"
                out.append(o)
        info["paths"] += k
        if k == 0:
            info["unsupported"].append(f"{name}: no completed path")
    return out, info
