"""C10.init / C17.gate — contract of Tensor.__init__ (dtype gate, default flag) and of _resolve_constant.

Abstract dtype lattice: kind in {float, int, bool, other} (NumPy's issubclass tests np.floating /
np.integer / np.bool_ are the axioms of the lattice).  TRACK_GRAPH symbolic.
  raises TypeError  <=> `constant` is neither None nor a bool,  or (tracking /\\ kind = other)
  raises ValueError <=> tracking /\\ kind in {int,bool} /\\ constant is False        (when no TypeError)
  otherwise: self._constant = (kind != float) if constant is None else constant;  self._grad is None;
             _ops empty set, _view_children empty, _view_grad None, _creator/_base as passed;
             self.data is the array NumPy built from exactly (x, dtype, copy, ndmin)  (np.asarray for copy=False)
_resolve_constant(*others, constant): constant if not None; else None if some other is a non-constant Tensor; else True.
"""
from __future__ import annotations

import z3

from pyvc import frontend
from pyvc.builtins_model import TypeToken, default_builtins
from pyvc.interp import Config, Ctx, GlobalCell, Interp, Opaque, SObj, SymRaise, explore

TB = "mygrad.tensor_base"
GT = "mygrad._utils.graph_tracking"

F, I_, B_, O_ = 0, 1, 2, 3


class DTypeClass:
    def __init__(self, kind):
        self.kind = kind

    def __sym_issubclass__(self, interp, T):
        name = getattr(T, "name", None)
        return {"floating": self.kind == F, "integer": self.kind == I_, "bool_": self.kind == B_}.get(name, False)


class FakeDType:
    def __init__(self, kind):
        self.type = DTypeClass(kind)


class FakeArr:
    def __init__(self, kind, how, args):
        self.dtype = FakeDType(kind)
        self.how, self.args = how, args
        self.ndim = 1  # concrete: leading-axis tuples are built concretely (ndmin 0 and 2 are enumerated)

    def __sym_getitem__(self, interp, idx):
        return FakeArr(self.dtype.type.kind, "indexed", (self, idx))


def init_harness(constant_kind, copy, ndmin):
    def h(ctx: Ctx):
        cfg = Config()
        cfg.builtins = default_builtins()
        kind = z3.Int("dtype_kind")
        ctx.assume(z3.And(kind >= 0, kind <= 3))
        made = []

        class NP:
            floating = TypeToken("floating")
            integer = TypeToken("integer")
            bool_ = TypeToken("bool_")

            @staticmethod
            def array(x, dtype=None, copy=True, ndmin=0, **k):
                a = FakeArr(kind, "np.array", (x, dtype, copy, ndmin, k))
                made.append(a)
                return a

            @staticmethod
            def asarray(x, dtype=None, **k):
                a = FakeArr(kind, "np.asarray", (x, dtype, k))
                made.append(a)
                return a

        cfg.module_overrides["numpy"] = NP
        cfg.global_overrides[("mygrad._numpy_version", "NP_IS_V2")] = True
        TG = GlobalCell("TRACK_GRAPH", z3.Bool("TRACK_GRAPH"))
        cfg.global_overrides[(GT, "TRACK_GRAPH")] = TG
        interp = Interp(ctx, cfg)
        T = interp.global_lookup(interp.module(TB), "Tensor")
        obj = SObj(T, label="self")
        x, dtype = Opaque("x"), Opaque("dtype")
        creator, base = Opaque("creator"), Opaque("base")
        const = {"none": None, "bool": z3.Bool("constant"), "int": 1, "str": "True"}[constant_kind]
        init, _ = T.lookup(interp, "__init__")
        meta = dict(function=f"{TB}:Tensor.__init__", constant=constant_kind, copy=copy, ndmin=ndmin)
        tag = f"C10.init[constant={constant_kind},copy={copy},ndmin={ndmin}]"
        tracking = TG.value
        bad_const = constant_kind in ("int", "str")
        nonreal = z3.And(tracking, kind == O_)
        int_nonconst = z3.And(tracking, z3.Or(kind == I_, kind == B_), z3.Not(const)) if constant_kind == "bool" else z3.BoolVal(False)
        try:
            interp.call(init, [obj, x], dict(dtype=dtype, constant=const, copy=copy, ndmin=ndmin, _creator=creator, _base=base))
        except SymRaise as e:
            if e.exc.cls is TypeError:
                ctx.oblige(f"{tag}.TypeError_iff", z3.Or(z3.BoolVal(bad_const), nonreal), raised="TypeError", **meta)
            elif e.exc.cls is ValueError:
                ctx.oblige(f"{tag}.ValueError_iff", z3.And(z3.BoolVal(not bad_const), z3.Not(nonreal), int_nonconst), raised="ValueError", **meta)
            else:
                ctx.oblige(f"{tag}.no_other_exception", False, raised=e.exc.cls_name(), **meta)
            return
        ctx.oblige(f"{tag}.accepts_only_valid", z3.And(z3.BoolVal(not bad_const), z3.Not(nonreal), z3.Not(int_nonconst)), **meta)
        fl = obj.fields
        exp_flag = (kind != F) if const is None else const
        got = fl.get("_constant")
        ctx.oblige(f"{tag}.flag", (got == exp_flag) if z3.is_expr(got) or z3.is_expr(exp_flag) else got is exp_flag, **meta)
        ctx.oblige(f"{tag}.grad_none", fl.get("_grad", 0) is None and fl.get("_view_grad", 0) is None, **meta)
        ctx.oblige(f"{tag}.creator_base_as_passed", fl.get("_creator") is creator and fl.get("_base") is base, **meta)
        ctx.oblige(f"{tag}.no_consumers", fl.get("_ops") == set() and "_view_children" in fl, **meta)
        d = fl.get("data")
        root = d
        while isinstance(root, FakeArr) and root.how == "indexed":
            root = root.args[0]
        ok = isinstance(root, FakeArr) and len(made) == 1 and root is made[0]
        if ok and copy is False:
            ok = root.how == "np.asarray" and root.args[0] is x and root.args[1] is dtype and not root.args[2]
        elif ok:
            ok = root.how == "np.array" and root.args[0] is x and root.args[1] is dtype and root.args[2] is copy and root.args[3] is ndmin and not root.args[4]
        ctx.oblige(f"{tag}.data_built_from_callers_arguments", ok, **meta)

    return h


def resolve_harness(n_tensors, given):
    def h(ctx: Ctx):
        cfg = Config()
        cfg.builtins = default_builtins()
        interp = Interp(ctx, cfg)
        T = interp.global_lookup(interp.module(TB), "Tensor")
        flags = [z3.Bool(f"c{i}") for i in range(n_tensors)]
        others = [SObj(T, dict(_constant=f), label=f"t{i}") for i, f in enumerate(flags)] + [Opaque("ndarray"), 2.0]
        const = {"none": None, "true": True, "false": False}[given]
        f = interp.global_lookup(interp.module(TB), "_resolve_constant")
        r = interp.call(f, others, dict(constant=const))
        meta = dict(function=f"{TB}:_resolve_constant", n=n_tensors, constant=given)
        tag = f"C10.resolve[n={n_tensors},constant={given}]"
        if const is not None:
            ctx.oblige(f"{tag}.given_wins", r is const, **meta)
        else:
            allc = z3.And(*flags) if flags else z3.BoolVal(True)
            ctx.oblige(f"{tag}.all_constant_iff_True", z3.BoolVal(r is True) == allc, **meta)
            ctx.oblige(f"{tag}.else_None", r is True or r is None, **meta)

    return h


def obligations(tier="quick"):
    out = []
    info = {"functions": {}, "unsupported": [], "paths": 0}
    for q in (f"{TB}:Tensor.__init__", f"{TB}:_resolve_constant"):
        try:
            _m, node, _c = frontend.find(q)
            info["functions"][q] = frontend.source_hash(node)
        except frontend.ExtractionError as e:
            info["unsupported"].append(str(e))
    hs = []
    for ck in ("none", "bool", "int", "str"):
        for copy in (True, False):
            for ndmin in (0, 2):
                hs.append((f"init[{ck},{copy},{ndmin}]", init_harness(ck, copy, ndmin)))
    for n in (0, 1, 2, 3):
        for g in ("none", "true", "false"):
            hs.append((f"resolve[{n},{g}]", resolve_harness(n, g)))
    for name, h in hs:
        results = explore(h)
        k = 0
        for r in results:
            if r.outcome == "unsupported":
                info["unsupported"].append(f"{name}: {r.value}")
                continue
            k += 1
            for o in r.ctx.obligations:
                o.name = f"{o.name}.p{k}"
                out.append(o)
        info["paths"] += k
        if k == 0:
            info["unsupported"].append(f"{name}: no completed path")
    return out, info
