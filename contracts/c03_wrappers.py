"""C03.wrapfn / C11 — argument-forwarding contracts of the thin public wrappers.

For every public module-level function (and Tensor method) that reaches `Tensor._op(...)`, the executor runs
the function's AST with one distinct opaque token per parameter and `_op` replaced by a recording contract:
  ensures  exactly one `_op` call is made and its result is returned unchanged;
  ensures  every parameter token reaches that call *unchanged* (identity), as an operand, inside op_args or as
           a value of op_kwargs -- nothing is dropped, nothing is substituted;
  ensures  the caller's `constant` is passed as `constant=` and nothing else is passed as `constant`.
Functions whose bodies validate or normalise arguments before the call (isinstance checks on the tokens, tuple
building, ...) leave the generic harness (reported as `needs bespoke contract`, never as a violation); they are
covered by the bounded C03/C11 contracts.  Which Operation class each wrapper uses is listed in the evidence and
tied to the NumPy namesake by C03.kernel (op class -> kernel) and C11.registry.
"""
from __future__ import annotations

import ast
import json
import os

import z3

from pyvc import frontend
from pyvc.builtins_model import default_builtins
from pyvc.interp import ClassValue, Config, Ctx, FuncValue, Interp, Opaque, SObj, SymRaise, Unsupported, explore

TB = "mygrad.tensor_base"
MODULES = [
    "mygrad.math.sequential.funcs", "mygrad.math.misc.funcs", "mygrad.math.arithmetic.funcs", "mygrad.math.trigonometric.funcs", "mygrad.math.hyperbolic_trig.funcs", "mygrad.math.exp_log.funcs",
    "mygrad.tensor_manip.array_shape.funcs", "mygrad.tensor_manip.transpose_like.funcs", "mygrad.tensor_manip.tensor_joining.funcs", "mygrad.tensor_manip.tiling.funcs",
    "mygrad.indexing_routines.funcs", "mygrad.linalg.funcs", "mygrad.nnet.activations.relu", "mygrad.nnet.activations.sigmoid", "mygrad.nnet.activations.elu", "mygrad.nnet.activations.selu",
    "mygrad.nnet.activations.softmax", "mygrad.nnet.layers.batchnorm", "mygrad.nnet.layers.pooling", "mygrad.nnet.losses.softmax_crossentropy", "mygrad.nnet.losses.multiclass_hinge",
]
TENSOR_METHODS = ["sum", "prod", "cumprod", "cumsum", "mean", "std", "var", "max", "min", "swapaxes", "transpose", "moveaxis", "squeeze", "ravel", "reshape", "flatten", "T"]


class Tok(Opaque):
    """An argument of unknown type: isinstance / hasattr tests on it are symbolic (both outcomes explored)."""

    def __init__(self, name):
        super().__init__(f"param:{name}")
        self.pname = name

    def __sym_isinstance__(self, interp, T):
        import z3

        nm = getattr(T, "name", None) or getattr(T, "__name__", None) or repr(T)
        return z3.Bool(f"isinstance({self.pname},{nm})")

    def __sym_hasattr__(self, interp, name):
        import z3

        return z3.Bool(f"hasattr({self.pname},{name})")

    def __sym_is__(self, interp, other):
        if other is None or isinstance(other, bool):
            import z3

            return z3.Bool(f"{self.pname} is {other}")
        return self is other


class PermissiveNp:
    """`np.<anything>` is an opaque token here: the wrappers only use numpy names as registry keys / defaults"""

    def __init__(self):
        self._c = {}

    def _get(self, name):
        if name not in self._c:
            self._c[name] = NpTok(f"np.{name}")
        return self._c[name]

    def __sym_getattr__(self, interp, name):
        return self._get(name)

    def __getattr__(self, name):
        if name.startswith("_"):
            raise AttributeError(name)
        return self._get(name)


class NpTok(Opaque):
    def __init__(self, what):
        super().__init__(what)
        self._kids = {}
        self.__name__ = what.split(".")[-1]

    def __sym_getattr__(self, interp, name):
        if name not in self._kids:
            self._kids[name] = NpTok(f"{self.what}.{name}")
        return self._kids[name]


def contains(obj, tok, depth=0):
    if obj is tok:
        return True
    if depth > 4:
        return False
    if isinstance(obj, (tuple, list)):
        return any(contains(x, tok, depth + 1) for x in obj)
    if isinstance(obj, dict):
        return any(contains(v, tok, depth + 1) for v in obj.values())
    return False


def harness(modname, fname, method_of=None):
    def h(ctx: Ctx):
        cfg = Config()
        cfg.builtins = default_builtins()
        rec = []
        ret = Opaque("_op result")
        cfg.summaries[f"{TB}:Tensor._op"] = lambda i_, a, k: (rec.append((a, k)), ret)[1]
        cfg.summaries[f"{TB}:Tensor._in_place_op"] = lambda i_, a, k: (rec.append(("inplace", a, k)), None)[1]
        cfg.module_overrides["numpy"] = PermissiveNp()
        interp = Interp(ctx, cfg)
        if method_of is None:
            f = interp.global_lookup(interp.module(modname), fname)
        else:
            T = interp.global_lookup(interp.module(TB), "Tensor")
            f, _ = T.lookup(interp, fname)
            from pyvc.interp import PropertyValue

            if isinstance(f, PropertyValue):
                f = f.fget
        if not isinstance(f, FuncValue):
            raise Unsupported("not a plain function")
        a = f.node.args
        toks, args, kwargs = {}, [], {}
        for p in a.posonlyargs + a.args:
            if method_of is not None and p.arg == "self":
                T = interp.global_lookup(interp.module(TB), "Tensor")
                t = SObj(T, {}, label="self")
                toks["self"] = t
                args.append(t)
                continue
            t = Tok(p.arg)
            toks[p.arg] = t
            args.append(t)
        if a.vararg:
            for i in range(2):
                # integers (axes, shapes): arbitrary symbolic values, so that any value-dependent rewriting forks a path on which the
                # value handed to the op is no longer the caller's object
                t = z3.Int(f"{a.vararg.arg}{i}")
                toks[f"*{a.vararg.arg}[{i}]"] = t
                args.append(t)
        for p in a.kwonlyargs:
            t = Tok(p.arg)
            toks[p.arg] = t
            kwargs[p.arg] = t
        q = f"{modname}:{fname}" if method_of is None else f"{TB}:Tensor.{fname}"
        meta = dict(function=q)
        tag = f"C03.wrapfn.{q.split(':')[1]}"
        r = interp.call(f, args, kwargs)
        calls = [c for c in rec if c[0] != "inplace"]
        if len(calls) != 1 or len(rec) != 1:
            raise Unsupported(f"reaches _op {len(calls)} times / in-place {len(rec) - len(calls)} times (composite function: needs a bespoke contract)")
        pa, kw = calls[0]
        opcls = pa[1] if len(pa) > 1 else None
        ctx.notes.append(f"op={getattr(opcls, 'name', opcls)}")
        ctx.oblige(f"{tag}.result_returned_unchanged", r is ret, op=getattr(opcls, "name", None), **meta)
        payload = (pa[2:], kw.get("op_args"), kw.get("op_kwargs"), kw.get("out"))
        for name, t in toks.items():
            if name == "constant":
                ctx.oblige(f"{tag}.constant_forwarded", kw.get("constant", "missing") is t, **meta)
            else:
                ctx.oblige(f"{tag}.param[{name}]_reaches_op_unchanged", contains(payload, t), **meta)
        if "constant" not in toks:
            ctx.oblige(f"{tag}.no_invented_constant", kw.get("constant", None) is None, **meta)
        # keyword names are preserved when forwarded through op_kwargs
        okw = kw.get("op_kwargs") or {}
        if isinstance(okw, dict):
            for k_, v_ in okw.items():
                if isinstance(v_, Tok):  # (symbolic integers come from *varargs and are never keyword values)
                    ctx.oblige(f"{tag}.kwarg[{k_}]_keeps_its_name", v_.pname == k_ or (k_, v_.pname) in RENAMES, got=v_.pname, **meta)

    return h


# documented renames between a wrapper's parameter and the op's keyword
RENAMES = {("shift", "shift"), ("repeats", "repeats"), ("source", "source"), ("destination", "destination"), ("ord", "ord")}


def public_functions(modname):
    m = frontend.load_module(modname)
    out = []
    for name, node in m.defs.items():
        if isinstance(node, ast.FunctionDef) and not name.startswith("_"):
            uses_op = any(isinstance(n, ast.Attribute) and n.attr == "_op" for n in ast.walk(node))
            if uses_op:
                out.append(name)
    return out


def obligations(tier="quick"):
    out = []
    info = {"functions": {}, "unsupported": [], "paths": 0, "bespoke_needed": [], "wrappers": {}}
    todo = []
    for mod in MODULES:
        try:
            for fn in public_functions(mod):
                todo.append((mod, fn, None))
        except frontend.ExtractionError as e:
            info["unsupported"].append(str(e))
    for meth in TENSOR_METHODS:
        todo.append((TB, meth, "Tensor"))
    for (mod, fn, meth_of) in todo:
        q = f"{mod}:{fn}" if meth_of is None else f"{TB}:Tensor.{fn}"
        results = explore(harness(mod, fn, meth_of), max_paths=64)
        ok_paths = 0
        for r in results:
            if r.outcome == "unsupported" or not r.ctx.obligations:
                info["bespoke_needed"].append(f"{q}: {r.value}")
                continue
            ok_paths += 1
            for o in r.ctx.obligations:
                o.name = f"{o.name}.p{ok_paths}"
                out.append(o)
            info["wrappers"][q] = (r.ctx.notes or ["?"])[-1]
        info["paths"] += ok_paths
        if ok_paths:
            try:
                _m, node, _c = frontend.find(q)
                info["functions"][q] = frontend.source_hash(node)
            except frontend.ExtractionError:
                pass
    # every wrapper that was under contract when the baseline was recorded must still be: a wrapper whose body no longer fits the subset
    # (or no longer reaches _op exactly once) is "undecided", not silently dropped
    try:
        base = json.load(open(os.path.join(os.path.dirname(os.path.abspath(__file__)), "c03_wrappers_baseline.json")))
    except Exception:
        base = []
    for q in base:
        if q not in info["wrappers"]:
            why = next((b for b in info["bespoke_needed"] if b.startswith(q + ":")), "no completed path")
            info["unsupported"].append(f"wrapper {q} was under contract and no longer is: {why}")
    return out, info
