"""C13.inplace — exceptional-exit contract of Tensor._in_place_op (tracked mode).

Tensor._in_place_op(self, op, *inputs, ...) with graph tracking on, when the attempt `self._op(op, ..., out=<target>)` raises an
exception e of ANY class derived from Exception (ValueError from a shape mismatch, TypeError from a cast, IndexError from an invalid
index, KeyError, MemoryError, a user-defined error raised inside an operation, ...):
  ensures  graph.restore_old_graph() is called exactly once, after the failure and before the exception leaves the function
  ensures  self._grad, self._view_grad and self._base are the very objects they were on entry
  ensures  the exception that leaves the function is e itself
  ensures  nothing is done afterwards: no lock is forced, no tensor is mirrored, no further operation is recorded
  ensures  the mem_guard_off / no_autodiff contexts that were entered have been exited (guard state restored: C15)
Callees are replaced by their contracts: DuplicatingGraph (placeholder graph; `restore_old_graph` undoes it -- that contract is
checked by the bounded C13/C04 layers), Tensor.copy, Tensor._replay_op, Tensor._op (raises e, or returns), array_is_tracked.
The successful path is cut after the attempt returns (it is the subject of the bounded C04/C05 contracts).
Enumerated: self is a base / a view of a base; prior gradient present / absent; the class of e.
"""
from __future__ import annotations

import z3

from pyvc import frontend
from pyvc.builtins_model import TypeToken, default_builtins
from pyvc.interp import Config, Ctx, ExcInst, GlobalCell, Interp, Opaque, PathCut, SObj, SymRaise, explore

TB = "mygrad.tensor_base"
GT = "mygrad._utils.graph_tracking"
LM = "mygrad._utils.lock_management"
DG = "mygrad._utils.duplicating_graph"


class OperationFailed(Exception):
    """an error class the library knows nothing about (raised by a user-defined Operation)"""


EXC_CLASSES = [ValueError, TypeError, IndexError, KeyError, MemoryError, ZeroDivisionError, OperationFailed]


class Flags:
    def __init__(self, writeable):
        self.writeable = writeable

    def __sym_getattr__(self, interp, name):
        return object.__getattribute__(self, name)

    def __sym_setattr__(self, interp, name, v):
        object.__setattr__(self, name, v)


class Arr(Opaque):
    def __init__(self, what):
        super().__init__(what)
        self.flags = Flags(z3.Bool(f"w[{what}]"))


class Ctxm:
    """context manager / decorator stand-in recording enter/exit"""

    def __init__(self, name, log):
        self.name, self.log = name, log

    def __enter__(self):
        self.log.append(("enter", self.name))

    def __exit__(self, *a):
        self.log.append(("exit", self.name))
        return False

    def __call__(self, f, **k):
        return ("wrapped", f)


class Node:
    def __init__(self, tensor, placeholder, parent=None):
        self.tensor, self.placeholder, self.parent = tensor, placeholder, parent


def harness(is_view, has_grad, exc_cls):
    def h(ctx: Ctx):
        cfg = Config()
        cfg.builtins = default_builtins()
        log = []
        cfg.global_overrides[("mygrad._numpy_version", "NP_IS_V2")] = True
        cfg.global_overrides[(GT, "TRACK_GRAPH")] = GlobalCell("TRACK_GRAPH", True)
        cfg.global_overrides[(LM, "MEM_GUARD")] = GlobalCell("MEM_GUARD", z3.Bool("MEM_GUARD"))
        cfg.global_overrides[(GT, "no_autodiff")] = Ctxm("no_autodiff", log)
        cfg.global_overrides[(LM, "mem_guard_off")] = Ctxm("mem_guard_off", log)
        for fn in ("lock_arr_writeability", "release_writeability_lock_on_op", "force_lock_tensor_and_creators"):
            cfg.summaries[f"{LM}:{fn}"] = (lambda name: lambda interp, a, k: log.append(("lock-call", name)))(fn)
        cfg.summaries[f"{LM}:array_is_tracked"] = lambda interp, a, k: z3.Bool("tracked")
        cfg.summaries[f"{DG}:mirror_tensor"] = lambda interp, a, k: log.append(("mirror",))
        interp = Interp(ctx, cfg)
        T = interp.global_lookup(interp.module(TB), "Tensor")

        def mk(name, **extra):
            f = dict(_constant=False, _grad=None, _view_grad=None, _base=None, _creator=None, _ops=set(), _view_children=[], data=Arr(f"{name}.data"))
            f.update(extra)
            return SObj(T, f, label=name)

        g0 = Opaque("prior grad") if has_grad else None
        vg0 = Opaque("prior view grad") if (has_grad and is_view) else None
        if is_view:
            base = mk("base")
            me = mk("self", _grad=g0, _view_grad=vg0, _base=base, _creator=Opaque("view op"))
            base.fields["_view_children"] = [me]
        else:
            base = me = mk("self", _grad=g0)
        prior = (me.fields["_grad"], me.fields["_view_grad"], me.fields["_base"])
        ph_base, ph_me = mk("placeholder(base)"), mk("placeholder(self)")
        mutant = mk("mutant base copy")
        mutant_view = mk("mutant view")

        def replay(parent):
            log.append(("replay", parent))
            return mutant_view

        ph_me.fields["_replay_op"] = replay

        class Graph:
            def __init__(self_, root):
                log.append(("graph-built", root))
                self_.base = Node(base, ph_base)

            def get_path_to_base(self_, t):
                return [Node(me, ph_me, base), self_.base] if is_view else [self_.base]

            def get_placeholder_if_exists(self_, t):
                return ("placeholder-or-self", t)

            def restore_old_graph(self_):
                log.append(("restore",))

            def __getitem__(self_, t):
                return Node(me, ph_me, base if is_view else None)

        class Dup:
            DuplicatingGraph = Graph
            ApplyMask = Opaque("ApplyMask")
            UnView = Opaque("UnView")

            @staticmethod
            def mirror_tensor(**k):
                log.append(("mirror",))

        cfg.global_overrides[(TB, "_dup")] = Dup
        cfg.summaries[f"{TB}:Tensor.copy"] = lambda interp_, a, k: (log.append(("copy", a[0])), mutant)[1]
        the_exc = ExcInst(exc_cls, ("the operation failed",))
        attempt = {"n": 0}

        def op_contract(interp_, a, k):
            attempt["n"] += 1
            log.append(("_op", attempt["n"]))
            if attempt["n"] == 1:
                if ctx.choose(2, "attempt") == 0:
                    log.append(("failed",))
                    raise SymRaise(the_exc)
                raise PathCut()  # success: the rest of the function is outside this contract
            return Opaque("later op")

        cfg.summaries[f"{TB}:Tensor._op"] = op_contract
        f, _ = T.lookup(interp, "_in_place_op")
        tag = f"C13.inplace[{'view' if is_view else 'base'},grad={'some' if has_grad else 'none'},{exc_cls.__name__}]"
        meta = dict(function=f"{TB}:Tensor._in_place_op", self_is_view=is_view, prior_grad=has_grad, exception=exc_cls.__name__)
        opcls, x = Opaque("Op"), Opaque("operand")
        try:
            interp.call(f, [me, opcls, me, x], dict(op_args=None, op_kwargs=None, constant=None))
        except SymRaise as e:
            got = e.exc
        else:
            ctx.oblige(f"{tag}.exception_propagates", False, **meta)
            return
        ctx.oblige(f"{tag}.attempt_was_made", ("failed",) in log, note="an exception before the attempt is a harness/contract mismatch", raised=got.cls_name(), **meta)
        if ("failed",) not in log:
            return
        after = log[log.index(("failed",)) + 1 :]
        ctx.oblige(f"{tag}.same_exception_reraised", got is the_exc, raised=got.cls_name(), **meta)
        ctx.oblige(f"{tag}.restore_old_graph_called_once_on_failure", after.count(("restore",)) == 1, after=repr(after), **meta)
        ctx.oblige(f"{tag}.prior_grad_view_grad_base_restored", me.fields["_grad"] is prior[0] and me.fields["_view_grad"] is prior[1] and me.fields["_base"] is prior[2], **meta)
        ctx.oblige(f"{tag}.nothing_else_after_failure", all(ev in (("restore",), ("exit", "mem_guard_off"), ("exit", "no_autodiff")) for ev in after), after=repr(after), **meta)
        bal = all(sum(1 for ev in log if ev == ("enter", n)) == sum(1 for ev in log if ev == ("exit", n)) for n in ("mem_guard_off", "no_autodiff"))
        ctx.oblige(f"{tag}.guard_contexts_exited", bal, **meta)
        ctx.oblige(f"{tag}.attempt_inside_mem_guard_off", ("enter", "mem_guard_off") in log and log.index(("enter", "mem_guard_off")) < log.index(("failed",)), **meta)

    return h


def obligations(tier="quick"):
    out = []
    info = {"functions": {}, "unsupported": [], "paths": 0}
    q = f"{TB}:Tensor._in_place_op"
    try:
        _m, node, _c = frontend.find(q)
        info["functions"][q] = frontend.source_hash(node)
    except frontend.ExtractionError as e:
        info["unsupported"].append(str(e))
    for is_view in (False, True):
        for has_grad in (False, True):
            for exc_cls in EXC_CLASSES:
                name = f"inplace[{is_view},{has_grad},{exc_cls.__name__}]"
                results = explore(harness(is_view, has_grad, exc_cls))
                k = 0
                for r in results:
                    if r.outcome == "unsupported":
                        info["unsupported"].append(f"{name}: {r.value}")
                        continue
                    k += 1
                    for o in r.ctx.obligations:
                        o.name = f"{o.name}.p{k}"
                        out.append(o)
                info["paths"] += k
    return out, info
