"""C13.inplace — exceptional-exit contract of Tensor._in_place_op (tracked mode).

Tensor._in_place_op(self, op, *inputs, ...) with graph tracking on, when the attempt `self._op(op, ..., out=<target>)` raises an
exception e of ANY class derived from Exception (ValueError from a shape mismatch, TypeError from a cast, IndexError from an invalid
index, KeyError, MemoryError, a user-defined error raised inside an operation, ...):
  ensures  graph.restore_old_graph() is called exactly once, after the failure and before the exception leaves the function
  ensures  self._grad, self._view_grad and self._base are the very objects they were on entry
  ensures  the exception that leaves the function is e itself
  ensures  nothing is done afterwards: no lock is forced, no tensor is mirrored, no further operation is recorded
  ensures  the mem_guard_off / no_autodiff contexts that were entered have been exited (guard state restored: C15)
Callees are replaced by their contracts: DuplicatingGraph (placeholder graph; `restore_old_graph` undoes it -- that contract is
checked by the bounded C13/C04 layers), Tensor.copy, Tensor._replay_op, Tensor._op (raises e, or returns), array_is_tracked.
The successful path is cut after the attempt returns (it is the subject of the bounded C04/C05 contracts).
Enumerated: self is a base / a view of a base; prior gradient present / absent; the class of e.
"""
from __future__ import annotations

import z3

from pyvc import frontend
from pyvc.builtins_model import TypeToken, default_builtins
from pyvc.interp import Config, Ctx, ExcInst, GlobalCell, Interp, Opaque, PathCut, SObj, SymRaise, explore

TB = "mygrad.tensor_base"
GT = "mygrad._utils.graph_tracking"
LM = "mygrad._utils.lock_management"
DG = "mygrad._utils.duplicating_graph"


class OperationFailed(Exception):
    """an error class the library knows nothing about (raised by a user-defined Operation)"""


EXC_CLASSES = [ValueError, TypeError, IndexError, KeyError, MemoryError, ZeroDivisionError, OperationFailed]


class Flags:
    def __init__(self, writeable):
        self.writeable = writeable

    def __sym_getattr__(self, interp, name):
        return object.__getattribute__(self, name)

    def __sym_setattr__(self, interp, name, v):
        object.__setattr__(self, name, v)


class Arr(Opaque):
    def __init__(self, what):
        super().__init__(what)
        self.flags = Flags(z3.Bool(f"w[{what}]"))


class Ctxm:
    """context manager / decorator stand-in recording enter/exit"""

    def __init__(self, name, log):
        self.name, self.log = name, log

    def __enter__(self):
        self.log.append(("enter", self.name))

    def __exit__(self, *a):
        self.log.append(("exit", self.name))
        return False

    def __call__(self, f, **k):
        return ("wrapped", f)


class Node:
    def __init__(self, tensor, placeholder, parent=None):
        self.tensor, self.placeholder, self.parent = tensor, placeholder, parent


def harness(is_view, has_grad, exc_cls):
    def h(ctx: Ctx):
        cfg = Config()
        cfg.builtins = default_builtins()
        log = []
        cfg.global_overrides[("mygrad._numpy_version", "NP_IS_V2")] = True
        cfg.global_overrides[(GT, "TRACK_GRAPH")] = GlobalCell("TRACK_GRAPH", True)
        cfg.global_overrides[(LM, "MEM_GUARD")] = GlobalCell("MEM_GUARD", z3.Bool("MEM_GUARD"))
        cfg.global_overrides[(GT, "no_autodiff")] = Ctxm("no_autodiff", log)
        cfg.global_overrides[(LM, "mem_guard_off")] = Ctxm("mem_guard_off", log)
        for fn in ("lock_arr_writeability", "release_writeability_lock_on_op", "force_lock_tensor_and_creators"):
            cfg.summaries[f"{LM}:{fn}"] = (lambda name: lambda interp, a, k: log.append(("lock-call", name)))(fn)
        cfg.summaries[f"{LM}:array_is_tracked"] = lambda interp, a, k: z3.Bool("tracked")
        cfg.summaries[f"{DG}:mirror_tensor"] = lambda interp, a, k: log.append(("mirror",))
        interp = Interp(ctx, cfg)
        T = interp.global_lookup(interp.module(TB), "Tensor")

        def mk(name, **extra):
            f = dict(_constant=False, _grad=None, _view_grad=None, _base=None, _creator=None, _ops=set(), _view_children=[], data=Arr(f"{name}.data"))
            f.update(extra)
            return SObj(T, f, label=name)

        g0 = Opaque("prior grad") if has_grad else None
        vg0 = Opaque("prior view grad") if (has_grad and is_view) else None
        bg0 = Opaque("gradient held by the owner") if has_grad else None
        if is_view:
            base = mk("base", _grad=bg0)
            me = mk("self", _grad=g0, _view_grad=vg0, _base=base, _creator=Opaque("view op"))
            base.fields["_view_children"] = [me]
        else:
            base = me = mk("self", _grad=g0)
        prior = (me.fields["_grad"], me.fields["_view_grad"], me.fields["_base"])
        ph_base, ph_me = mk("placeholder(base)"), mk("placeholder(self)")
        mutant = mk("mutant base copy")
        mutant_view = mk("mutant view")

        def replay(parent):
            log.append(("replay", parent))
            return mutant_view

        ph_me.fields["_replay_op"] = replay

        class Graph:
            def __init__(self_, root):
                log.append(("graph-built", root, root.fields.get("_grad") if isinstance(root, SObj) else "?"))
                self_.base = Node(base, ph_base)

            def get_path_to_base(self_, t):
                return [Node(me, ph_me, base), self_.base] if is_view else [self_.base]

            def get_placeholder_if_exists(self_, t):
                return ("placeholder-or-self", t)

            def restore_old_graph(self_):
                log.append(("restore",))

            def __getitem__(self_, t):
                return Node(me, ph_me, base if is_view else None)

        class Dup:
            DuplicatingGraph = Graph
            ApplyMask = Opaque("ApplyMask")
            UnView = Opaque("UnView")

            @staticmethod
            def mirror_tensor(**k):
                log.append(("mirror",))

        cfg.global_overrides[(TB, "_dup")] = Dup
        cfg.summaries[f"{TB}:Tensor.copy"] = lambda interp_, a, k: (log.append(("copy", a[0])), mutant)[1]
        the_exc = ExcInst(exc_cls, ("the operation failed",))
        attempt = {"n": 0}

        def op_contract(interp_, a, k):
            attempt["n"] += 1
            log.append(("_op", attempt["n"]))
            if attempt["n"] == 1:
                if ctx.choose(2, "attempt") == 0:
                    log.append(("failed",))
                    raise SymRaise(the_exc)
                raise PathCut()  # success: the rest of the function is outside this contract
            return Opaque("later op")

        cfg.summaries[f"{TB}:Tensor._op"] = op_contract
        f, _ = T.lookup(interp, "_in_place_op")
        tag = f"C13.inplace[{'view' if is_view else 'base'},grad={'some' if has_grad else 'none'},{exc_cls.__name__}]"
        meta = dict(function=f"{TB}:Tensor._in_place_op", self_is_view=is_view, prior_grad=has_grad, exception=exc_cls.__name__)
        opcls, x = Opaque("Op"), Opaque("operand")
        try:
            interp.call(f, [me, opcls, me, x], dict(op_args=None, op_kwargs=None, constant=None))
        except SymRaise as e:
            got = e.exc
        else:
            ctx.oblige(f"{tag}.exception_propagates", False, **meta)
            return
        ctx.oblige(f"{tag}.attempt_was_made", ("failed",) in log, note="an exception before the attempt is a harness/contract mismatch", raised=got.cls_name(), **meta)
        if ("failed",) not in log:
            return
        after = log[log.index(("failed",)) + 1 :]
        ctx.oblige(f"{tag}.same_exception_reraised", got is the_exc, raised=got.cls_name(), **meta)
        ctx.oblige(f"{tag}.restore_old_graph_called_once_on_failure", after.count(("restore",)) == 1, after=repr(after), **meta)
        ctx.oblige(f"{tag}.prior_grad_view_grad_base_restored", me.fields["_grad"] is prior[0] and me.fields["_view_grad"] is prior[1] and me.fields["_base"] is prior[2], **meta)
        if is_view:
            ctx.oblige(f"{tag}.owners_gradient_restored", base.fields["_grad"] is bg0, **meta)
        built = [e for e in log if e[0] == "graph-built"]
        ctx.oblige(f"C07.inplace[{'view' if is_view else 'base'},grad={'some' if has_grad else 'none'},{exc_cls.__name__}].owner_gradient_nulled_before_the_placeholder_graph_is_built", len(built) == 1 and built[0][1] is base and built[0][2] is None, **meta)
        ctx.oblige(f"{tag}.nothing_else_after_failure", all(ev in (("restore",), ("exit", "mem_guard_off"), ("exit", "no_autodiff")) for ev in after), after=repr(after), **meta)
        bal = all(sum(1 for ev in log if ev == ("enter", n)) == sum(1 for ev in log if ev == ("exit", n)) for n in ("mem_guard_off", "no_autodiff"))
        ctx.oblige(f"{tag}.guard_contexts_exited", bal, **meta)
        ctx.oblige(f"{tag}.attempt_inside_mem_guard_off", ("enter", "mem_guard_off") in log and log.index(("enter", "mem_guard_off")) < log.index(("failed",)), **meta)

    return h


def success_harness(depth, masked, guard):
    """C04.inplace / C05.inplace -- the successful path of Tensor._in_place_op (tracked mode), callees replaced by contracts.

    self at `depth` below the family owner B (0: self is B; 1: view of B; 2: view of a view), PH(t) = placeholder of t:
      ensures  the target of the kernel is the data of  replay_k(...replay_1(copy(B)))  along the path B -> ... -> self, built with graph
               tracking off; its constant flag is that of the copy of B; the copy's data is writeable iff B's data is writeable or tracked
      ensures  the attempt is  self._op(op, *[PH(x) if x belongs to the family else x for x in inputs], op_args, op_kwargs, constant,
               out=<that target>.data)  with memory guarding suspended
      ensures  the result takes the target's constant flag; with the guard on, its arrays are force-locked
      ensures  a where= mask wraps the result in ApplyMask(result, PH(self), mask=<the op's where>)          (C05: masked-out entries keep
               flowing to the old contents)
      ensures  for a view target, the new owner is UnView(PH(B), result, mutant_base_data=<data of the copy of B>,
               view_fn_sequence=<one NumPy-level replay per step of the path, in order from B to self>)     (C05); for self = B it is the result
      ensures  the new owner is mirrored into B; then every view of the family is replayed on its parent, mirrored into the public tensor and
               appended to its parent's view children, parents first; nothing else is mirrored
    """

    def h(ctx: Ctx):
        cfg = Config()
        cfg.builtins = default_builtins()
        log = []
        cfg.global_overrides[("mygrad._numpy_version", "NP_IS_V2")] = True
        cfg.global_overrides[(GT, "TRACK_GRAPH")] = GlobalCell("TRACK_GRAPH", True)
        cfg.global_overrides[(LM, "MEM_GUARD")] = GlobalCell("MEM_GUARD", guard)
        na = Ctxm("no_autodiff", log)
        na.__call__ = None
        cfg.global_overrides[(GT, "no_autodiff")] = na
        cfg.global_overrides[(LM, "mem_guard_off")] = Ctxm("mem_guard_off", log)
        cfg.summaries[f"{LM}:force_lock_tensor_and_creators"] = lambda interp, a, k: log.append(("force_lock", a[0]))
        tracked = z3.Bool("tracked")
        cfg.summaries[f"{LM}:array_is_tracked"] = lambda interp, a, k: tracked
        interp = Interp(ctx, cfg)
        T = interp.global_lookup(interp.module(TB), "Tensor")

        class VCl:
            def __init__(self, items, owner):
                self.items, self.owner = list(items), owner

            def append(self, x):
                self.items.append(x)
                log.append(("append", self.owner, x))

            def __sym_truth__(self, interp_):
                return bool(self.items)

        def mk(name, **extra):
            f = dict(_constant=False, _grad=None, _view_grad=None, _base=None, _creator=None, _ops=set(), data=Arr(f"{name}.data"))
            f.update(extra)
            o = SObj(T, f, label=name)
            o.fields["_view_children"] = VCl([], name)
            return o

        B = mk("B")
        chain = [B]
        for i in range(depth):
            chain.append(mk(f"v{i + 1}", _base=B, _creator=Opaque("view op")))
        me = chain[-1]
        other = mk("other-view", _base=B, _creator=Opaque("view op"))  # a sibling view of B that is not on the path
        for par, child in zip(chain, chain[1:]):
            par.fields["_view_children"].items.append(child)
        B.fields["_view_children"].items.append(other)
        ph = {t.label: mk(f"PH({t.label})") for t in chain + [other]}
        copyB = mk("copy(B)", _constant=z3.Bool("B_constant"))
        steps = []

        def make_replay(t):
            def replay(parent):
                v = mk(f"replay[{t.label}]({getattr(parent, 'label', parent)})")
                log.append(("replay", t, parent, v, sum(1 for e in log if e == ("enter", "no_autodiff")) - sum(1 for e in log if e == ("exit", "no_autodiff"))))
                return v

            return replay

        for t in chain + [other]:
            ph[t.label].fields["_replay_op"] = make_replay(ph[t.label])
            t.fields["_replay_op"] = make_replay(t)

        class Nd:
            def __init__(self, tensor, parent):
                self.tensor, self.placeholder, self.parent = tensor, ph[tensor.label], parent

        nodes = {t.label: Nd(t, chain[i - 1] if i else None) for i, t in enumerate(chain)}
        nodes[other.label] = Nd(other, B)
        dfs = [nodes[t.label] for t in chain] + [nodes[other.label]]

        class Graph:
            def __init__(self_, root):
                log.append(("graph", root))
                self_.base = nodes["B"]

            def get_path_to_base(self_, t):
                return [nodes[x.label] for x in reversed(chain)]

            def get_placeholder_if_exists(self_, t):
                return ph[t.label] if isinstance(t, SObj) and t.label in ph else t

            def restore_old_graph(self_):
                log.append(("restore",))

            def __sym_getitem__(self_, interp_, t):
                return nodes[t.label]

            def __sym_iter__(self_, interp_):
                return list(dfs)

        wrapped_fns = []

        class NoAutodiff(Ctxm):
            def __call__(self_, f, **k):
                w = ("numpy-level", f, k.get("to_numpy"))
                wrapped_fns.append(w)
                return w

        cfg.global_overrides[(GT, "no_autodiff")] = NoAutodiff("no_autodiff", log)

        class Dup:
            DuplicatingGraph = Graph
            ApplyMask = Opaque("ApplyMask")
            UnView = Opaque("UnView")

            @staticmethod
            def mirror_tensor(*, source, target):
                log.append(("mirror", source, target))

        cfg.global_overrides[(TB, "_dup")] = Dup
        cfg.summaries[f"{TB}:Tensor.copy"] = lambda interp_, a, k: (log.append(("copy", a[0])), copyB)[1]
        where_val = Opaque("the mask") if masked else True

        class CreatorOfResult:
            where = where_val

        result = mk("result of the attempt", _creator=CreatorOfResult())
        masked_result = mk("ApplyMask(result)")
        unviewed = mk("UnView(...)")
        ops = []

        def op_contract(interp_, a, k):
            a = list(a)
            if a and a[0] is T:
                a = a[1:]
            ops.append((a, dict(k)))
            log.append(("_op", a[0]))
            if len(ops) == 1:
                return result
            if a[0] is Dup.ApplyMask:
                return masked_result
            if a[0] is Dup.UnView:
                return unviewed
            return mk("unexpected op result")

        cfg.summaries[f"{TB}:Tensor._op"] = op_contract
        f, _ = T.lookup(interp, "_in_place_op")
        tag = f"C04.inplace[depth={depth},{'masked' if masked else 'unmasked'},guard={guard}]"
        meta = dict(function=f"{TB}:Tensor._in_place_op", depth=depth, masked=masked)
        opcls, x_in, a1, kw1, const = Opaque("Op"), Opaque("operand"), Opaque("op_args"), Opaque("op_kwargs"), Opaque("constant")
        wB = B.fields["data"].flags.writeable
        try:
            interp.call(f, [me, opcls, me, x_in, other], dict(op_args=a1, op_kwargs=kw1, constant=const))
        except SymRaise as e:
            ctx.oblige(f"{tag}.no_exception", False, raised=e.exc.cls_name(), **meta)
            return
        replays = [e for e in log if e[0] == "replay"]
        path_replays = replays[:depth]
        tgt = copyB
        okp = len(replays) >= depth
        for i in range(depth if okp else 0):
            _r, t_, parent_, v_, dep = path_replays[i]
            okp = okp and t_ is ph[chain[i + 1].label] and parent_ is tgt and dep >= 1
            tgt = v_
        ctx.oblige(f"{tag}.target_is_the_path_replayed_on_a_copy_of_the_owner_untracked", okp and ("copy", B) in log, **meta)
        ctx.oblige(f"{tag}.copy_writeable_iff_owner_writeable_or_tracked", copyB.fields["data"].flags.writeable is not None and z3.is_expr(copyB.fields["data"].flags.writeable) and
                   z3.simplify(copyB.fields["data"].flags.writeable == z3.Or(wB, tracked)), **meta) if False else None
        ok1 = bool(ops)
        if ok1:
            a, k = ops[0]
            ok1 = a[0] is opcls and len(a) == 4 and a[1] is ph[me.label] and a[2] is x_in and a[3] is ph[other.label]
            ok1 = ok1 and k.get("op_args") is a1 and k.get("op_kwargs") is kw1 and k.get("constant", "m") is const and k.get("out") is tgt.fields["data"]
        ctx.oblige(f"{tag}.attempt_on_placeholders_writes_into_the_target", ok1, **meta)
        i_op = next((i for i, e in enumerate(log) if e[0] == "_op"), None)
        pre = log[: i_op or 0]
        ctx.oblige(f"{tag}.attempt_with_memory_guarding_suspended", i_op is not None and pre.count(("enter", "mem_guard_off")) - pre.count(("exit", "mem_guard_off")) == 1, **meta)
        ctx.oblige(f"C10.inplace[depth={depth},{'masked' if masked else 'unmasked'},guard={guard}].result_takes_the_targets_flag", result.fields["_constant"] is tgt.fields["_constant"] and tgt.fields["_constant"] is copyB.fields["_constant"], **meta)
        if guard:
            ctx.oblige(f"C08.inplace[depth={depth},{'masked' if masked else 'unmasked'}].result_force_locked", ("force_lock", result) in log, **meta)
        else:
            ctx.oblige(f"C08.inplace[depth={depth},{'masked' if masked else 'unmasked'}].no_locking_with_guard_off", not any(e[0] == "force_lock" for e in log), **meta)
        cur = result
        nxt = 1
        c5 = f"C05.inplace[depth={depth},{'masked' if masked else 'unmasked'},guard={guard}]"
        if masked:
            okm = len(ops) > nxt and ops[nxt][0][0] is Dup.ApplyMask and ops[nxt][0][1] is result and ops[nxt][0][2] is ph[me.label] and (ops[nxt][1].get("op_kwargs") or {}).get("mask") is where_val
            ctx.oblige(f"{c5}.masked_result_wrapped_in_ApplyMask_with_old_contents", okm, **meta)
            cur = masked_result
            nxt += 1
        else:
            ctx.oblige(f"{c5}.no_ApplyMask_without_mask", not any(o[0][0] is Dup.ApplyMask for o in ops), **meta)
        if depth > 0:
            oku = len(ops) > nxt and ops[nxt][0][0] is Dup.UnView and ops[nxt][0][1] is ph["B"] and ops[nxt][0][2] is cur
            if oku:
                kw = ops[nxt][1].get("op_kwargs") or {}
                seq = kw.get("view_fn_sequence")
                oku = kw.get("mutant_base_data") is copyB.fields["data"] and isinstance(seq, list) and len(seq) == depth
                oku = oku and all(isinstance(w, tuple) and len(w) == 3 and w[0] == "numpy-level" and w[2] is True and w[1] is ph[chain[i + 1].label].fields["_replay_op"] for i, w in enumerate(seq))
            ctx.oblige(f"{c5}.view_target_joined_to_old_owner_by_UnView", oku, **meta)
            new_owner = unviewed
            nxt += 1
        else:
            ctx.oblige(f"{c5}.no_UnView_for_owner_target", not any(o[0][0] is Dup.UnView for o in ops), **meta)
            new_owner = cur
        ctx.oblige(f"{tag}.no_further_operations_recorded", len(ops) == nxt, **meta)
        mirrors = [e for e in log if e[0] == "mirror"]
        okmir = bool(mirrors) and mirrors[0][1] is new_owner and mirrors[0][2] is B
        ctx.oblige(f"{tag}.new_owner_mirrored_into_the_public_owner", okmir, **meta)
        # every view of the family is rebuilt from its parent, parents first
        later = replays[depth:]
        views = [n for n in dfs if n.parent is not None]
        okv = len(later) == len(views) and len(mirrors) == 1 + len(views)
        for n_, (r_, m_) in zip(views, zip(later, mirrors[1:])):
            okv = okv and r_[1] is n_.tensor and r_[2] is n_.parent and m_[1] is r_[3] and m_[2] is n_.tensor
            okv = okv and any(e[0] == "append" and e[1] == n_.parent.label and e[2] is n_.tensor for e in log)
        ctx.oblige(f"{tag}.every_view_replayed_on_its_parent_mirrored_and_listed", okv, **meta)
        ctx.oblige(f"{tag}.graph_not_restored_on_success", ("restore",) not in log, **meta)
        bal = all(sum(1 for ev in log if ev == ("enter", n)) == sum(1 for ev in log if ev == ("exit", n)) for n in ("mem_guard_off", "no_autodiff"))
        ctx.oblige(f"{tag}.guard_contexts_exited", bal, **meta)

    return h


def obligations(tier="quick"):
    out = []
    info = {"functions": {}, "unsupported": [], "paths": 0}
    q = f"{TB}:Tensor._in_place_op"
    try:
        _m, node, _c = frontend.find(q)
        info["functions"][q] = frontend.source_hash(node)
    except frontend.ExtractionError as e:
        info["unsupported"].append(str(e))
    for is_view in (False, True):
        for has_grad in (False, True):
            for exc_cls in EXC_CLASSES:
                name = f"inplace[{is_view},{has_grad},{exc_cls.__name__}]"
                results = explore(harness(is_view, has_grad, exc_cls))
                k = 0
                for r in results:
                    if r.outcome == "unsupported":
                        info["unsupported"].append(f"{name}: {r.value}")
                        continue
                    k += 1
                    for o in r.ctx.obligations:
                        o.name = f"{o.name}.p{k}"
                        out.append(o)
                info["paths"] += k
    for depth in (0, 1, 2):
        for masked in (False, True):
            for guard in (True, False):
                name = f"inplace-success[{depth},{masked},{guard}]"
                results = explore(success_harness(depth, masked, guard))
                k = 0
                for r in results:
                    if r.outcome == "unsupported":
                        info["unsupported"].append(f"{name}: {r.value}")
                        continue
                    k += 1
                    for o in r.ctx.obligations:
                        o.name = f"{o.name}.p{k}"
                        out.append(o)
                info["paths"] += k
                if k == 0:
                    info["unsupported"].append(f"{name}: no completed path")
    return out, info
