"""C17.tensor — contracts of tensor(), astensor(), asarray() in tensor_base.py.

tensor(x, dtype, constant, copy, ndmin):
  Same := x is a Tensor /\\ copy is False /\\ (constant is None \\/ x.constant is constant) /\\ (dtype is None \\/ x.dtype == np.dtype(dtype))
  Same /\\ ndmin not Integral          -> raises TypeError
  Same /\\ max(ndmin,0) <= x.ndim      -> returns x itself (graph and gradient intact: nothing is called on it)
  Same /\\ ndmin > x.ndim              -> returns x[(None,)*(ndmin-x.ndim)]  (a view of x)
  not Same                             -> returns Tensor(x, dtype=dtype, constant=constant, copy=copy, ndmin=ndmin), arguments unchanged
astensor(t, dtype, constant) == tensor(t, dtype=dtype, constant=constant, copy=False, ndmin=0)
asarray(a, dtype, order)     == np.asarray(a.data if a is a Tensor else a, dtype=dtype, order=order)
ndmin / ndim are enumerated over 0..3 (tuple building is concrete); flags and dtypes are symbolic.
"""
from __future__ import annotations

import itertools

import z3

from pyvc import frontend
from pyvc.builtins_model import default_builtins
from pyvc.interp import Config, Ctx, Interp, Opaque, SObj, SymRaise, explore

TB = "mygrad.tensor_base"


class Data:
    def __init__(self, dtype, ndim):
        self.dtype, self.ndim = dtype, ndim
        self.shape = Opaque("shape")

    # any array method that allocates returns a *different* array object: identity-based obligations then see the copy
    def copy(self, *a, **k):
        return Data(self.dtype, self.ndim)

    def astype(self, dtype=None, *a, **k):
        return Data(dtype, self.ndim)

    def view(self, *a, **k):
        return Data(self.dtype, self.ndim)


def setup(ctx):
    cfg = Config()
    cfg.builtins = default_builtins()
    rec = {"ctor": [], "op": [], "np": []}

    class NP:
        @staticmethod
        def dtype(x):
            return x  # dtypes are abstract ids; np.dtype is the identity on them

        @staticmethod
        def asarray(a, dtype=None, order=None, **k):
            rec["np"].append((a, dtype, order, k))
            return Opaque("np.asarray result")

    cfg.module_overrides["numpy"] = NP

    # a dtype is a symbolic id; the attributes of a dtype object are uninterpreted functions of the id: two dtypes with the same scalar type /
    # kind / item size need not be the same dtype (byte order, C-type aliases)
    def dtype_attr(interp_, e, name):
        if z3.is_int(e) and name in ("type", "kind", "itemsize", "char", "name", "byteorder", "num"):
            return z3.Function(f"DTYPE_{name}", z3.IntSort(), z3.IntSort())(e)
        return None

    cfg.expr_attr_hook = dtype_attr
    interp = Interp(ctx, cfg)
    T = interp.global_lookup(interp.module(TB), "Tensor")

    def ctor(interp_, args, kwargs):
        rec["ctor"].append((args, kwargs))
        return Opaque("new tensor")

    def op(interp_, args, kwargs):
        rec["op"].append((args, kwargs))
        return Opaque("view")

    cfg.summaries[f"{TB}:Tensor"] = ctor
    cfg.summaries[f"{TB}:Tensor._op"] = op
    return cfg, interp, T, rec


def tensor_harness(fn, kind, ndim, ndmin):
    def h(ctx: Ctx):
        cfg, interp, T, rec = setup(ctx)
        xc, xdt = z3.Bool("x_constant"), z3.Int("x_dtype")
        if kind == "tensor":
            x = SObj(T, dict(_constant=xc, data=Data(xdt, ndim)), label="x")
        else:
            x = Opaque("array-like")
        f = interp.global_lookup(interp.module(TB), fn)
        meta = dict(function=f"{TB}:{fn}", input=kind, ndim=ndim, ndmin=repr(ndmin))
        tag = f"C17.{fn}[{kind},ndim={ndim},ndmin={ndmin!r}]"
        const_kind = ctx.choose(2, "constant")  # None | bool
        constant = None if const_kind == 0 else z3.Bool("constant")
        dt_kind = ctx.choose(2, "dtype")
        dtype = None if dt_kind == 0 else z3.Int("dtype")
        if fn == "tensor":
            copy_kind = ctx.choose(2, "copy")
            copy = [True, False][copy_kind]
            kwargs = dict(dtype=dtype, constant=constant, copy=copy, ndmin=ndmin)
        else:
            copy = False
            ndmin_eff = 0
            kwargs = dict(dtype=dtype, constant=constant)
        nd = ndmin if fn == "tensor" else 0
        same = z3.BoolVal(kind == "tensor" and copy is False)
        if kind == "tensor":
            if constant is not None:
                same = z3.And(same, xc == constant)
            if dtype is not None:
                same = z3.And(same, xdt == dtype)
        try:
            r = interp.call(f, [x], kwargs)
        except SymRaise as e:
            ctx.oblige(f"{tag}.TypeError_only_for_bad_ndmin", z3.And(same, z3.BoolVal(not isinstance(nd, int) and e.exc.cls is TypeError)), raised=e.exc.cls_name(), **meta)
            return
        if not isinstance(nd, int):
            ctx.oblige(f"{tag}.bad_ndmin_rejected_when_returning_as_is", z3.Not(same), **meta)
        if r is x:
            ctx.oblige(f"{tag}.as_is_only_if_same", z3.And(same, z3.BoolVal(isinstance(nd, int) and max(nd, 0) <= ndim)), **meta)
            ctx.oblige(f"{tag}.as_is_untouched", not rec["ctor"] and not rec["op"] and (kind != "tensor" or set(x.fields) == {"_constant", "data"}), **meta)
        elif rec["op"]:
            (args, kw), = rec["op"] if len(rec["op"]) == 1 else [((), {})]
            ok = len(rec["op"]) == 1 and len(args) == 3 and getattr(args[1], "name", None) == "GetItem" and args[2] is x and kw.get("op_args") == ((None,) * (nd - ndim),) and not rec["ctor"]
            ctx.oblige(f"{tag}.view_with_leading_axes", ok, **meta)
            ctx.oblige(f"{tag}.view_only_if_same_and_more_dims", z3.And(same, z3.BoolVal(isinstance(nd, int) and nd > ndim)), **meta)
        else:
            ctx.oblige(f"{tag}.constructs_only_if_not_same", z3.Not(same), **meta)
            ok = len(rec["ctor"]) == 1
            if ok:
                args, kw = rec["ctor"][0]
                ok = len(args) == 1 and args[0] is x and set(kw) == {"dtype", "constant", "copy", "ndmin"} and kw["dtype"] is dtype and kw["constant"] is constant and kw["copy"] is copy and kw["ndmin"] is (ndmin if fn == "tensor" else 0)
            ctx.oblige(f"{tag}.constructor_gets_callers_arguments", ok, **meta)

    return h


def asarray_defaults_harness(kind):
    """asarray(a) with every option left at its default must be np.asarray(a) with NumPy's own defaults (dtype=None, order=None:
    keep the layout, never copy an array that already has the dtype)"""

    def h(ctx: Ctx):
        cfg, interp, T, rec = setup(ctx)
        d = Data(z3.Int("x_dtype"), 2)
        x = SObj(T, dict(_constant=z3.Bool("c"), data=d), label="x") if kind == "tensor" else Opaque("array-like")
        f = interp.global_lookup(interp.module(TB), "asarray")
        interp.call(f, [x], {})
        meta = dict(function=f"{TB}:asarray", input=kind)
        ok = len(rec["np"]) == 1 and rec["np"][0][0] is (d if kind == "tensor" else x) and rec["np"][0][1] is None and rec["np"][0][2] is None and not rec["np"][0][3]
        ctx.oblige(f"C17.asarray[{kind}].defaults_are_numpys_defaults", ok, got=repr(rec["np"][0][1:3]) if rec["np"] else None, **meta)

    return h


def asarray_harness(kind):
    def h(ctx: Ctx):
        cfg, interp, T, rec = setup(ctx)
        d = Data(z3.Int("x_dtype"), 2)
        x = SObj(T, dict(_constant=z3.Bool("c"), data=d), label="x") if kind == "tensor" else Opaque("array-like")
        f = interp.global_lookup(interp.module(TB), "asarray")
        dt, order = Opaque("dtype"), Opaque("order")
        r = interp.call(f, [x], dict(dtype=dt, order=order))
        meta = dict(function=f"{TB}:asarray", input=kind)
        ok = len(rec["np"]) == 1 and rec["np"][0][0] is (d if kind == "tensor" else x) and rec["np"][0][1] is dt and rec["np"][0][2] is order and not rec["np"][0][3]
        ctx.oblige(f"C17.asarray[{kind}].np_asarray_on_underlying_array", ok, **meta)
        ctx.oblige(f"C17.asarray[{kind}].no_tensor_created", not rec["ctor"] and not rec["op"], **meta)

    return h


def obligations(tier="quick"):
    out = []
    info = {"functions": {}, "unsupported": [], "paths": 0}
    for q in (f"{TB}:tensor", f"{TB}:astensor", f"{TB}:asarray"):
        try:
            _m, node, _c = frontend.find(q)
            info["functions"][q] = frontend.source_hash(node)
        except frontend.ExtractionError as e:
            info["unsupported"].append(str(e))
    hs = []
    for kind in ("tensor", "other"):
        for ndim in (0, 1, 2):
            for ndmin in (-1, 0, 1, 3, 2.0, "2"):
                hs.append((f"tensor[{kind},{ndim},{ndmin}]", tensor_harness("tensor", kind, ndim, ndmin)))
            hs.append((f"astensor[{kind},{ndim}]", tensor_harness("astensor", kind, ndim, 0)))
        hs.append((f"asarray[{kind}]", asarray_harness(kind)))
        hs.append((f"asarray-defaults[{kind}]", asarray_defaults_harness(kind)))
    for name, h in hs:
        results = explore(h)
        k = 0
        for r in results:
            if r.outcome == "unsupported":
                info["unsupported"].append(f"{name}: {r.value}")
                continue
            k += 1
            for o in r.ctx.obligations:
                o.name = f"{o.name}.p{k}"
                out.append(o)
        info["paths"] += k
        if k == 0:
            info["unsupported"].append(f"{name}: no completed path")
    return out, info
