"""C11.dunder — call-equivalence of the operator methods of Tensor.

For every arithmetic / indexing dunder the executor runs the method's AST with `_op` / `_in_place_op`
replaced by recording contracts and shows that exactly one of them is reached with the Operation class and
operand order of the corresponding MyGrad function (table SPEC below, taken from the operators' meaning: `a - b`
is subtract(a, b), `b - a` via __rsub__ is subtract(b, a), `a -= b` is subtract(a, b, out=a), ...), with no
other argument, and that the augmented forms return `self`.  `**` with exponent 1 / 2 is routed to
positive / square (value- and VJP-equal to power at that exponent: C02.elem side obligations); every other
exponent reaches power(self, other).
"""
from __future__ import annotations

import numbers

from pyvc import frontend
from pyvc.builtins_model import TypeToken, default_builtins
from pyvc.interp import Config, Ctx, Interp, Opaque, SObj, SymRaise, explore

TB = "mygrad.tensor_base"

# method -> (Operation class, operand order with 's' = self, 'o' = other, in-place?)
SPEC = {
    "__add__": ("Add", "so", False), "__radd__": ("Add", "os", False), "__iadd__": ("Add", "so", True),
    "__sub__": ("Subtract", "so", False), "__rsub__": ("Subtract", "os", False), "__isub__": ("Subtract", "so", True),
    "__mul__": ("Multiply", "so", False), "__rmul__": ("Multiply", "os", False), "__imul__": ("Multiply", "so", True),
    "__truediv__": ("Divide", "so", False), "__rtruediv__": ("Divide", "os", False), "__itruediv__": ("Divide", "so", True),
    "__matmul__": ("MatMul", "so", False), "__rmatmul__": ("MatMul", "os", False),
    "__rpow__": ("Power", "os", False),
    "__neg__": ("Negative", "s", False), "__pos__": ("Positive", "s", False),
}


class Arr0(Opaque):
    ndim = 0

    def __init__(self, val):
        super().__init__("0-d array")
        self.val = val

    def __sym_eq__(self, interp, other):
        return self.val == other


class SymNumber:
    """an arbitrary Python/NumPy number: isinstance(_, Number) holds and `_ == c` is a symbolic condition, so any special-casing of a
    particular value (1, 2, 0, ...) forks a path on which that value is the operand"""

    def __init__(self):
        import z3

        self.val = z3.Real("other_number")

    def __sym_isinstance__(self, interp, T):
        name = getattr(T, "__name__", None) or getattr(T, "name", None) or str(T)
        if isinstance(T, tuple):
            return any(self.__sym_isinstance__(interp, t) for t in T)
        return name in ("Number", "Real", "Integral", "int", "float") or T is numbers.Number

    def __sym_eq__(self, interp, other):
        import z3

        if isinstance(other, (int, float)) and not isinstance(other, bool):
            return self.val == other
        if isinstance(other, bool):
            return self.val == int(other)
        return False

    def __repr__(self):
        return "<an arbitrary number>"


def run_method(ctx, meth, other):
    cfg = Config()
    cfg.builtins = default_builtins()

    class NP:
        ndarray = TypeToken("ndarray", lambda interp, v: isinstance(v, Arr0) or (isinstance(v, Opaque) and v.what == "ndarray"))

        @staticmethod
        def shares_memory(a, b, *x, **k):
            # whether two operands overlap in memory is arbitrary: a dunder must hand over the same operand either way
            return ctx.fresh("shares_memory", "bool")

        may_share_memory = shares_memory

    cfg.module_overrides["numpy"] = NP
    cfg.builtins["numbers.Number"] = numbers.Number
    interp = Interp(ctx, cfg)
    T = interp.global_lookup(interp.module(TB), "Tensor")
    rec = []
    ret = Opaque("result")

    def op(interp_, a, k):
        rec.append(("_op", a, k))
        return ret

    def iop(interp_, a, k):
        rec.append(("_in_place_op", a, k))
        return None

    cfg.summaries[f"{TB}:Tensor._op"] = op
    cfg.summaries[f"{TB}:Tensor._in_place_op"] = iop
    # derived tensors (copies, casts, views) of an operand are different objects: handing one over instead of the operand is visible
    for mname in ("copy", "astype", "__copy__", "reshape", "view"):
        cfg.summaries[f"{TB}:Tensor.{mname}"] = (lambda mname: lambda i_, a, k: SObj(T, {"data": Opaque("ndarray")}, label=f"{getattr(a[0], 'label', '?')}.{mname}()"))(mname)
    if other is _TENSOR:
        other = SObj(T, {"data": Opaque("ndarray"), "_constant": ctx.fresh("other_constant", "bool"), "_base": None}, label="other tensor")
    me = SObj(T, {"data": Opaque("ndarray")}, label="self")
    f, _ = T.lookup(interp, meth)
    args = [me] + ([] if other is _NONE else [other])
    r = interp.call(f, args, {})
    return me, other, rec, r, ret


_NONE = object()
_TENSOR = object()


def _check(ctx, tag, meta, me, other, rec, r, ret, opname, order, inplace):
    ok = len(rec) == 1
    ctx.oblige(f"{tag}.single_dispatch", ok, **meta)
    if not ok:
        return
    kind, a, k = rec[0]
    ctx.oblige(f"{tag}.entry_point", kind == ("_in_place_op" if inplace else "_op"), **meta)
    # positional layout: [receiver(cls or self), OpClass, *operands]
    opcls = a[1]
    operands = a[2:]
    exp = [me if c == "s" else other for c in order]
    ctx.oblige(f"{tag}.operation_class", getattr(opcls, "name", None) == opname, got=getattr(opcls, "name", None), **meta)
    ctx.oblige(f"{tag}.operands_in_order", len(operands) == len(exp) and all(x is y for x, y in zip(operands, exp)), **meta)
    ctx.oblige(f"{tag}.no_extra_arguments", not k, **meta)
    ctx.oblige(f"{tag}.returns", (r is me) if inplace else (r is ret), **meta)
    if inplace:
        ctx.oblige(f"{tag}.inplace_target_is_self", a[0] is me, **meta)


def binary_harness(meth, other_kind="opaque"):
    def h(ctx: Ctx):
        other = {"opaque": lambda: Opaque("other"), "number": SymNumber, "one": lambda: 1, "one.0": lambda: 1.0, "two": lambda: 2, "zero": lambda: 0, "true": lambda: True,
                 "half": lambda: 0.5, "minus-one": lambda: -1, "arr1": lambda: Arr0(1), "tensor": lambda: _TENSOR}[other_kind]()
        opname, order, inplace = SPEC[meth]
        me, other, rec, r, ret = run_method(ctx, meth, _NONE if order == "s" else other)
        tag = f"C11.dunder.{meth}" if other_kind == "opaque" else f"C11.dunder.{meth}[other={other_kind}]"
        _check(ctx, tag, dict(function=f"{TB}:Tensor.{meth}", other=other_kind), me, other, rec, r, ret, opname, order, inplace)

    return h


def pow_harness(meth, exponent_kind):
    def h(ctx: Ctx):
        other = {"int1": 1, "float1": 1.0, "int2": 2, "float2": 2.0, "arr1": Arr0(1), "arr2": Arr0(2), "int3": 3, "float": 0.5, "arr3": Arr0(3), "tensor": _TENSOR, "array": Opaque("ndarray-nd")}[exponent_kind]
        me, other, rec, r, ret = run_method(ctx, meth, other)
        inplace = meth == "__ipow__"
        if exponent_kind in ("int1", "float1", "arr1"):
            opname, order = "Positive", "s"
        elif exponent_kind in ("int2", "float2", "arr2"):
            opname, order = "Square", "s"
        else:
            opname, order = "Power", "so"
        _check(ctx, f"C11.dunder.{meth}[{exponent_kind}]", dict(function=f"{TB}:Tensor.{meth}", exponent=exponent_kind), me, other, rec, r, ret, opname, order, inplace)

    return h


def item_harness(ctx: Ctx):
    key, val = Opaque("key"), Opaque("value")
    me, _o, rec, r, ret = run_method(ctx, "__getitem__", key)
    meta = dict(function=f"{TB}:Tensor.__getitem__")
    ok = len(rec) == 1 and rec[0][0] == "_op" and getattr(rec[0][1][1], "name", None) == "GetItem" and rec[0][1][2:] == [me] and rec[0][2] == {"op_args": (key,)}
    ctx.oblige("C11.dunder.__getitem__", ok and r is ret, **meta)


def setitem_harness(ctx: Ctx, value_kind="opaque"):
    key, val = Opaque("key"), Opaque("value")
    cfgless = None
    cfg = Config()
    cfg.builtins = default_builtins()

    class NP:
        ndarray = TypeToken("ndarray", lambda interp, v: isinstance(v, Opaque) and v.what == "ndarray")

        @staticmethod
        def shares_memory(a, b, *x, **k):
            return ctx.fresh("shares_memory", "bool")

        may_share_memory = shares_memory

    cfg.module_overrides["numpy"] = NP
    interp = Interp(ctx, cfg)
    T = interp.global_lookup(interp.module(TB), "Tensor")
    for mname in ("copy", "astype", "__copy__"):
        cfg.summaries[f"{TB}:Tensor.{mname}"] = (lambda mname: lambda i_, a, k: SObj(T, {"data": Opaque("ndarray")}, label=f"value.{mname}()"))(mname)
    if value_kind == "tensor":
        val = SObj(T, {"data": Opaque("ndarray"), "_base": None}, label="value tensor")
    rec = []
    cfg.summaries[f"{TB}:Tensor._in_place_op"] = lambda i_, a, k: rec.append((a, k))
    cfg.summaries[f"{TB}:Tensor._op"] = lambda i_, a, k: rec.append(("_op", a, k))
    me = SObj(T, {"data": Opaque("ndarray")}, label="self")
    f, _ = T.lookup(interp, "__setitem__")
    r = interp.call(f, [me, key, val], {})
    ok = len(rec) == 1 and len(rec[0]) == 2 and rec[0][0][0] is me and getattr(rec[0][0][1], "name", None) == "SetItem" and rec[0][0][2:] == [me, val] and rec[0][1] == {"op_args": (key,)}
    ctx.oblige("C11.dunder.__setitem__" + ("" if value_kind == "opaque" else f"[value={value_kind}]"), ok and r is None, function=f"{TB}:Tensor.__setitem__")


def obligations(tier="quick"):
    out = []
    info = {"functions": {}, "unsupported": [], "paths": 0}
    hs = []
    for meth in SPEC:
        hs.append((meth, binary_harness(meth)))
        if SPEC[meth][1] != "s":
            # the operand's VALUE must not change which operation is recorded (only `**` has a documented value-dependent routing)
            for ok_ in ("number", "one", "one.0", "two", "zero", "true", "half", "minus-one", "arr1", "tensor"):
                hs.append((f"{meth}[{ok_}]", binary_harness(meth, ok_)))
    for meth in ("__pow__", "__ipow__"):
        for ek in ("int1", "float1", "int2", "float2", "arr1", "arr2", "int3", "float", "arr3", "tensor", "array"):
            hs.append((f"{meth}[{ek}]", pow_harness(meth, ek)))
    hs += [("__getitem__", item_harness), ("__setitem__", setitem_harness), ("__setitem__[tensor]", lambda ctx: setitem_harness(ctx, "tensor"))]
    for meth in list(SPEC) + ["__pow__", "__ipow__", "__getitem__", "__setitem__"]:
        try:
            _m, node, _c = frontend.find(f"{TB}:Tensor.{meth}")
            info["functions"][f"{TB}:Tensor.{meth}"] = frontend.source_hash(node)
        except frontend.ExtractionError as e:
            info["unsupported"].append(str(e))
    for name, h in hs:
        results = explore(h)
        k = 0
        for r in results:
            if r.outcome == "unsupported":
                info["unsupported"].append(f"{name}: {r.value}")
                continue
            k += 1
            for o in r.ctx.obligations:
                o.name = f"{o.name}.p{k}"
                out.append(o)
        info["paths"] += k
        if k == 0:
            info["unsupported"].append(f"{name}: no completed path")
    return out, info
