"""C08.sets — contracts of the three lock-set helpers of lock_management.py that Tensor._op's contract (c_op.py) assumes.

unique_arrs_and_bases(tensors)   (generator)
  ensures  the yielded sequence contains every tensor's data array and every non-None `.base` of those arrays exactly once
           (by identity), and nothing else
  ensures  a base is yielded before every array that is a view of it (bases are unlocked first when the sequence is released)
  ensures  no array is written, nothing but `.data` / `.base` is read
release_writeability_lock_on_op(arr_refs)
  ensures  _release_lock_on_arr_writeability is called exactly once per live array of arr_refs, in order, and nothing else happens
lock_unique_arrs_and_bases(tensors)     (added by the repair of defect F26; see lockset_harness)
  ensures  arrays that are read-only in their own right in the ENTRY state are neither locked nor tracked nor returned; every other array of
           unique_arrs_and_bases(tensors) is locked exactly once and returned
force_lock_tensor_and_creators(tensor)
  ensures  every array of unique_arrs_and_bases(tensor.creator.variables) is locked exactly once (not forced), then tensor.data is
           locked with force_lock=True (an in-place target is already read-only: it must be *tracked* so that it is released later)
  ensures  exactly one finalizer is registered, on tensor.creator, calling release_writeability_lock_on_op on exactly
           [those arrays..., tensor.data]
Enumerated: 1..3 tensors and every aliasing pattern among their arrays over the shapes {owner, view of owner X, view of owner Y,
same array as an earlier tensor}; everything else about the arrays is opaque.
"""
from __future__ import annotations

import itertools

from pyvc import frontend
from pyvc.builtins_model import default_builtins
from pyvc.interp import Config, Ctx, Interp, Opaque, SObj, SymRaise, explore

LM = "mygrad._utils.lock_management"
TB = "mygrad.tensor_base"


class Arr:
    def __init__(self, name, base=None, log=None):
        self.name, self._base, self.log = name, base, log

    def __sym_getattr__(self, interp, attr):
        if attr == "base":
            return self._base
        self.log.append(("read", self.name, attr))
        raise SymRaise.__new__(SymRaise)  # never reached: any other attribute read is reported below

    def __sym_setattr__(self, interp, attr, v):
        self.log.append(("write", self.name, attr))

    def __sym_id__(self, interp):
        return ("arr-id", self.name)

    def __repr__(self):
        return f"<arr {self.name}>"


def patterns(n):
    """aliasing patterns: per tensor one of  own | viewX | viewY | same<i>"""
    opts = ["own", "viewX", "viewY"]
    for combo in itertools.product(*[opts + [f"same{j}" for j in range(i)] for i in range(n)]):
        yield combo


def build(pattern, log):
    X, Y = Arr("X", None, log), Arr("Y", None, log)
    arrs = []
    for i, p in enumerate(pattern):
        if p == "own":
            arrs.append(Arr(f"a{i}", None, log))
        elif p == "viewX":
            arrs.append(Arr(f"a{i}", X, log))
        elif p == "viewY":
            arrs.append(Arr(f"a{i}", Y, log))
        else:
            arrs.append(arrs[int(p[4:])])
    return arrs


def expected_members(arrs):
    out = []
    for a in arrs:
        for q in (a._base, a):
            if q is not None and not any(q is s for s in out):
                out.append(q)
    return out


def unique_harness(pattern):
    def h(ctx: Ctx):
        cfg = Config()
        cfg.builtins = default_builtins()
        interp = Interp(ctx, cfg)
        log = []
        arrs = build(pattern, log)

        class T:
            def __init__(self, a):
                self.data = a

        tensors = [T(a) for a in arrs]
        f = interp.global_lookup(interp.module(LM), "unique_arrs_and_bases")
        tag = f"C08.unique[{','.join(pattern)}]"
        meta = dict(function=f"{LM}:unique_arrs_and_bases", pattern=list(pattern))
        try:
            got = list(interp.iterate_concrete(interp.call(f, [tensors], {})))
        except SymRaise as e:
            ctx.oblige(f"{tag}.no_exception", False, raised=e.exc.cls_name(), **meta)
            return
        exp = expected_members(arrs)
        ctx.oblige(f"{tag}.every_array_and_base_exactly_once", len(got) == len(exp) and all(sum(1 for g in got if g is e) == 1 for e in exp), got=repr(got), expected=repr(exp), **meta)
        ctx.oblige(f"{tag}.nothing_else", all(any(g is e for e in exp) for g in got), **meta)
        pos = {id(g): i for i, g in enumerate(got)}
        ok = all(a._base is None or (id(a._base) in pos and id(a) in pos and pos[id(a._base)] < pos[id(a)]) for a in arrs)
        ctx.oblige(f"{tag}.base_before_its_views", ok, got=repr(got), **meta)
        ctx.oblige(f"{tag}.pure", not log, log=repr(log), **meta)

    return h


def release_harness(n, dead):
    def h(ctx: Ctx):
        cfg = Config()
        cfg.builtins = default_builtins()
        calls = []
        cfg.summaries[f"{LM}:_release_lock_on_arr_writeability"] = lambda i_, a, k: calls.append(a[0])
        interp = Interp(ctx, cfg)
        log = []
        arrs = [Arr(f"a{i}", None, log) for i in range(n)]
        live = [a for i, a in enumerate(arrs) if i not in dead]

        class Refs:  # WeakRefIterable: iteration yields the referents that are still alive (contract of WeakRefIterable.__iter__, c04_graph)
            def __sym_iter__(self, interp_):
                return list(live)

        f = interp.global_lookup(interp.module(LM), "release_writeability_lock_on_op")
        tag = f"C08.release_op[n={n},dead={sorted(dead)}]"
        meta = dict(function=f"{LM}:release_writeability_lock_on_op")
        try:
            interp.call(f, [Refs()], {})
        except SymRaise as e:
            ctx.oblige(f"{tag}.no_exception", False, raised=e.exc.cls_name(), **meta)
            return
        ctx.oblige(f"{tag}.one_release_per_live_array_in_order", len(calls) == len(live) and all(c is a for c, a in zip(calls, live)), **meta)
        ctx.oblige(f"{tag}.arrays_untouched", not log, **meta)

    return h


def force_harness(pattern):
    def h(ctx: Ctx):
        cfg = Config()
        cfg.builtins = default_builtins()
        ev = []
        log = []
        arrs = build(pattern, log)
        out_arr = Arr("target.data", None, log)
        uniq_result = expected_members(arrs)

        class T:
            def __init__(self, a):
                self.data = a

        variables = tuple(T(a) for a in arrs)

        def uniq(interp_, a, k):
            ev.append(("unique", a[0]))
            return list(uniq_result)

        cfg.summaries[f"{LM}:unique_arrs_and_bases"] = uniq
        cfg.summaries[f"{LM}:lock_arr_writeability"] = lambda i_, a, k: (ev.append(("lock", a[0], dict(k), len(a))), a[0])[1]
        cfg.summaries[f"{LM}:release_writeability_lock_on_op"] = lambda i_, a, k: ev.append(("release-now",))

        def lockset(interp_, a, k):
            # contract C08.lockset (below), in a state where no operand is natively read-only: each array of unique_arrs_and_bases(operands)
            # locked once, not forced; the locked arrays are returned in that order
            ev.append(("unique", a[0]))
            for arr in uniq_result:
                ev.append(("lock", arr, {}, 1))
            return tuple(uniq_result)

        cfg.summaries[f"{LM}:lock_unique_arrs_and_bases"] = lockset

        class WRI:
            def __init__(self, items=()):
                self.items = list(items)

            def append(self, x):
                self.items.append(x)

        cfg.global_overrides[(LM, "WeakRefIterable")] = WRI
        cfg.global_overrides[(LM, "finalize")] = lambda obj, fn, *a: ev.append(("finalize", obj, fn, a))
        interp = Interp(ctx, cfg)

        class Creator:
            pass

        creator = Creator()
        creator.variables = variables

        class Target:
            pass

        t = Target()
        t.creator, t.data = creator, out_arr
        f = interp.global_lookup(interp.module(LM), "force_lock_tensor_and_creators")
        tag = f"C08.force_lock[{','.join(pattern)}]"
        meta = dict(function=f"{LM}:force_lock_tensor_and_creators", pattern=list(pattern))
        try:
            interp.call(f, [t], {})
        except SymRaise as e:
            ctx.oblige(f"{tag}.no_exception", False, raised=e.exc.cls_name(), **meta)
            return
        locks = [e for e in ev if e[0] == "lock"]
        fins = [e for e in ev if e[0] == "finalize"]
        uq = [e for e in ev if e[0] == "unique"]
        ctx.oblige(f"{tag}.operands_of_the_creator", len(uq) == 1 and len(tuple(uq[0][1])) == len(variables) and all(x is y for x, y in zip(tuple(uq[0][1]), variables)), **meta)
        ok = len(locks) == len(uniq_result) + 1 and all(l[1] is a and not l[2].get("force_lock") and l[3] == 1 for l, a in zip(locks, uniq_result))
        ctx.oblige(f"{tag}.each_operand_array_locked_once_not_forced", ok, **meta)
        ctx.oblige(f"{tag}.target_locked_last_and_forced", bool(locks) and locks[-1][1] is out_arr and locks[-1][2].get("force_lock") is True, **meta)
        okf = len(fins) == 1
        if okf:
            _f, obj, fn, a = fins[0]
            okf = obj is creator and getattr(fn, "qualname", "") == f"{LM}:release_writeability_lock_on_op" and len(a) == 1 and isinstance(a[0], WRI)
            okf = okf and len(a[0].items) == len(uniq_result) + 1 and all(x is y for x, y in zip(a[0].items, uniq_result + [out_arr]))
        ctx.oblige(f"{tag}.finalizer_on_creator_releases_exactly_the_locked_set", okf, **meta)
        ctx.oblige(f"{tag}.nothing_released_now", not any(e[0] == "release-now" for e in ev), **meta)

    return h


class FArr:
    """array with a symbolic writeable flag (for the lock-set contract)"""

    def __init__(self, name, base, ctx, log):
        import z3

        self.name, self._base, self.log = name, base, log
        self.w = z3.Bool(f"writeable0[{name}]")  # current flag (entry value symbolic)

        class _F:
            pass

        self._flags = _F()

    def __sym_getattr__(self, interp, attr):
        if attr == "base":
            return self._base
        if attr == "flags":
            me = self

            class Flags:
                def __sym_getattr__(self_, interp_, a):
                    if a == "writeable":
                        return me.w
                    raise SymRaise.__new__(SymRaise)

                def __sym_setattr__(self_, interp_, a, v):
                    me.log.append(("flag-write", me.name, v))
                    me.w = v

            return Flags()
        self.log.append(("read", self.name, attr))
        raise SymRaise.__new__(SymRaise)

    def __sym_id__(self, interp):
        return ("arr-id", self.name)

    def __repr__(self):
        return f"<arr {self.name}>"


def lockset_harness(pattern):
    """lock_unique_arrs_and_bases(tensors), with the lock primitive replaced by its contract (C08.lock, contracts/c08_locks.py) on a STATEFUL
    tracker model: flags and tracker membership of every array are symbolic at entry.
      native(a) := a is read-only, a is not tracked, and a has no base or its base is not tracked          -- all evaluated in the ENTRY state
      ensures  native(a)  => a is not locked, not tracked afterwards, its flag untouched, and it is not among the returned arrays
               (arrays that were read-only beforehand stay read-only: nothing will ever 'unlock' them)
      ensures  !native(a) => a is locked exactly once (not forced) and is among the returned arrays, in unique_arrs_and_bases order"""
    import z3

    def h(ctx: Ctx):
        cfg = Config()
        cfg.builtins = default_builtins()
        log, ev = [], []
        X, Y = FArr("X", None, ctx, log), FArr("Y", None, ctx, log)
        arrs = []
        for i, p in enumerate(pattern):
            if p == "own":
                arrs.append(FArr(f"a{i}", None, ctx, log))
            elif p == "viewX":
                arrs.append(FArr(f"a{i}", X, ctx, log))
            elif p == "viewY":
                arrs.append(FArr(f"a{i}", Y, ctx, log))
            else:
                arrs.append(arrs[int(p[4:])])
        members = expected_members(arrs)
        tracked = {id(a): z3.Bool(f"tracked0[{a.name}]") for a in members}
        w0 = {id(a): a.w for a in members}
        t0 = dict(tracked)
        interp = None

        def is_tracked(interp_, a, k):
            return tracked[id(a[0])]

        def lock(interp_, a, k):
            arr = a[0]
            force = bool(k.get("force_lock", False)) or (len(a) > 1 and a[1])
            ev.append(("lock", arr, force))
            if interp_.truth(tracked[id(arr)]):
                return arr  # counter + 1
            base_tr = arr._base is not None and interp_.truth(tracked[id(arr._base)])
            if not force and not interp_.truth(arr.w) and not base_tr:
                return arr  # natively read-only at the time of the call: left alone
            tracked[id(arr)] = True
            arr.w = False
            return arr

        cfg.summaries[f"{LM}:array_is_tracked"] = is_tracked
        cfg.summaries[f"{LM}:lock_arr_writeability"] = lock
        cfg.summaries[f"{LM}:unique_arrs_and_bases"] = lambda i_, a, k: list(members)
        interp = Interp(ctx, cfg)

        class T:
            def __init__(self, a):
                self.data = a

        f = interp.global_lookup(interp.module(LM), "lock_unique_arrs_and_bases")
        tag = f"C08.lockset[{','.join(pattern)}]"
        meta = dict(function=f"{LM}:lock_unique_arrs_and_bases", pattern=list(pattern))
        try:
            got = list(interp.iterate_concrete(interp.call(f, [[T(a) for a in arrs]], {})))
        except SymRaise as e:
            ctx.oblige(f"{tag}.no_exception", False, **meta)
            return
        B = lambda v: v if z3.is_expr(v) else z3.BoolVal(bool(v))  # noqa
        exp_order = []
        for a in members:
            native = z3.And(z3.Not(w0[id(a)]), z3.Not(t0[id(a)]), z3.BoolVal(True) if a._base is None else z3.Not(t0[id(a._base)]))
            n_locks = sum(1 for e in ev if e[1] is a)
            returned = sum(1 for g in got if g is a)
            ctx.oblige(f"{tag}.natively_read_only_array_left_alone[{a.name}]", z3.Implies(native, z3.And(z3.BoolVal(n_locks == 0 and returned == 0), z3.Not(B(tracked[id(a)])), B(a.w) == w0[id(a)])), **meta)
            ctx.oblige(f"{tag}.every_other_array_locked_once_not_forced_and_returned[{a.name}]", z3.Implies(z3.Not(native), z3.BoolVal(n_locks == 1 and returned == 1 and not any(e[2] for e in ev if e[1] is a))), **meta)
        pos = [next((i for i, m in enumerate(members) if m is g), -1) for g in got]
        ctx.oblige(f"{tag}.returned_in_unique_order", pos == sorted(pos) and -1 not in pos, **meta)
        ctx.oblige(f"{tag}.no_flag_written_directly", not any(e[0] == "flag-write" for e in log), **meta)

    return h


def obligations(tier="quick"):
    out = []
    info = {"functions": {}, "unsupported": [], "paths": 0}
    for q in (f"{LM}:unique_arrs_and_bases", f"{LM}:release_writeability_lock_on_op", f"{LM}:force_lock_tensor_and_creators", f"{LM}:lock_unique_arrs_and_bases"):
        try:
            _m, node, _c = frontend.find(q)
            info["functions"][q] = frontend.source_hash(node)
        except frontend.ExtractionError as e:
            info["unsupported"].append(str(e))
    hs = []
    for n in (1, 2, 3):
        for pat in patterns(n):
            hs.append((f"unique{pat}", unique_harness(pat)))
            if n <= 2:
                hs.append((f"force{pat}", force_harness(pat)))
                hs.append((f"lockset{pat}", lockset_harness(pat)))
    hs.append(("unique()", unique_harness(())))
    for n in (0, 1, 2, 3):
        for dead in ([set()] + [{i} for i in range(n)]):
            hs.append((f"release[{n},{dead}]", release_harness(n, dead)))
    for name, h in hs:
        results = explore(h)
        k = 0
        for r in results:
            if r.outcome == "unsupported":
                info["unsupported"].append(f"{name}: {r.value}")
                continue
            k += 1
            for o in r.ctx.obligations:
                o.name = f"{o.name}.p{k}"
                out.append(o)
        info["paths"] += k
        if k == 0:
            info["unsupported"].append(f"{name}: no completed path")
    return out, info
