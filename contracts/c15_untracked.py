"""C15.untracked — with graph tracking off nothing is recorded and nothing is locked.

Tensor._op(Op, *operands, op_args, op_kwargs, constant, out)  with TRACK_GRAPH = False (MEM_GUARD symbolic):
  ensures  the kernel `Op()(...)` is called exactly once with (operands wrapped as tensors, *op_args, **op_kwargs[, out=out]);
  ensures  the result is  cls(op_out, constant=constant, copy=False, _creator=None, _base=None);
  ensures  no lock / release function of lock_management is called;
  frame    no field of any operand tensor is written (no consumer recorded, gradient kept, base kept).
Tensor._in_place_op(...) with TRACK_GRAPH False  ==  self._op(op, *inputs, op_args, op_kwargs, constant, out=self.data)
Tensor.backward(grad) with TRACK_GRAPH False returns None immediately: no field is read or written.
shape.setter with TRACK_GRAPH False assigns `self.data.shape = newshape` and nothing else.
"""
from __future__ import annotations

import z3

from pyvc import frontend
from pyvc.builtins_model import TypeToken, default_builtins
from pyvc.interp import BoundMethod, Config, Ctx, GlobalCell, Interp, Opaque, SObj, SymRaise, explore

TB = "mygrad.tensor_base"
GT = "mygrad._utils.graph_tracking"
LM = "mygrad._utils.lock_management"


class Arr(Opaque):
    dtype = Opaque("dtype")


def base_cfg(ctx, track):
    cfg = Config()
    cfg.builtins = default_builtins()
    cfg.global_overrides[("mygrad._numpy_version", "NP_IS_V2")] = True
    cfg.global_overrides[(GT, "TRACK_GRAPH")] = GlobalCell("TRACK_GRAPH", track)
    cfg.global_overrides[(LM, "MEM_GUARD")] = GlobalCell("MEM_GUARD", z3.Bool("MEM_GUARD"))
    locks = []
    for fn in ("lock_arr_writeability", "release_writeability_lock_on_op", "unique_arrs_and_bases", "force_lock_tensor_and_creators", "_release_lock_on_arr_writeability"):
        cfg.summaries[f"{LM}:{fn}"] = (lambda name: lambda interp, a, k: locks.append(name))(fn)

    class NP:
        ndarray = TypeToken("ndarray", lambda interp, v: isinstance(v, Arr))
        generic = TypeToken("generic", lambda interp, v: False)

        @staticmethod
        def result_type(*a):
            return Opaque("result_type")

        @staticmethod
        def asarray(x, *a, **k):
            return Arr("asarray")

    cfg.module_overrides["numpy"] = NP
    return cfg, locks


def op_harness(out_kind, scalar_operand):
    def h(ctx: Ctx):
        cfg, locks = base_cfg(ctx, False)
        interp = Interp(ctx, cfg)
        T = interp.global_lookup(interp.module(TB), "Tensor")
        made = []

        def ctor(interp_, args, kwargs):
            o = Opaque("Tensor(...)")
            made.append((o, args, kwargs))
            return o

        cfg.summaries[f"{TB}:Tensor"] = ctor
        t = SObj(T, dict(_constant=z3.Bool("c"), _grad=Opaque("grad"), _ops=set(), _base=Opaque("base"), _creator=Opaque("creator"), data=Arr("t.data"), _view_grad=None), label="t")
        before = dict(t.fields)
        arr = Arr("user array")
        operands = [t, arr] + ([2.0] if scalar_operand else [])
        calls = []
        op_out = Arr("op_out")

        class FakeOpInst:
            can_return_view = False

            def __call__(self, *a, **k):
                calls.append((a, k))
                return op_out

        class FakeOp:
            weak_python_scalars = True

            def __call__(self):
                return FakeOpInst()

        a1, kw1 = Opaque("op_arg"), Opaque("op_kwarg")
        constant = {0: None, 1: True}[ctx.choose(2, "constant")]
        out = Arr("out array") if out_kind == "array" else None
        f, _ = T.lookup(interp, "_op")
        meta = dict(function=f"{TB}:Tensor._op", out=out_kind, scalar_operand=scalar_operand)
        tag = f"C15.untracked._op[out={out_kind},scalar={scalar_operand}]"
        try:
            r = interp.call(f.func, [T, FakeOp()] + operands, dict(op_args=(a1,), op_kwargs={"kw": kw1}, constant=constant, out=out))
        except SymRaise as e:
            ctx.oblige(f"{tag}.no_exception", False, raised=e.exc.cls_name(), **meta)
            return
        ctx.oblige(f"{tag}.no_lock_calls", not locks, calls=list(locks), **meta)
        wrapped = [m for m in made if m[1] and m[1][0] is not op_out]
        result = [m for m in made if m[1] and m[1][0] is op_out]
        ctx.oblige(f"{tag}.kernel_called_once", len(calls) == 1, **meta)
        if len(calls) == 1:
            a, k = calls[0]
            n = len(operands)
            ok = len(a) == n + 1 and a[0] is t and a[n] is a1
            for i, opd in enumerate(operands[1:], start=1):
                w = [m for m in wrapped if m[1][0] is opd]
                ok = ok and len(w) == 1 and a[i] is w[0][0] and w[0][2].get("constant") is True and w[0][2].get("copy") is False
            ctx.oblige(f"{tag}.kernel_operands", ok, **meta)
            exp_k = {"kw": kw1}
            if out is not None:
                exp_k["out"] = out
            ctx.oblige(f"{tag}.kernel_keywords", set(k) == set(exp_k) and all(k[x] is exp_k[x] for x in exp_k), **meta)
        ok = len(result) == 1 and r is result[0][0]
        if ok:
            kw = result[0][2]
            ok = kw.get("constant", "missing") is constant and kw.get("copy") is False and kw.get("_creator", "missing") is None and kw.get("_base", "missing") is None and len(result[0][1]) == 1
        ctx.oblige(f"{tag}.result_wraps_kernel_output_untracked", ok, **meta)
        ctx.oblige(f"{tag}.operand_fields_unwritten", t.fields == before and all(t.fields[k_] is before[k_] for k_ in before), **meta)

    return h


def inplace_harness_for(has_base, has_view_grad, has_grad):
    """untracked Tensor._in_place_op: delegates to _op(..., out=self.data) and touches NOTHING else -- whatever gradient / base / cache
    state the target is in (a view with a cached gradient window, a leaf holding a gradient, ...)"""

    def inplace_harness(ctx: Ctx):
        cfg, locks = base_cfg(ctx, False)
        interp = Interp(ctx, cfg)
        T = interp.global_lookup(interp.module(TB), "Tensor")
        rec = []
        touched = []
        ret = Opaque("_op result")
        cfg.summaries[f"{TB}:Tensor._op"] = lambda interp_, a, k: (rec.append((a, k)), ret)[1]
        cfg.summaries[f"{TB}:Tensor.null_grad"] = lambda interp_, a, k: (touched.append(("null_grad", a[0])), a[0])[1]
        cfg.summaries[f"{TB}:Tensor.clear_graph"] = lambda interp_, a, k: touched.append(("clear_graph", a[0]))
        data = Arr("self.data")
        base = SObj(T, dict(_constant=False, _grad=Opaque("base grad"), _ops=set(), _base=None, _creator=None, data=Arr("base.data"), _view_grad=None), label="base") if has_base else None
        t = SObj(T, dict(_constant=False, _grad=Opaque("g") if has_grad else None, _ops=set(), _base=base, _creator=None, data=data, _view_grad=Opaque("cached window") if has_view_grad else None), label="self")
        before = dict(t.fields)
        before_base = dict(base.fields) if base is not None else None
        opcls, x, a1, kw = Opaque("Op"), Opaque("operand"), Opaque("a"), Opaque("kw")
        f, _ = T.lookup(interp, "_in_place_op")
        tag = f"C15.untracked._in_place_op[base={has_base},view_grad={has_view_grad},grad={has_grad}]"
        meta = dict(function=f"{TB}:Tensor._in_place_op", target_has_base=has_base, cached_view_grad=has_view_grad, holds_grad=has_grad)
        try:
            r = interp.call(f, [t, opcls, t, x], dict(op_args=(a1,), op_kwargs={"k": kw}, constant=None))
        except SymRaise as e:
            ctx.oblige(f"{tag}.no_exception", False, raised=e.exc.cls_name(), **meta)
            return
        ok = len(rec) == 1
        if ok:
            a, k = rec[0]
            ok = a[-3:] == [opcls, t, x] or (len(a) >= 3 and a[-3] is opcls and a[-2] is t and a[-1] is x)
            ok = ok and k.get("op_args") == (a1,) and k.get("op_kwargs") == {"k": kw} and k.get("constant", "m") is None and k.get("out") is data
        ctx.oblige(f"{tag}.writes_own_memory_via_out", ok, **meta)
        ctx.oblige(f"{tag}.returns_op_result", r is ret, **meta)
        ctx.oblige(f"{tag}.no_graph_surgery", t.fields == before and all(t.fields[k_] is before[k_] for k_ in before), **meta)
        ctx.oblige(f"{tag}.no_other_tensor_touched", not touched and (base is None or (base.fields == before_base and all(base.fields[k_] is before_base[k_] for k_ in before_base))), touched=repr(touched), **meta)

    return inplace_harness


def backward_harness(ctx: Ctx):
    cfg, locks = base_cfg(ctx, False)
    interp = Interp(ctx, cfg)
    T = interp.global_lookup(interp.module(TB), "Tensor")
    touched = []

    class Spy(SObj):
        pass

    t = SObj(T, {}, label="self")  # no fields: any field access raises AttributeError -> SymRaise
    f, _ = T.lookup(interp, "backward")
    meta = dict(function=f"{TB}:Tensor.backward")
    for g in (None, Opaque("grad")):
        try:
            r = interp.call(f, [t, g], {})
            ctx.oblige(f"C15.untracked.backward.noop[{'seed' if g is not None else 'none'}]", r is None and t.fields == {}, **meta)
        except SymRaise as e:
            ctx.oblige(f"C15.untracked.backward.noop[{'seed' if g is not None else 'none'}]", False, raised=e.exc.cls_name(), **meta)


def tracked_backward_reads_state(ctx: Ctx):
    """reachability guard for the harness above: with tracking ON the same call does touch the tensor"""
    cfg, locks = base_cfg(ctx, True)
    interp = Interp(ctx, cfg)
    T = interp.global_lookup(interp.module(TB), "Tensor")
    t = SObj(T, {}, label="self")
    f, _ = T.lookup(interp, "backward")
    try:
        interp.call(f, [t, None], {})
        ctx.oblige("C15.untracked.backward.guard_is_reachable", False, function=f"{TB}:Tensor.backward")
    except SymRaise as e:
        ctx.oblige("C15.untracked.backward.guard_is_reachable", e.exc.cls is AttributeError, function=f"{TB}:Tensor.backward")


def shape_harness(ctx: Ctx):
    cfg, locks = base_cfg(ctx, False)
    interp = Interp(ctx, cfg)
    T = interp.global_lookup(interp.module(TB), "Tensor")
    writes = []

    class D:
        def __sym_setattr__(self, interp_, name, v):
            writes.append((name, v))

        def __sym_getattr__(self, interp_, name):
            writes.append(("read", name))
            return Opaque(name)

    d = D()
    t = SObj(T, dict(data=d), label="self")
    ns = Opaque("newshape")
    interp.setattr(t, "shape", ns)
    ctx.oblige("C15.untracked.shape_setter.assigns_data_shape_only", writes == [("shape", ns)] and set(t.fields) == {"data"}, function=f"{TB}:Tensor.shape")


def obligations(tier="quick"):
    out = []
    info = {"functions": {}, "unsupported": [], "paths": 0}
    for q in (f"{TB}:Tensor._op", f"{TB}:Tensor._in_place_op", f"{TB}:Tensor.backward"):
        try:
            _m, node, _c = frontend.find(q)
            info["functions"][q] = frontend.source_hash(node)
        except frontend.ExtractionError as e:
            info["unsupported"].append(str(e))
    try:
        _m, node, _c = frontend.find_setter(f"{TB}:Tensor.shape")
        info["functions"][f"{TB}:Tensor.shape.setter"] = frontend.source_hash(node)
    except frontend.ExtractionError as e:
        info["unsupported"].append(str(e))
    hs = [(f"_op[{o},{s}]", op_harness(o, s)) for o in ("none", "array") for s in (False, True)]
    hs += [(f"_in_place_op[{hb},{hv},{hg}]", inplace_harness_for(hb, hv, hg)) for hb in (False, True) for hv in (False, True) for hg in (False, True)]
    hs += [("backward", backward_harness), ("backward-guard", tracked_backward_reads_state), ("shape", shape_harness)]
    for name, h in hs:
        results = explore(h)
        k = 0
        for r in results:
            if r.outcome == "unsupported":
                info["unsupported"].append(f"{name}: {r.value}")
                continue
            k += 1
            for o in r.ctx.obligations:
                o.name = f"{o.name}.p{k}"
                out.append(o)
        info["paths"] += k
        if k == 0:
            info["unsupported"].append(f"{name}: no completed path")
    return out, info
