"""C04.dup / C13.restore — contracts of DuplicatingGraph (the placeholder graph that every in-place update builds) and of
make_placeholder_tensor, on view families of every shape up to 4 members.

make_placeholder_tensor(original, base)
  requires original._grad is None (asserted by the function)
  ensures  a fresh tensor that mirrors `original` (mirror_tensor(target=fresh, source=original)), whose `_base` is then `base`, and through
           which the consumers recorded on `original` are rerouted (reroute_ops_through(target=fresh, source=original)); `original` is not written
DuplicatingGraph(B)   (B heads a family: every member reachable through `_view_children`)
  ensures  one node per family member: node.tensor is the member, node.placeholder a placeholder made from it, node.parent the member's
           direct parent (None for B); both the member and its placeholder map to the node
  ensures  placeholder(B)._base is B.base; every other placeholder's `_base` is placeholder(B)
  ensures  for a member with views, placeholder(member)._view_children lists the placeholders of its views, in order; members without views
           are the `leafs`; no public tensor's `_view_children` is modified
  ensures  iteration yields every node exactly once, parents before children (depth first over the placeholders' lists)
  ensures  get_path_to_base(t) is [node(t), node(parent(t)), ..., node(B)];  get_placeholder_if_exists(x) is the placeholder for members, x otherwise
restore_old_graph()   (C13: undo after a failed in-place attempt)
  requires the root B owns its memory (B._base is None) -- the only call site, Tensor._in_place_op, roots the graph at the family owner
  ensures  for every node exactly one reroute_ops_through(target=node.tensor, source=node.placeholder)
  ensures  every member other than B has `_base` B afterwards; B's `_base` and all `_view_children` lists are untouched
Callees replaced by contracts: the Tensor constructor (fresh empty tensor), mirror_tensor and reroute_ops_through (contracts/c04_graph.py).
"""
from __future__ import annotations

from pyvc import frontend
from pyvc.builtins_model import default_builtins
from pyvc.interp import Config, Ctx, Interp, Opaque, SObj, SymRaise, explore

TB = "mygrad.tensor_base"
DG = "mygrad._utils.duplicating_graph"

# view families as parent indices: member 0 is the base
FAMILIES = {
    "single": [None],
    "one-view": [None, 0],
    "two-views": [None, 0, 0],
    "chain": [None, 0, 1],
    "chain3": [None, 0, 1, 2],
    "fork-deep": [None, 0, 0, 1],
    "fork-deep2": [None, 0, 1, 1],
    "three-views": [None, 0, 0, 0],
}


class VC:
    def __init__(self, items=(), log=None, owner="?"):
        self.items, self.log, self.owner = list(items), log, owner

    def append(self, x):
        self.items.append(x)
        self.log.append(("append", self.owner, x))

    def __sym_iter__(self, interp):
        return list(self.items)

    def __sym_truth__(self, interp):
        return bool(self.items)


class Node:
    def __init__(self, tensor=None, placeholder=None, parent=None):
        self.tensor, self.placeholder, self.parent = tensor, placeholder, parent


def harness(fam_name, base_is_view):
    parents = FAMILIES[fam_name]

    def h(ctx: Ctx):
        cfg = Config()
        cfg.builtins = default_builtins()
        log = []
        interp = Interp(ctx, cfg)
        T = interp.global_lookup(interp.module(TB), "Tensor")
        outer = Opaque("B.base") if base_is_view else None

        def mk(name, **extra):
            f = dict(_constant=False, _grad=None, _view_grad=None, _base=None, _creator=None, _ops=set(), data=Opaque(f"{name}.data"))
            f.update(extra)
            o = SObj(T, f, label=name)
            o.fields["_view_children"] = VC([], log, name)
            return o

        members = []
        for i, p in enumerate(parents):
            m = mk(f"m{i}", _base=(outer if i == 0 else members[0]))
            members.append(m)
        for i, p in enumerate(parents):
            if p is not None:
                members[p].fields["_view_children"].items.append(members[i])
        snap_vc = {m.label: list(m.fields["_view_children"].items) for m in members}
        snap_fields = {m.label: {k: v for k, v in m.fields.items() if k != "_view_children"} for m in members}
        fresh = []

        def ctor(interp_, a, k):
            o = mk(f"fresh{len(fresh)}")
            fresh.append(o)
            log.append(("ctor", o))
            return o

        cfg.summaries[f"{TB}:Tensor"] = ctor

        def mirror(interp_, a, k):
            tgt, src = k["target"], k["source"]
            log.append(("mirror", tgt, src))
            for name, v in src.fields.items():
                tgt.fields[name] = v  # shallow copy of the attribute dictionary (contract of mirror_tensor)
            return None

        def reroute(interp_, a, k):
            log.append(("reroute", k["target"], k["source"]))

        cfg.summaries[f"{DG}:mirror_tensor"] = mirror
        cfg.summaries[f"{DG}:reroute_ops_through"] = reroute
        cfg.global_overrides[(DG, "Node")] = Node
        cfg.global_overrides[(DG, "WeakRefIterable")] = lambda items=(): VC(list(items), log, "placeholder-list")
        G = interp.global_lookup(interp.module(DG), "DuplicatingGraph")
        tag = f"C04.dup[{fam_name},{'view' if base_is_view else 'owner'}]"
        meta = dict(function=f"{DG}:DuplicatingGraph", family=fam_name)
        try:
            g = interp.call(G, [members[0]], {})
        except SymRaise as e:
            ctx.oblige(f"{tag}.no_exception", False, raised=e.exc.cls_name(), **meta)
            return
        getitem = G.lookup(interp, "__getitem__")[0]
        nodes = []
        ok_nodes = True
        for i, m in enumerate(members):
            try:
                nd = interp.call(getitem, [g, m], {})
            except SymRaise:
                ok_nodes = False
                break
            nodes.append(nd)
            par = None if parents[i] is None else members[parents[i]]
            ok_nodes = ok_nodes and nd.tensor is m and nd.parent is par and isinstance(nd.placeholder, SObj) and any(nd.placeholder is f for f in fresh)
            try:
                ok_nodes = ok_nodes and interp.call(getitem, [g, nd.placeholder], {}) is nd
            except SymRaise:
                ok_nodes = False
        ctx.oblige(f"{tag}.one_node_per_member_with_its_parent", ok_nodes and len(fresh) == len(members) and len({id(n.placeholder) for n in nodes}) == len(members), **meta)
        if not ok_nodes:
            return
        ph = [n.placeholder for n in nodes]
        # placeholders mirror their originals, then get the base, and consumers are rerouted through them
        okp = True
        for i, m in enumerate(members):
            ev = [e for e in log if e[0] in ("mirror", "reroute") and e[1] is ph[i]]
            okp = okp and [e[0] for e in ev] == ["mirror", "reroute"] and all(e[2] is m for e in ev)
        ctx.oblige(f"{tag}.placeholder_mirrors_then_reroutes_its_original", okp, **meta)
        okb = ph[0].fields["_base"] is outer and all(ph[i].fields["_base"] is ph[0] for i in range(1, len(members)))
        ctx.oblige(f"{tag}.placeholder_bases", okb, **meta)
        okc = True
        for i, m in enumerate(members):
            kids = [j for j, p in enumerate(parents) if p == i]
            cur = ph[i].fields["_view_children"]
            if kids:
                okc = okc and isinstance(cur, VC) and len(cur.items) == len(kids) and all(a is ph[j] for a, j in zip(cur.items, kids))
        ctx.oblige(f"{tag}.placeholder_children_are_placeholders_of_children_in_order", okc, **meta)
        oku = all(len(m.fields["_view_children"].items) == len(snap_vc[m.label]) and all(a is b for a, b in zip(m.fields["_view_children"].items, snap_vc[m.label])) for m in members)
        oku = oku and all(all(m.fields[k] is v for k, v in snap_fields[m.label].items()) for m in members)
        ctx.oblige(f"{tag}.public_tensors_untouched_by_construction", oku, **meta)
        leafs = g.fields.get("leafs")
        exp_leafs = {("id", m.label) for i, m in enumerate(members) if not any(p == i for p in parents)}
        ctx.oblige(f"{tag}.leafs_are_the_members_without_views", isinstance(leafs, set) and leafs == exp_leafs, got=repr(leafs), **meta)
        # iteration: every node once, parents first
        it = G.lookup(interp, "__iter__")[0]
        try:
            order = list(interp.iterate_concrete(interp.call(it, [g], {})))
        except SymRaise as e:
            ctx.oblige(f"{tag}.iteration_no_exception", False, raised=e.exc.cls_name(), **meta)
            return
        pos = {id(n): k for k, n in enumerate(order)}
        oki = len(order) == len(nodes) and all(id(n) in pos for n in nodes) and all(parents[i] is None or pos[id(nodes[parents[i]])] < pos[id(nodes[i])] for i in range(len(nodes)))
        ctx.oblige(f"{tag}.iteration_every_node_once_parents_first", oki, **meta)
        # paths
        gp = G.lookup(interp, "get_path_to_base")[0]
        okpath = True
        for i, m in enumerate(members):
            exp, j = [], i
            while j is not None:
                exp.append(nodes[j])
                j = parents[j]
            got = list(interp.call(gp, [g, m], {}))
            okpath = okpath and len(got) == len(exp) and all(a is b for a, b in zip(got, exp))
        ctx.oblige(f"{tag}.path_to_base", okpath, **meta)
        gpe = G.lookup(interp, "get_placeholder_if_exists")[0]
        stranger = mk("stranger")
        okg = all(interp.call(gpe, [g, m], {}) is ph[i] for i, m in enumerate(members)) and interp.call(gpe, [g, stranger], {}) is stranger
        ctx.oblige(f"{tag}.placeholder_lookup", okg, **meta)
        # ---- restore_old_graph ------------------------------------------------------------------------------------
        # precondition taken from its only call site (Tensor._in_place_op builds the graph on `self if self.base is None else self.base`):
        # the root of the graph owns its memory.  (The shape setter roots a graph at a view but never restores it.)
        if base_is_view:
            return
        n0 = len(log)
        vc_before = {o.label: list(o.fields["_view_children"].items) for o in members + ph}
        rs = G.lookup(interp, "restore_old_graph")[0]
        tagr = f"C13.restore[{fam_name},{'view' if base_is_view else 'owner'}]"
        metar = dict(function=f"{DG}:DuplicatingGraph.restore_old_graph", family=fam_name)
        try:
            interp.call(rs, [g], {})
        except SymRaise as e:
            ctx.oblige(f"{tagr}.no_exception", False, raised=e.exc.cls_name(), **metar)
            return
        ev = log[n0:]
        rr = [e for e in ev if e[0] == "reroute"]
        okr = len(rr) == len(members) and all(sum(1 for e in rr if e[1] is m and e[2] is ph[i]) == 1 for i, m in enumerate(members))
        ctx.oblige(f"{tagr}.consumers_rerouted_back_once_per_member", okr, **metar)
        ctx.oblige(f"{tagr}.nothing_but_rerouting", all(e[0] == "reroute" for e in ev), got=repr([e[0] for e in ev]), **metar)
        okbase = members[0].fields["_base"] is outer and all(m.fields["_base"] is members[0] for m in members[1:])
        ctx.oblige(f"{tagr}.members_point_to_the_family_base_again", okbase, **metar)
        okvc = all(len(o.fields["_view_children"].items) == len(vc_before[o.label]) and all(a is b for a, b in zip(o.fields["_view_children"].items, vc_before[o.label])) for o in members + ph)
        ctx.oblige(f"{tagr}.view_children_lists_untouched", okvc, **metar)

    return h


def obligations(tier="quick"):
    out = []
    info = {"functions": {}, "unsupported": [], "paths": 0}
    for q in (f"{DG}:make_placeholder_tensor", f"{DG}:DuplicatingGraph.__init__", f"{DG}:DuplicatingGraph._duplicate_graph", f"{DG}:DuplicatingGraph._record_mapping", f"{DG}:DuplicatingGraph.__getitem__",
              f"{DG}:DuplicatingGraph.__iter__", f"{DG}:DuplicatingGraph._yield_children", f"{DG}:DuplicatingGraph.get_path_to_base", f"{DG}:DuplicatingGraph.get_placeholder_if_exists",
              f"{DG}:DuplicatingGraph.__contains__", f"{DG}:DuplicatingGraph.restore_old_graph"):
        try:
            _m, node, _c = frontend.find(q)
            info["functions"][q] = frontend.source_hash(node)
        except frontend.ExtractionError as e:
            info["unsupported"].append(str(e))
    for fam in FAMILIES:
        for biv in (False, True):
            name = f"dup[{fam},{biv}]"
            results = explore(harness(fam, biv))
            k = 0
            for r in results:
                if r.outcome == "unsupported":
                    info["unsupported"].append(f"{name}: {r.value}")
                    continue
                k += 1
                for o in r.ctx.obligations:
                    o.name = f"{o.name}.p{k}"
                    out.append(o)
            info["paths"] += k
            if k == 0:
                info["unsupported"].append(f"{name}: no completed path")
    return out, info
