"""TRUSTED BASE: d/dx of every NumPy kernel that MyGrad uses as an elementwise *forward* pass.

This table is the specification side of C02 for elementwise ops: it is written from calculus and
from the conventions named in the property statement (0 at +-1 for arcsin/arccos; zero to both
operands at ties of maximum/minimum is encoded in the forward definition of maximum/minimum as
the derivative of `ite`), *not* from MyGrad's backward code.  Each entry maps the arguments `u`
and their derivatives `du` to the derivative of `f(u)`; conditions of differentiability are
appended to `conds` and become hypotheses of the obligation (the op's differentiable domain).
"""
import z3


def _abs(u):
    return z3.If(u >= 0, u, -u)


def d_sin(a, da, T, conds):
    return T.app("cos", a[0]) * da[0]


def d_cos(a, da, T, conds):
    return -T.app("sin", a[0]) * da[0]


def d_tan(a, da, T, conds):
    c = T.app("cos", a[0])
    conds.append(c != 0)
    return da[0] / (c * c)


def d_exp(a, da, T, conds):
    return T.app("exp", a[0]) * da[0]


def d_exp2(a, da, T, conds):
    return T.app("exp2", a[0]) * T.lnconst(2) * da[0]


def d_log(a, da, T, conds):
    conds.append(a[0] > 0)
    return da[0] / a[0]


def d_sinh(a, da, T, conds):
    return T.app("cosh", a[0]) * da[0]


def d_cosh(a, da, T, conds):
    return T.app("sinh", a[0]) * da[0]


def d_tanh(a, da, T, conds):
    t = T.app("tanh", a[0])
    return (1 - t * t) * da[0]


def d_sqrt(a, da, T, conds):
    conds.append(a[0] > 0)
    return da[0] / (2 * T.app("sqrt", a[0]))


def d_cbrt(a, da, T, conds):
    conds.append(a[0] != 0)
    c = T.app("cbrt", a[0])
    return da[0] / (3 * c * c)


def d_arcsin(a, da, T, conds):
    u = a[0]
    conds.append(_abs(u) <= 1)
    # documented convention: 0 (not NaN/inf) at u = +-1
    return z3.If(_abs(u) == 1, z3.RealVal(0), da[0] / T.app("sqrt", 1 - u * u))


def d_arccos(a, da, T, conds):
    u = a[0]
    conds.append(_abs(u) <= 1)
    return z3.If(_abs(u) == 1, z3.RealVal(0), -da[0] / T.app("sqrt", 1 - u * u))


def d_arctan(a, da, T, conds):
    return da[0] / (1 + a[0] * a[0])


def d_arcsinh(a, da, T, conds):
    return da[0] / T.app("sqrt", 1 + a[0] * a[0])


def d_arccosh(a, da, T, conds):
    conds.append(a[0] > 1)
    return da[0] / T.app("sqrt", a[0] * a[0] - 1)


def d_arctanh(a, da, T, conds):
    conds.append(_abs(a[0]) != 1)
    return da[0] / (1 - a[0] * a[0])


def d_arctan2(a, da, T, conds):
    y, x = a
    conds.append(x * x + y * y != 0)
    return (x * da[0] - y * da[1]) / (x * x + y * y)


def d_pow(a, da, T, conds):
    x, y = a
    r = z3.RealVal(0)
    dx0 = z3.is_rational_value(z3.simplify(da[0])) and z3.simplify(da[0]).numerator_as_long() == 0
    dy0 = z3.is_rational_value(z3.simplify(da[1])) and z3.simplify(da[1]).numerator_as_long() == 0
    if not dx0:
        # d/dx x^y = y x^(y-1)  (x != 0; at y = 0 the product is 0 whatever x^(y-1) is)
        conds.append(x != 0)
        r = r + y * T.app("pow", x, y - 1) * da[0]
    if not dy0:
        conds.append(x > 0)
        r = r + T.app("pow", x, y) * T.app("log", x) * da[1]
    return r


def d_maximum(a, da, T, conds):
    # property statement: zero gradient to both operands at ties
    return z3.If(a[0] > a[1], da[0], z3.If(a[1] > a[0], da[1], z3.RealVal(0)))


def d_minimum(a, da, T, conds):
    return z3.If(a[0] < a[1], da[0], z3.If(a[1] < a[0], da[1], z3.RealVal(0)))


def d_absolute(a, da, T, conds):
    # property statement: d|x|/dx = 0 at 0 (the nan_to_num=False variant excludes 0 by domain)
    return z3.If(a[0] > 0, da[0], z3.If(a[0] < 0, -da[0], z3.RealVal(0)))


TABLE = {
    "absolute": d_absolute,
    "maximum": d_maximum,
    "minimum": d_minimum,
    "sin": d_sin,
    "cos": d_cos,
    "tan": d_tan,
    "exp": d_exp,
    "exp2": d_exp2,
    "log": d_log,
    "sinh": d_sinh,
    "cosh": d_cosh,
    "tanh": d_tanh,
    "sqrt": d_sqrt,
    "cbrt": d_cbrt,
    "arcsin": d_arcsin,
    "arccos": d_arccos,
    "arctan": d_arctan,
    "arcsinh": d_arcsinh,
    "arccosh": d_arccosh,
    "arctanh": d_arctanh,
    "arctan2": d_arctan2,
    "pow": d_pow,
}
