"""Contract of Tensor._op(Op, *input_vars, op_args, op_kwargs, constant, out) with graph tracking ON
(carries C03.cast, C04.base, C07.null, C08.op, C10.infer, C13.op).

The executor runs the real `_op` AST on operand scenarios that enumerate the *aliasing structure*
(which operand is a Tensor / ndarray / Python scalar, whether two operands are the same tensor, whether the
operand is a stale view, how the kernel's result array relates to the operands' arrays, out= target kinds,
kernel raising or not, memory guard on/off, constant=None/True/False) while every flag is symbolic.  Callees are
replaced by contracts: the Tensor constructor, lock_arr_writeability / unique_arrs_and_bases /
release_writeability_lock_on_op (C08), weakref.finalize, and the operation's kernel.

 C03.cast   non-tensor operands are wrapped as Tensor(x, constant=True, copy=False[, dtype=result_type(...) for weak Python scalars]);
            tensor operands are passed on as they are, in order; op_args / op_kwargs / out reach the kernel unchanged
 C08.op     with guard on: every array of unique_arrs_and_bases(operands) is locked exactly once, before the kernel runs;
            kernel raises  => the same collection is released exactly once and the exception propagates;
            success => the result array (and with out=, its base if it has one) is locked and a finalizer on the op releases
            exactly [locked operand arrays..., (out's base), result array];  guard off => no lock/release/finalizer at all
 C13.op     kernel raises => no field of any operand tensor is written (no consumer recorded, gradients/base kept)
 C04.base   result._base = (p._base or p) for the first array/tensor operand p whose data the result array is, views, or shares the
            base of -- only when the op can return views and the result has a base; otherwise None.  The parent lists the result in its
            view children iff the result is a view; replay arguments (op_args, op_kwargs, constant) are recorded on the op iff it is a view;
            a stale base link (operand with _base but no creator) is dropped
 C07.null   every Tensor operand has _grad and _view_grad set to None iff the result is NOT a view
 C10.infer  the flag handed to the result's constructor is `constant` if given, else None if some operand is non-constant, else True
 graph      every operand tensor records the op as a consumer; result._creator is the op; result wraps the kernel's array with copy=False
"""
from __future__ import annotations

import itertools

import z3

from pyvc import frontend
from pyvc.builtins_model import TypeToken, default_builtins
from pyvc.interp import ClassValue, Config, Ctx, ExcInst, GlobalCell, Interp, Opaque, SObj, SymRaise, Unsupported, explore, to_z3

TB = "mygrad.tensor_base"
GT = "mygrad._utils.graph_tracking"
LM = "mygrad._utils.lock_management"
UT = "mygrad._utils"


class Arr:
    _n = 0

    def __init__(self, name, base=None):
        self.name, self.base = name, base
        self.dtype = Opaque(f"{name}.dtype")
        Arr._n += 1

        class _Flags:
            writeable = z3.Bool(f"writeable[{name}#{Arr._n}]")

        self.flags = _Flags()

    def __repr__(self):
        return f"<arr {self.name}>"


class WeakRefModel:
    def __init__(self, target):
        self.target = target

    def __call__(self):
        return self.target


OPERAND_CONFIGS = [("T",), ("T", "A"), ("T", "T"), ("T", "T0"), ("A", "T"), ("T", "S"), ("T", "S", "dtype=None"), ("T", "S", "dtype=given")]
RELS = ["fresh", "fresh_with_base", "view_p0", "shares_p0_base", "is_p0", "view_p1"]
P0_STATES = ["owner", "view", "stale_view"]


def harness(cfgk, rel, can_view, outk, raises, guard, constk, p0state):
    # a trailing "dtype=..." marker puts an explicit loop dtype into op_kwargs (the ufunc's dtype= option)
    dtkw = next((c.split("=")[1] for c in cfgk if c.startswith("dtype=")), "absent")
    cfgk_full, cfgk = cfgk, tuple(c for c in cfgk if not c.startswith("dtype="))

    def h(ctx: Ctx):
        Arr._n = 0
        cfg = Config()
        cfg.builtins = default_builtins()
        cfg.global_overrides[("mygrad._numpy_version", "NP_IS_V2")] = True
        cfg.global_overrides[(GT, "TRACK_GRAPH")] = GlobalCell("TRACK_GRAPH", True)
        cfg.global_overrides[(LM, "MEM_GUARD")] = GlobalCell("MEM_GUARD", guard)
        ev = []  # event log: ("lock", arr) ("release", [arrs]) ("kernel", ...) ("finalize", f, fn, refs) ("ctor", ...)

        class NP:
            ndarray = TypeToken("ndarray", lambda i_, v: isinstance(v, Arr))
            generic = TypeToken("generic", lambda i_, v: False)

            @staticmethod
            def result_type(*a):
                return ("result_type", a)

            @staticmethod
            def dtype(x):
                return ("np.dtype", x)

            @staticmethod
            def asarray(x, *a, **k):
                return Arr("asarray(list)")

        cfg.module_overrides["numpy"] = NP
        cfg.builtins["weakref.ReferenceType"] = lambda x: WeakRefModel(x)
        cfg.builtins["weakref.finalize"] = lambda obj, fn, *a: ev.append(("finalize", obj, fn, a))
        interp = Interp(ctx, cfg)
        T = interp.global_lookup(interp.module(TB), "Tensor")
        WRI = interp.global_lookup(interp.module(UT), "WeakRefIterable")

        def new_tensor(name, data, base=None, creator=None, const=None):
            t = SObj(T, label=name)
            t.fields.update(_constant=z3.Bool(f"{name}_const") if const is None else const, _grad=Opaque(f"{name}.grad"), _view_grad=Opaque(f"{name}.view_grad"),
                            _ops=set(), _base=base, _creator=creator, data=data, _view_children=interp.instantiate(WRI, [], {}))
            return t

        # ---- operands -----------------------------------------------------------------------------------------
        owner_arr = Arr("B.data")
        B = new_tensor("B", owner_arr)  # a possible base tensor of operand 0
        p0_data = Arr("p0.data", base=(owner_arr if p0state != "owner" else None))
        if p0state == "owner":
            p0 = new_tensor("p0", p0_data)
        elif p0state == "view":
            p0 = new_tensor("p0", p0_data, base=B, creator=Opaque("p0.creator"))
        else:
            p0 = new_tensor("p0", p0_data, base=B, creator=None)
        operands, tensors = [], []
        p1 = None
        for i, k in enumerate(cfgk):
            if k == "T" and i == cfgk.index("T"):
                operands.append(p0)
            elif k == "T":
                p1 = new_tensor("p1", Arr("p1.data"))
                operands.append(p1)
            elif k == "T0":
                operands.append(p0)
            elif k == "A":
                operands.append(Arr("user array"))
            else:
                operands.append(2.5)
        first_T = cfgk.index("T")
        # ---- the kernel's result array ----------------------------------------------------------------------------
        out = None
        if outk == "array":
            out = Arr("out array")
        elif outk == "view":
            out = Arr("out view", base=Arr("user base of out"))
        if rel == "fresh":
            op_out = out if out is not None else Arr("fresh result")
        elif rel == "fresh_with_base":
            op_out = out if out is not None else Arr("copy with base", base=Arr("internal temporary"))
        elif rel == "view_p0":
            op_out = Arr("view of p0.data", base=p0_data)
        elif rel == "shares_p0_base":
            if p0_data.base is None:
                return  # p0 owns its memory: nothing to share a base with
            op_out = Arr("view sharing p0.data.base", base=p0_data.base)
        elif rel == "is_p0":
            op_out = p0_data
        else:
            if p1 is None:
                return
            op_out = Arr("view of p1.data", base=p1.fields["data"])
        if out is not None and rel not in ("fresh", "fresh_with_base"):
            return  # with out= the result array is the out array
        a1, kw1 = Opaque("op_arg"), Opaque("op_kwarg")
        loop_dtype = Opaque("explicit loop dtype")
        op_kw = {"kw": kw1}
        if dtkw == "None":
            op_kw["dtype"] = None
        elif dtkw == "given":
            op_kw["dtype"] = loop_dtype

        class FakeOpInst:
            can_return_view = can_view

            def __init__(self):
                self.attrs = {}

            def __call__(self, *a, **k):
                ev.append(("kernel", a, k))
                if raises is True:
                    raise SymRaise(ExcInst(ValueError, ("kernel failed",)))
                return op_out

            def __sym_setattr__(self, interp_, name, v):
                self.attrs[name] = v

        inst = FakeOpInst()

        class FakeOp:
            weak_python_scalars = True

            def __call__(self):
                return inst

        # ---- callee contracts ----------------------------------------------------------------------------------------
        made = []

        def ctor(interp_, args, kwargs):
            x = args[0]
            if x is op_out and ("_creator" in kwargs):
                if raises == "result":
                    # contract of the constructor: it may refuse the result (an integer-valued result requested as a variable)
                    ev.append(("ctor-refused", args, kwargs))
                    raise SymRaise(ExcInst(ValueError, ("Integer-valued tensors must be treated as constants.",)))
                t = new_tensor("result", x, base=kwargs.get("_base"), creator=kwargs.get("_creator"), const=Opaque("result flag"))
            else:
                t = new_tensor(f"wrapped{len(made)}", x if isinstance(x, Arr) else Arr(f"asarray({x!r})"), const=True)
            made.append((t, args, kwargs))
            ev.append(("ctor", t, args, kwargs))
            return t

        cfg.summaries[f"{TB}:Tensor"] = ctor

        def uniq(interp_, args, kwargs):
            # contract C08.unique: each distinct array once, its base (if any) immediately before it and at most once overall
            seen, outl = [], []
            for t in args[0]:
                a = t.fields["data"]
                if not any(a is s for s in seen):
                    if a.base is not None and not any(a.base is s for s in seen):
                        seen.append(a.base)
                        outl.append(a.base)
                    seen.append(a)
                    outl.append(a)
            return outl

        # whether an array is currently tracked (locked on behalf of some other live graph) is arbitrary: _op's own locking must not
        # depend on it
        cfg.summaries[f"{LM}:array_is_tracked"] = lambda i_, a_, k_: z3.Bool(f"tracked[{getattr(a_[0], 'name', '?')}#{len(ev)}]")
        cfg.summaries[f"{LM}:unique_arrs_and_bases"] = uniq
        cfg.summaries[f"{LM}:lock_arr_writeability"] = lambda i_, a, k: (ev.append(("lock", a[0], k)), a[0])[1]

        def lockset(interp_, args, kwargs):
            # contract C08.lockset (contracts/c08_sets.py) in a state where no operand array is natively read-only (that case is decided there):
            # every array of unique_arrs_and_bases(operands) locked once, not forced, in that order; the locked arrays are returned
            outl = uniq(interp_, args, kwargs)
            for a_ in outl:
                ev.append(("lock", a_, {}))
            return tuple(outl)

        cfg.summaries[f"{LM}:lock_unique_arrs_and_bases"] = lockset

        def release(interp_, args, kwargs):
            ev.append(("release", list(interp_.iterate_concrete(args[0]))))

        cfg.summaries[f"{LM}:release_writeability_lock_on_op"] = release
        constant = {"none": None, "true": True, "false": False}[constk]
        f, _ = T.lookup(interp, "_op")
        snap = {id(t): (dict(t.fields), set(t.fields["_ops"]), list(interp.iterate_concrete(t.fields["_view_children"]))) for t in (p0, B) + ((p1,) if p1 is not None else ())}
        tag = f"op[{''.join(cfgk_full)},{rel},view={can_view},out={outk},raises={raises},guard={guard},const={constk},p0={p0state}]"
        meta = dict(function=f"{TB}:Tensor._op", scenario=tag)
        raised = None
        try:
            r = interp.call(f.func, [T, FakeOp()] + operands, dict(op_args=(a1,), op_kwargs=dict(op_kw), constant=constant, out=out))
        except SymRaise as e:
            raised = e.exc
        kernel = [e_ for e_ in ev if e_[0] == "kernel"]
        locks = [e_ for e_ in ev if e_[0] == "lock"]
        rels = [e_ for e_ in ev if e_[0] == "release"]
        fins = [e_ for e_ in ev if e_[0] == "finalize"]
        tensor_vars = []
        wrapped = [m for m in made if m[0].label.startswith("wrapped")]
        wi = 0
        ok_cast = True
        for o in operands:
            if isinstance(o, SObj):
                tensor_vars.append(o)
            else:
                if wi >= len(wrapped):
                    ok_cast = False
                    break
                t, a, k = wrapped[wi]
                wi += 1
                ok_cast = ok_cast and a[0] is o and k.get("constant") is True and k.get("copy") is False
                if isinstance(o, float):
                    # NEP 50: the scalar takes result_type(<dtypes of the array/tensor operands>, scalar) -- or, when the call
                    # carries an explicit loop dtype, result_type(np.dtype(<that dtype>), scalar): it is converted at the
                    # precision the calculation runs in, not at the operands' precision
                    dt = k.get("dtype")
                    ok_cast = ok_cast and isinstance(dt, tuple) and dt[0] == "result_type" and dt[1][-1] is o
                    if ok_cast:
                        others = [x.fields["data"].dtype if isinstance(x, SObj) else x.dtype for x in operands if not isinstance(x, float)]
                        if dtkw == "given":
                            ok_cast = len(dt[1]) == 2 and dt[1][0] == ("np.dtype", loop_dtype)
                        else:
                            ok_cast = len(dt[1]) == len(others) + 1 and all(x is y for x, y in zip(dt[1][:-1], others))
                else:
                    ok_cast = ok_cast and k.get("dtype", None) is None
                tensor_vars.append(t)
        ctx.oblige(f"C03.cast.{tag}", ok_cast and wi == len(wrapped), **meta)
        ctx.oblige(f"C03.kernel_call.{tag}", len(kernel) == 1 and len(kernel[0][1]) == len(tensor_vars) + 1 and all(x is y for x, y in zip(kernel[0][1], tensor_vars)) and kernel[0][1][-1] is a1
                   and kernel[0][2] == (dict(op_kw, out=out) if out is not None else op_kw), **meta)
        expected_locked = uniq(None, [tensor_vars], {}) if ok_cast else []
        idx_kernel = next((i for i, e_ in enumerate(ev) if e_[0] == "kernel"), None)
        pre_locks = [e_[1] for e_ in ev[: idx_kernel or 0] if e_[0] == "lock"]
        if guard:
            ctx.oblige(f"C08.op.locks_operands_before_kernel.{tag}", len(pre_locks) == len(expected_locked) and all(x is y for x, y in zip(pre_locks, expected_locked)) and all(not e_[2] for e_ in locks), **meta)
        else:
            ctx.oblige(f"C08.op.guard_off_no_locking.{tag}", not locks and not rels and not fins, **meta)
        if raises == "result":
            # the kernel ran, the constructor refused its output: same exception out, every lock taken for the operation released (once, and
            # exactly the locked set), no finalizer left behind, the operands' family links / view children / flags as before
            ctx.oblige(f"C13.op.refused_result.exception_propagates.{tag}", raised is not None and raised.cls is ValueError and len(kernel) == 1, **meta)
            if guard:
                ctx.oblige(f"C08.op.failed_op_releases_exactly_what_it_locked.refused_result.{tag}", len(rels) == 1 and len(rels[0][1]) == len(expected_locked) and all(x is y for x, y in zip(rels[0][1], expected_locked)) and not fins
                           and len(locks) == len(expected_locked), **meta)
            same = True
            for t in (p0, B) + ((p1,) if p1 is not None else ()):
                f0, ops0, vc0 = snap[id(t)]
                keep = [k_ for k_ in f0 if k_ not in ("_grad", "_view_grad", "_ops") and not (k_ == "_base" and t is p0 and p0state == "stale_view")]
                same = same and all(t.fields.get(k_) is f0[k_] for k_ in keep) and list(interp.iterate_concrete(t.fields["_view_children"])) == vc0
            ctx.oblige(f"C13.op.refused_result.no_trace_on_operands.{tag}", same, **meta)
            return
        if raises:
            ctx.oblige(f"C13.op.exception_propagates.{tag}", raised is not None and raised.cls is ValueError, **meta)
            if guard:
                ctx.oblige(f"C08.op.failed_op_releases_exactly_what_it_locked.{tag}", len(rels) == 1 and len(rels[0][1]) == len(expected_locked) and all(x is y for x, y in zip(rels[0][1], expected_locked)) and not fins
                           and len(locks) == len(expected_locked), **meta)
            same = True
            for t in (p0, B) + ((p1,) if p1 is not None else ()):
                f0, ops0, vc0 = snap[id(t)]
                same = same and all(t.fields.get(k_) is v_ for k_, v_ in f0.items()) and t.fields["_ops"] == ops0 and list(interp.iterate_concrete(t.fields["_view_children"])) == vc0
            ctx.oblige(f"C13.op.no_trace_on_operands.{tag}", same, **meta)
            return
        if raised is not None:
            ctx.oblige(f"op.no_exception.{tag}", False, raised=raised.cls_name(), **meta)
            return
        res = [m for m in made if m[0].label == "result"]
        ok_res = len(res) == 1 and r is res[0][0]
        ctx.oblige(f"op.result_constructed_once.{tag}", ok_res, **meta)
        if not ok_res:
            return
        rt, ra, rk = res[0]
        ctx.oblige(f"C03.result_wraps_kernel_output.{tag}", len(ra) == 1 and ra[0] is op_out and rk.get("copy") is False and rk.get("_creator") is inst, **meta)
        # ---- C04.base -------------------------------------------------------------------------------------------------
        # (from the property, not from the code:) the result of a view-capable op is a view of the first array/tensor operand whose memory it
        # shares -- it IS that operand's array object (NumPy hands the argument back for some no-ops, e.g. squeeze without unit axes), or NumPy
        # reports that array, or the array that one is a view of, as its .base
        exp_parent = None
        if can_view:
            for o, tv in zip(operands, tensor_vars):
                if not isinstance(o, (SObj, Arr)):
                    continue
                d = tv.fields["data"]
                if op_out is d or (op_out.base is not None and (op_out.base is d or (d.base is not None and op_out.base is d.base))):
                    exp_parent = tv
                    break
        if exp_parent is None:
            exp_base = None
        else:
            pb = snap[id(exp_parent)][0]["_base"] if id(exp_parent) in snap else None
            if exp_parent is p0 and p0state == "stale_view":
                pb = None  # the stale link is dropped first
            exp_base = exp_parent if pb is None else pb
        ctx.oblige(f"C04.base.result_base.{tag}", rk.get("_base", "missing") is exp_base, expected=repr(exp_base), got=repr(rk.get("_base", "missing")), **meta)
        for t in (p0,) + ((p1,) if p1 is not None else ()) + tuple(w[0] for w in wrapped):
            kids = list(interp.iterate_concrete(t.fields["_view_children"]))
            ctx.oblige(f"C04.base.view_children[{t.label}].{tag}", (kids == [rt]) if t is exp_parent else (kids == []), **meta)
        if exp_base is not None:
            ctx.oblige(f"C04.base.replay_info_recorded.{tag}", inst.attrs.get("replay_args") == (a1,) and inst.attrs.get("replay_kwargs") == op_kw and inst.attrs.get("replay_force_constant", "missing") is constant, **meta)
        else:
            ctx.oblige(f"C04.base.no_replay_info_for_non_views.{tag}", not inst.attrs, **meta)
        if p0state == "stale_view":
            ctx.oblige(f"C04.base.stale_base_link_dropped.{tag}", p0.fields["_base"] is None, **meta)
        else:
            ctx.oblige(f"C04.base.live_base_link_kept.{tag}", p0.fields["_base"] is snap[id(p0)][0]["_base"], **meta)
        # ---- C07.null ---------------------------------------------------------------------------------------------------
        for t in (p0,) + ((p1,) if p1 is not None else ()):
            used = any(t is o for o in operands)
            nulled = t.fields["_grad"] is None and t.fields["_view_grad"] is None
            kept = t.fields["_grad"] is snap[id(t)][0]["_grad"] and t.fields["_view_grad"] is snap[id(t)][0]["_view_grad"]
            ctx.oblige(f"C07.null.operand[{t.label}].{tag}", nulled if (used and exp_base is None) else kept, **meta)
        ctx.oblige(f"C07.null.unrelated_tensor_untouched.{tag}", all(B.fields.get(k_) is v_ for k_, v_ in snap[id(B)][0].items()) and B.fields["_ops"] == set(), **meta)
        # ---- graph ---------------------------------------------------------------------------------------------------------
        for t in tensor_vars:
            refs = [w for w in t.fields["_ops"] if isinstance(w, WeakRefModel)]
            ctx.oblige(f"op.consumer_recorded[{t.label}].{tag}", len(refs) == 1 and refs[0].target is inst and len(t.fields["_ops"]) == 1, **meta)
        # ---- C10.infer -------------------------------------------------------------------------------------------------------
        passed = rk.get("constant", "missing")
        if constant is not None:
            ctx.oblige(f"C10.infer.given_wins.{tag}", passed is constant, **meta)
        else:
            flags = [t.fields["_constant"] for t in tensor_vars]
            allc = z3.And(*[to_z3(fl) for fl in flags])
            ctx.oblige(f"C10.infer.all_constant_iff_True.{tag}", z3.BoolVal(passed is True) == allc, **meta)
            ctx.oblige(f"C10.infer.else_deferred_to_dtype.{tag}", passed is True or passed is None, **meta)
        # ---- C08.op success ----------------------------------------------------------------------------------------------------
        if guard:
            post_locks = [e_[1] for e_ in ev[idx_kernel:] if e_[0] == "lock"]
            exp_post = ([op_out.base] if (out is not None and op_out.base is not None) else []) + [op_out]
            ctx.oblige(f"C08.op.locks_result_and_out_base.{tag}", len(post_locks) == len(exp_post) and all(x is y for x, y in zip(post_locks, exp_post)), **meta)
            okf = len(fins) == 1 and fins[0][1] is inst and len(fins[0][3]) == 1
            if okf:
                refs = list(interp.iterate_concrete(fins[0][3][0]))
                exp_refs = expected_locked + exp_post
                okf = len(refs) == len(exp_refs) and all(x is y for x, y in zip(refs, exp_refs))
                fn = fins[0][2]
                okf = okf and getattr(fn, "qualname", "") == f"{LM}:release_writeability_lock_on_op"
            ctx.oblige(f"C08.op.finalizer_releases_exactly_the_locked_set.{tag}", okf and not rels, **meta)

    return h


def obligations(tier="quick"):
    out = []
    info = {"functions": {}, "unsupported": [], "paths": 0, "scenarios": 0}
    for q in (f"{TB}:Tensor._op", f"{UT}:WeakRefIterable.__init__", f"{UT}:WeakRefIterable.append", f"{UT}:WeakRefIterable.__iter__"):
        try:
            _m, node, _c = frontend.find(q)
            info["functions"][q] = frontend.source_hash(node)
        except frontend.ExtractionError as e:
            info["unsupported"].append(str(e))
    combos = []
    for cfgk in OPERAND_CONFIGS:
        for rel in RELS:
            for can_view in (True, False):
                for outk in ("none", "array", "view"):
                    for raises in (False, True, "result"):
                        for guard in (True, False):
                            for constk in ("none", "true", "false"):
                                for p0state in P0_STATES:
                                    if raises is True and (rel != "fresh" or constk != "none"):
                                        continue
                                    if raises == "result" and (constk != "false" or rel not in ("fresh", "view_p0") or outk != "none"):
                                        continue
                                    if not guard and (constk != "none" or raises):
                                        continue
                                    if tier == "quick" and constk != "none" and (rel not in ("fresh", "view_p0") or outk != "none"):
                                        continue
                                    combos.append((cfgk, rel, can_view, outk, raises, guard, constk, p0state))
    for c in combos:
        results = explore(harness(*c))
        k = 0
        for r in results:
            if r.outcome == "unsupported":
                info["unsupported"].append(f"_op{c}: {r.value}")
                continue
            if not r.ctx.obligations:
                continue
            k += 1
            for o in r.ctx.obligations:
                o.name = f"{o.name}.p{k}"
                out.append(o)
        info["paths"] += k
        info["scenarios"] += 1 if k else 0
    return out, info
